import SqVerif.StabApi
import SqVerif.StabGaussUnique
import SqVerif.Props.C13Gates
import SqVerif.StabMatrix
/-
Helper lemmas for `Props/C13Api.lean`: the API part of the stabilizer model
(`StabApi.lean`).  Core Lean only.
-/
namespace SqVerif.Stab.Api
open SqVerif.Stab SqVerif.Stab.Gate SqVerif.C13

/-! ### lists -/

theorem map_range_congr {α : Type} (n : Nat) (f g : Nat → α) (h : ∀ i, i < n → f i = g i) :
    (List.range n).map f = (List.range n).map g :=
  List.map_congr_left fun i hi => h i (List.mem_range.1 hi)

theorem idPad_succ (n : Nat) : idPad (n + 1) = idPad n ++ [(false, false)] := by
  simp [idPad, List.replicate_succ']

theorem setP_append_left (a b : List P1) (i : Nat) (p : P1) (h : i < a.length) :
    setP (a ++ b) i p = setP a i p ++ b := by
  simp [setP, h]

theorem setP_append_right (a b : List P1) (p : P1) : setP (a ++ b) a.length p = a ++ setP b 0 p := by
  simp [setP]

theorem getP_map_range (n : Nat) (f : Nat → P1) (j : Nat) (h : j < n) : getP ((List.range n).map f) j = f j := by
  simp [getP, List.getD_eq_getElem?_getD, h]

/-! ### `StabilizerState(n)` -/

theorem ofInt_zero : ofInt 0 = empty := rfl

theorem ofInt_length (n : Nat) : (ofInt n).rows.length = n := by simp [ofInt]

theorem ofInt_succ (n : Nat) : ofInt (n + 1) = addQubit (ofInt n) := by
  have hl : (idPad n).length = n := by simp [idPad]
  rw [addQubit, tensor_eq (ofInt n) zero1 (ofInt_length n) rfl]
  show ofInt (n + 1) = { n := n + 1, rows := tensorRows n 1 (ofInt n).rows zero1.rows }
  simp only [ofInt, tensorRows, zero1]
  congr 1
  rw [List.range_succ (n := n), List.map_append, List.map_map]
  congr 1
  · apply map_range_congr
    intro i hi
    simp only [Function.comp, padR]
    congr 1
    rw [idPad_succ n, setP_append_left _ _ _ _ (by rw [hl]; exact hi)]
    rfl
  · simp only [List.map_cons, List.map_nil, padL]
    congr 2
    rw [idPad_succ n]
    have := setP_append_right (idPad n) [(false, false)] (false, true)
    rw [hl] at this
    rw [this]; rfl

theorem ofInt_gateBuilt (n : Nat) : GateBuilt (ofInt n) := by
  induction n with
  | zero => exact GateBuilt.empty
  | succ n ih => rw [ofInt_succ]; exact GateBuilt.tensor ih GateBuilt.zero1

theorem ofInt_n (n : Nat) : (ofInt n).n = n := rfl


theorem ofInt_validMax' (n : Nat) : ValidMax n (ofInt n).rows := gateBuilt_validMax (ofInt n) (ofInt_gateBuilt n)

/-- the operator `+Z^zs` -/
def zString (zs : List Bool) : POp := ⟨0, zs.map fun z => (false, z)⟩

/-- the group of `|0..0>` is exactly the set of `+1`-signed strings over {I, Z} -/
theorem ofInt_group' (n : Nat) (p : POp) :
    InGroup n (ofInt n).rows p ↔ ∃ zs : List Bool, zs.length = n ∧ p ≈ₚ zString zs := by
  induction n generalizing p with
  | zero =>
    constructor
    · rintro ⟨c, _, hp⟩
      refine ⟨[], rfl, eqv_symm ?_⟩
      have : prodSel 0 c (dens (ofInt 0).rows) = one 0 := by cases c <;> rfl
      rw [this] at hp; exact hp
    · rintro ⟨zs, hz, hp⟩
      have : zs = [] := List.eq_nil_of_length_eq_zero hz
      subst this
      exact ⟨[], rfl, eqv_symm hp⟩
  | succ n ih =>
    have hv := ofInt_validMax' n
    rw [ofInt_succ]
    have key := addQubit_group_explicit (ofInt n) hv.toCommuting (ofInt_length n) p
    simp only [ofInt_n] at key
    rw [key]
    constructor
    · rintro ⟨q, hq, b, hp⟩
      obtain ⟨zs, hz, hqz⟩ := (ih q).1 hq
      refine ⟨zs ++ [b], by simp [hz], eqv_trans hp ⟨?_, ?_⟩⟩
      · simp [zString, hqz.1]
      · simpa [zString] using hqz.2
    · rintro ⟨zs, hz, hp⟩
      obtain ⟨zs', b, rfl, hz'⟩ := Gauss.snoc_of_length zs n hz
      refine ⟨zString zs', (ih _).2 ⟨zs', hz', eqv_refl _⟩, b, eqv_trans hp ⟨?_, rfl⟩⟩
      simp [zString]

/-! ### strings -/

theorem letterOf_charOf (a : P1) : letterOf (charOf a) = a := by
  rcases a with ⟨x, z⟩; cases x <;> cases z <;> decide

theorem isPauliChar_charOf (a : P1) : isPauliChar (charOf a) = true := by
  rcases a with ⟨x, z⟩; cases x <;> cases z <;> decide

theorem charOf_ne_blank (a : P1) : (charOf a != ' ') = true := by
  rcases a with ⟨x, z⟩; cases x <;> cases z <;> decide

theorem isPauliChar_cases {c : Char} (h : isPauliChar c = true) : c = 'I' ∨ c = 'X' ∨ c = 'Y' ∨ c = 'Z' := by
  simp only [isPauliChar, Bool.or_eq_true, beq_iff_eq] at h
  rcases h with ((h | h) | h) | h
  · exact Or.inl h
  · exact Or.inr (Or.inl h)
  · exact Or.inr (Or.inr (Or.inl h))
  · exact Or.inr (Or.inr (Or.inr h))

theorem charOf_letterOf {c : Char} (h : isPauliChar c = true) : charOf (letterOf c) = c := by
  rcases isPauliChar_cases h with h | h | h | h <;> subst h <;> decide

theorem map_letterOf_charOf (ps : List P1) : (ps.map charOf).map letterOf = ps := by
  induction ps with
  | nil => rfl
  | cons a as ih => simp only [List.map_cons, letterOf_charOf, ih]

theorem map_charOf_letterOf (cs : List Char) (h : isPaulis cs = true) : (cs.map letterOf).map charOf = cs := by
  induction cs with
  | nil => rfl
  | cons a as ih =>
    simp only [isPaulis, List.all_cons, Bool.and_eq_true] at h
    simp only [List.map_cons, charOf_letterOf h.1]
    rw [ih (by simpa [isPaulis] using h.2)]

theorem isPaulis_map_charOf (ps : List P1) : isPaulis (ps.map charOf) = true := by
  simp [isPaulis, isPauliChar_charOf]

/-- the sign prefix `"+1"` / `"-1"` -/
def signL (neg : Bool) : List Char := if neg then ['-', '1'] else ['+', '1']

/-- `cs.startswith("+1") or cs.startswith("-1")` -/
def startsPM (cs : List Char) : Bool := cs.take 2 == ['+', '1'] || cs.take 2 == ['-', '1']

theorem startsPM_sign (neg : Bool) (cs : List Char) : startsPM (signL neg ++ cs) = true := by
  cases neg <;> simp [startsPM, signL]

theorem not_startsPM_of_paulis (cs : List Char) (h : isPaulis cs = true) : startsPM cs = false := by
  match cs, h with
  | [], _ => decide
  | [a], _ => simp [startsPM]
  | a :: b :: rest, h =>
    simp only [isPaulis, List.all_cons, Bool.and_eq_true] at h
    have ha : a ≠ '+' ∧ a ≠ '-' := by
      rcases isPauliChar_cases h.1 with e | e | e | e <;> subst e <;> decide
    simp [startsPM, ha.1, ha.2]

/-- a signed string parses to the row written -/
theorem strToOperatorL_signed (neg : Bool) (letters : List Char) (h : isPaulis letters = true) :
    strToOperatorL (signL neg ++ letters) = some ⟨letters.map letterOf, neg⟩ := by
  cases neg <;> simp [strToOperatorL, signL, h, isPhase]

/-- a string without prefix parses to the `+1`-signed row written -/
theorem strToOperatorL_unsigned (letters : List Char) (h : isPaulis letters = true) :
    strToOperatorL letters = some ⟨letters.map letterOf, false⟩ := by
  have hs := not_startsPM_of_paulis letters h
  simp only [startsPM] at hs
  simp [strToOperatorL, hs, h, isPhase]

/-- nothing else parses -/
theorem strToOperatorL_some {cs : List Char} {r : Row} (h : strToOperatorL cs = some r) :
    ∃ letters, isPaulis letters = true ∧ r = ⟨letters.map letterOf, r.neg⟩ ∧
      (cs = signL r.neg ++ letters ∨ (r.neg = false ∧ cs = letters)) := by
  unfold strToOperatorL at h
  dsimp only at h
  by_cases hs : (cs.take 2 == ['+', '1'] || cs.take 2 == ['-', '1']) = true
  · rw [if_pos hs, if_pos hs] at h
    by_cases hp : isPaulis (cs.drop 2) = true
    · by_cases hq : isPhase (cs.take 2) = true
      · simp only [hp, hq, Bool.not_true, Bool.false_eq_true, if_false, Option.some.injEq] at h
        subst h
        refine ⟨cs.drop 2, hp, rfl, Or.inl ?_⟩
        simp only [Bool.or_eq_true, beq_iff_eq] at hs
        have : signL (cs.take 2 == ['-', '1']) = cs.take 2 := by
          rcases hs with e | e <;> rw [e] <;> rfl
        show cs = signL (cs.take 2 == ['-', '1']) ++ cs.drop 2
        rw [this, List.take_append_drop]
      · simp [hp, hq] at h
    · simp [hp] at h
  · rw [if_neg hs, if_neg hs] at h
    by_cases hp : isPaulis cs = true
    · simp only [hp, Bool.not_true, Bool.false_eq_true, if_false] at h
      split at h
      · cases h
      · simp only [Option.some.injEq] at h
        subst h
        exact ⟨cs, hp, rfl, Or.inr ⟨rfl, rfl⟩⟩
    · simp [hp] at h

/-- remove the blanks of a string -/
def dropBlanks (cs : List Char) : List Char := cs.filter (· != ' ')

theorem dropBlanks_letters (ps : List P1) : dropBlanks (ps.map charOf) = ps.map charOf := by
  induction ps with
  | nil => rfl
  | cons a as ih =>
    simp only [dropBlanks] at ih
    simp [dropBlanks, charOf_ne_blank, ih]

theorem dropBlanks_rowToStringL (r : Row) : dropBlanks (rowToStringL r) = signL r.neg ++ r.ps.map charOf := by
  have := dropBlanks_letters r.ps
  simp only [dropBlanks] at this
  cases hn : r.neg <;> simp [rowToStringL, dropBlanks, hn, signL, this] <;> decide

/-- what `_row_to_string` emits is refused by `_str_to_operator`: the blank after the sign -/
theorem strToOperatorL_rowToStringL (r : Row) : strToOperatorL (rowToStringL r) = none := by
  cases hn : r.neg <;> simp [strToOperatorL, rowToStringL, hn, isPaulis, isPauliChar]

/-- without the blank the round trip is exact -/
theorem strToOperatorL_dropBlanks (r : Row) : strToOperatorL (dropBlanks (rowToStringL r)) = some r := by
  rw [dropBlanks_rowToStringL, strToOperatorL_signed _ _ (isPaulis_map_charOf _), map_letterOf_charOf]

/-- `_row_to_string` of a parsed string writes the sign out: `"XZ"` becomes `"+1 XZ"` -/
theorem rowToStringL_of_parsed {cs : List Char} {r : Row} (h : strToOperatorL cs = some r) :
    dropBlanks (rowToStringL r) = if startsPM cs then cs else ['+', '1'] ++ cs := by
  obtain ⟨letters, hp, hr, hcs⟩ := strToOperatorL_some h
  rw [dropBlanks_rowToStringL]
  have hps : r.ps = letters.map letterOf := by rw [hr]
  rw [hps, map_charOf_letterOf _ hp]
  rcases hcs with e | ⟨hn, e⟩
  · rw [e, startsPM_sign]; rfl
  · rw [e, not_startsPM_of_paulis _ hp, hn]; rfl

/-! ### flat rows -/

theorem flat_length (r : Row) : r.flat.length = 2 * r.ps.length + 1 := by
  simp [Row.flat]; omega

theorem flat_getD_x (r : Row) (i : Nat) (h : i < r.ps.length) : r.flat.getD i false = (getP r.ps i).1 := by
  simp [Row.flat, getP, List.getD_eq_getElem?_getD, List.getElem?_append_left, h]

theorem flat_getD_z (r : Row) (i : Nat) (h : i < r.ps.length) :
    r.flat.getD (r.ps.length + i) false = (getP r.ps i).2 := by
  simp [Row.flat, getP, List.getD_eq_getElem?_getD, List.getElem?_append_left, List.getElem?_append_right, h]

theorem flat_getD_neg (r : Row) : r.flat.getD (2 * r.ps.length) false = r.neg := by
  simp [Row.flat, List.getD_eq_getElem?_getD, Nat.two_mul]

theorem unflat_flat (r : Row) : unflat r.ps.length r.flat = r := by
  rcases r with ⟨ps, neg⟩
  simp only [unflat]
  congr 1
  · apply List.ext_getElem
    · simp
    · intro i h1 h2
      have hi : i < ps.length := by simpa using h1
      simp only [List.getElem_map, List.getElem_range]
      rw [flat_getD_x ⟨ps, neg⟩ i hi, flat_getD_z ⟨ps, neg⟩ i hi]
      simp [getP, List.getD_eq_getElem?_getD, hi]
  · exact flat_getD_neg ⟨ps, neg⟩

/-! ### `mapM` in `Option` -/

theorem mapM_some_iff {α β : Type} (f : α → Option β) (l : List α) (rs : List β) :
    l.mapM f = some rs ↔ l.map f = rs.map some := by
  induction l generalizing rs with
  | nil => cases rs <;> simp
  | cons a as ih =>
    cases rs with
    | nil =>
      simp only [List.mapM_cons, List.map_cons, List.map_nil, reduceCtorEq, iff_false]
      cases f a <;> simp
      cases List.mapM f as <;> simp
    | cons r rs =>
      simp only [List.mapM_cons, List.map_cons, List.cons.injEq]
      cases hfa : f a with
      | none => simp
      | some b =>
        cases hm : List.mapM f as with
        | none =>
          simp
          intro _ h
          have := (ih rs).2 h
          rw [hm] at this; cases this
        | some bs =>
          have := ih bs
          simp [hm] at this
          simp
          intro _
          constructor
          · rintro rfl; exact this
          · intro h
            have h2 := (ih rs).2 h
            rw [hm] at h2; exact (Option.some.inj h2)

theorem map_some_inj {β : Type} (l l' : List β) (h : l.map some = l'.map some) : l = l' := by
  induction l generalizing l' with
  | nil => cases l' with
    | nil => rfl
    | cons b bs => simp at h
  | cons a as ih => cases l' with
    | nil => simp at h
    | cons b bs =>
      simp only [List.map_cons, List.cons.injEq, Option.some.injEq] at h
      rw [h.1, ih bs h.2]

theorem mapM_none_iff {α β : Type} (f : α → Option β) (l : List α) :
    l.mapM f = none ↔ ∃ a, a ∈ l ∧ f a = none := by
  induction l with
  | nil => simp
  | cons a as ih =>
    simp only [List.mapM_cons, List.mem_cons, exists_eq_or_imp]
    cases hfa : f a with
    | none => simp
    | some b =>
      cases hm : List.mapM f as with
      | none => simpa [hm] using ih.1 hm
      | some bs =>
        simp
        intro x hx hn
        have := ih.2 ⟨x, hx, hn⟩
        rw [hm] at this; cases this

/-! ### boolean matrices -/

/-- pairwise commuting rows -/
def Comm (rows : List Row) : Prop := ∀ a, a ∈ rows → ∀ b, b ∈ rows → antiL a.ps b.ps = false

/-- lines 149-159 on an `m x (2m+1)` matrix `g` -/
def finish (m : Nat) (g : List (List Bool)) (check : Bool) : Except Err St :=
  if check && !isSymplectic (g.map (unflat m)) then .error .notCommuting else .ok ⟨m, g.map (unflat m)⟩

/-- the decision table of lines 112-159 -/
theorem ofBoolRows_cons (r0 : List Bool) (rest : List (List Bool)) (check : Bool) :
    ofBoolRows (r0 :: rest) check =
      if (r0 :: rest).any (fun r => r.length != r0.length) then .error .ragged
      else if 2 * (rest.length + 1) = r0.length then
        finish (rest.length + 1) ((r0 :: rest).map (· ++ [false])) check
      else if 2 * (rest.length + 1) + 1 = r0.length then finish (rest.length + 1) (r0 :: rest) check
      else .error .width := by
  by_cases h1 : (r0 :: rest).any (fun r => r.length != r0.length) = true
  · simp only [ofBoolRows, h1, if_true]
  · by_cases h2 : 2 * (rest.length + 1) = r0.length
    · simp only [ofBoolRows, finish, h1, h2, List.length_cons, beq_self_eq_true, if_true]
    · by_cases h3 : 2 * (rest.length + 1) + 1 = r0.length
      · have h2' : (2 * (rest.length + 1) == r0.length) = false := by simpa using h2
        simp only [ofBoolRows, finish, h1, h2, h2', h3, List.length_cons, beq_self_eq_true, if_true]
        rfl
      · have h2' : (2 * (rest.length + 1) == r0.length) = false := by simpa using h2
        have h3' : (2 * (rest.length + 1) + 1 == r0.length) = false := by simpa using h3
        simp only [ofBoolRows, h1, h2, h2', h3, h3', List.length_cons]
        rfl

theorem ok_inj {a b : St} : (Except.ok a : Except Err St) = .ok b ↔ a = b :=
  ⟨fun h => by injection h, fun h => by rw [h]⟩

theorem finish_ok_iff (m : Nat) (g : List (List Bool)) (check : Bool) (s : St) :
    finish m g check = .ok s ↔ (check = true → Comm (g.map (unflat m))) ∧ s = ⟨m, g.map (unflat m)⟩ := by
  unfold finish
  generalize g.map (unflat m) = rows
  have hiff : isSymplectic rows = true ↔ Comm rows := Gauss.isSymplectic_iff rows
  cases check
  · simp only [Bool.false_and, Bool.false_eq_true, if_false, ok_inj]
    exact ⟨fun h => ⟨fun h' => h'.elim, h.symm⟩, fun h => h.2.symm⟩
  · cases hs : isSymplectic rows
    · simp only [Bool.true_and, Bool.not_false, if_true]
      constructor
      · intro h; cases h
      · intro h
        have := hiff.2 (h.1 trivial)
        rw [hs] at this; cases this
    · simp only [Bool.true_and, Bool.not_true, Bool.false_eq_true, if_false, ok_inj]
      exact ⟨fun h => ⟨fun _ => hiff.1 hs, h.symm⟩, fun h => h.2.symm⟩

theorem finish_error_iff (m : Nat) (g : List (List Bool)) (check : Bool) (e : Err) :
    finish m g check = .error e ↔ e = .notCommuting ∧ check = true ∧ ¬ Comm (g.map (unflat m)) := by
  unfold finish
  generalize g.map (unflat m) = rows
  have hiff : isSymplectic rows = true ↔ Comm rows := Gauss.isSymplectic_iff rows
  cases check
  · simp only [Bool.false_and, Bool.false_eq_true, if_false]
    constructor
    · intro h; cases h
    · intro h; cases h.2.1
  · cases hs : isSymplectic rows
    · simp only [Bool.true_and, Bool.not_false, if_true]
      constructor
      · intro h
        injection h with h
        refine ⟨h.symm, trivial, fun hc => ?_⟩
        have := hiff.2 hc
        rw [hs] at this; cases this
      · intro h; rw [h.1]
    · simp only [Bool.true_and, Bool.not_true, Bool.false_eq_true, if_false]
      constructor
      · intro h; cases h
      · intro h; exact absurd (hiff.1 hs) h.2.2

/-- all rows have length `w` -/
def Uniform (data : List (List Bool)) (w : Nat) : Prop := ∀ r, r ∈ data → r.length = w

theorem any_ne_false_iff (data : List (List Bool)) (w : Nat) :
    data.any (fun r => r.length != w) = false ↔ Uniform data w := by
  simp [Uniform, List.any_eq_false]

/-- the rows denoted by an `m x 2m` or `m x (2m+1)` boolean matrix -/
def rowsOfBits (data : List (List Bool)) : List Row :=
  data.map fun r => unflat data.length (if r.length = 2 * data.length then r ++ [false] else r)

theorem rowsOfBits_2m (data : List (List Bool)) (h : Uniform data (2 * data.length)) :
    rowsOfBits data = (data.map (· ++ [false])).map (unflat data.length) := by
  simp only [rowsOfBits, List.map_map]
  apply List.map_congr_left
  intro r hr
  simp [h r hr]

theorem rowsOfBits_2m1 (data : List (List Bool)) (h : Uniform data (2 * data.length + 1)) :
    rowsOfBits data = data.map (unflat data.length) := by
  simp only [rowsOfBits]
  apply List.map_congr_left
  intro r hr
  rw [if_neg (by rw [h r hr]; omega)]

/-! ### graph states -/

theorem adj_symm (es : List (Nat × Nat)) (i j : Nat) : adj es i j = adj es j i := by
  simp only [adj]
  congr 1
  funext e
  rw [Bool.or_comm]

theorem adj_append (es : List (Nat × Nat)) (c t i j : Nat) :
    adj (es ++ [(c, t)]) i j = (adj es i j || ((c == i && t == j) || (c == j && t == i))) := by
  simp [adj, List.any_append]

theorem graphRow_x (n : Nat) (es : List (Nat × Nat)) (i c : Nat) (hc : c < n) :
    (graphRow n es i).x c = (i == c) := by
  simp [Row.x, graphRow, getP_map_range _ _ _ hc]

theorem graphRow_z (n : Nat) (es : List (Nat × Nat)) (i c : Nat) (hc : c < n) :
    (graphRow n es i).z c = adj es i c := by
  simp [Row.z, graphRow, getP_map_range _ _ _ hc]

/-- a list of letters is determined by its length and its letters -/
theorem ps_ext (a b : List P1) (hl : a.length = b.length) (h : ∀ k, k < a.length → getP a k = getP b k) : a = b := by
  apply List.ext_getElem hl
  intro k h1 h2
  have := h k h1
  simpa [getP, List.getD_eq_getElem?_getD, h1, h2] using this

/-- CZ on a new edge `c - t` adds the edge to every generator, no sign appears -/
theorem cz_graphRow (n : Nat) (es : List (Nat × Nat)) (c t i : Nat) (hc : c < n) (ht : t < n) (hne : c ≠ t)
    (hnew : adj es c t = false) :
    rowCZ c t (graphRow n es i) = graphRow n (es ++ [(c, t)]) i := by
  have hx1 := graphRow_x n es i c hc
  have hx2 := graphRow_x n es i t ht
  have hz1 := graphRow_z n es i c hc
  have hz2 := graphRow_z n es i t ht
  have hlen : (graphRow n es i).ps.length = n := by simp [graphRow]
  unfold rowCZ
  simp only [hx1, hx2, hz1, hz2]
  have hflip : ((i == c && i == t) && (adj es i c != adj es i t)) = false := by
    by_cases e1 : i = c
    · subst e1
      have : (i == t) = false := by simpa using hne
      simp [this]
    · have : (i == c) = false := by simpa using e1
      simp [this]
  rw [hflip]
  show ({ ps := _, neg := (graphRow n es i).neg != false } : Row) = _
  have hneg : (graphRow n es i).neg = false := rfl
  rw [hneg]
  show ({ ps := _, neg := false } : Row) = graphRow n (es ++ [(c, t)]) i
  unfold graphRow
  congr 1
  apply ps_ext
  · simp
  · intro k hk
    have hk' : k < n := by simpa [graphRow] using hk
    rw [getP_map_range _ _ _ hk', adj_append]
    by_cases ekc : k = c
    · subst ekc
      rw [getP_setP_eq _ _ _ (by simpa [graphRow] using hk')]
      have e1 : (t == k) = false := by simpa using Ne.symm hne
      by_cases eit : i = t
      · subst eit
        have : adj es i k = false := by rw [adj_symm]; exact hnew
        simp [this, e1]
      · have e2 : (i == t) = false := by simpa using eit
        have e3 : (t == i) = false := by simpa using Ne.symm eit
        simp [e1, e2, e3]
    · rw [getP_setP_ne _ _ _ _ ekc]
      by_cases ekt : k = t
      · subst ekt
        rw [getP_setP_eq _ _ _ (by simpa [graphRow] using hk')]
        have e1 : (c == k) = false := by simpa using hne
        by_cases eic : i = c
        · subst eic
          simp [hnew, e1]
        · have e2 : (i == c) = false := by simpa using eic
          have e3 : (c == i) = false := by simpa using Ne.symm eic
          simp [e1, e2, e3]
      · rw [getP_setP_ne _ _ _ _ ekt, getP_map_range _ _ _ hk']
        have e1 : (c == k) = false := by simpa using Ne.symm ekc
        have e2 : (t == k) = false := by simpa using Ne.symm ekt
        simp [e1, e2]

theorem cz_ofGraph (n : Nat) (es : List (Nat × Nat)) (c t : Nat) (hc : c < n) (ht : t < n) (hne : c ≠ t)
    (hnew : adj es c t = false) :
    applyGate2 .CZ c t (ofGraph n es) = some (ofGraph n (es ++ [(c, t)])) := by
  unfold applyGate2
  rw [if_pos ⟨hc, ht, hne⟩]
  simp only [ofGraph, List.map_map]
  congr 2
  apply map_range_congr
  intro i _
  exact cz_graphRow n es c t i hc ht hne hnew

/-- the circuit: CZ on every listed edge, in order -/
def czAll : List (Nat × Nat) → St → Option St
  | [], s => some s
  | e :: es, s => (applyGate2 .CZ e.1 e.2 s).bind (czAll es)

/-- H on every listed qubit, in order -/
def hAll : List Nat → St → Option St
  | [], s => some s
  | j :: js, s => (applyGate1 .H j s).bind (hAll js)

/-- the edges `es` can be added one by one to the graph with edges `done`: end
points below `n`, no self-loop, not yet an edge (in either orientation) -/
def freshEdges (n : Nat) : List (Nat × Nat) → List (Nat × Nat) → Bool
  | _, [] => true
  | done, e :: es => decide (e.1 < n) && decide (e.2 < n) && (e.1 != e.2) && !adj done e.1 e.2 &&
      freshEdges n (done ++ [e]) es

theorem czAll_ofGraph (n : Nat) (es done : List (Nat × Nat)) (h : freshEdges n done es = true) :
    czAll es (ofGraph n done) = some (ofGraph n (done ++ es)) := by
  induction es generalizing done with
  | nil => simp [czAll]
  | cons e es ih =>
    rcases e with ⟨c, t⟩
    simp only [freshEdges, Bool.and_eq_true, decide_eq_true_eq, bne_iff_ne, ne_eq, Bool.not_eq_true'] at h
    obtain ⟨⟨⟨⟨hc, ht⟩, hne⟩, hnew⟩, hrest⟩ := h
    simp only [czAll]
    rw [cz_ofGraph n done c t hc ht hne hnew]
    simp only [Option.bind_some]
    rw [ih _ hrest, List.append_assoc]
    rfl

theorem czAll_gateBuilt (es : List (Nat × Nat)) (s s' : St) (hs : GateBuilt s) (h : czAll es s = some s') :
    GateBuilt s' := by
  induction es generalizing s with
  | nil => simp only [czAll, Option.some.injEq] at h; exact h ▸ hs
  | cons e es ih =>
    simp only [czAll] at h
    cases h1 : applyGate2 .CZ e.1 e.2 s with
    | none => rw [h1] at h; cases h
    | some s1 =>
      rw [h1] at h
      exact ih s1 (GateBuilt.gate2 .CZ e.1 e.2 hs h1) h

theorem hAll_gateBuilt (js : List Nat) (s s' : St) (hs : GateBuilt s) (h : hAll js s = some s') :
    GateBuilt s' := by
  induction js generalizing s with
  | nil => simp only [hAll, Option.some.injEq] at h; exact h ▸ hs
  | cons j js ih =>
    simp only [hAll] at h
    cases h1 : applyGate1 .H j s with
    | none => rw [h1] at h; cases h
    | some s1 =>
      rw [h1] at h
      exact ih s1 (GateBuilt.gate1 .H j hs h1) h

theorem hAll_append (a b : List Nat) (s : St) : hAll (a ++ b) s = (hAll a s).bind (hAll b) := by
  induction a generalizing s with
  | nil => simp [hAll]
  | cons j js ih =>
    simp only [List.cons_append, hAll]
    cases applyGate1 .H j s with
    | none => rfl
    | some s1 => simp [ih]

/-- `|0..0>` with H applied to the qubits below `k` -/
def hState (n k : Nat) : St :=
  { n := n, rows := (List.range n).map fun i =>
      { ps := setP (idPad n) i (if i < k then (true, false) else (false, true)), neg := false } }

theorem hState_zero (n : Nat) : hState n 0 = ofInt n := by
  simp [hState, ofInt]

theorem idPad_length (n : Nat) : (idPad n).length = n := by simp [idPad]

theorem h_hState (n k : Nat) (hk : k < n) : applyGate1 .H k (hState n k) = some (hState n (k + 1)) := by
  unfold applyGate1
  rw [if_pos (show k < (hState n k).n from hk)]
  simp only [hState, List.map_map]
  congr 2
  apply map_range_congr
  intro i hi
  simp only [Function.comp, Gate1.row, rowH, Row.x, Row.z]
  by_cases e : i = k
  · subst e
    rw [if_neg (Nat.lt_irrefl _), if_pos (Nat.lt_succ_self _), getP_setP_eq _ _ _ (by rw [idPad_length]; exact hi),
      setP_setP_same]
    rfl
  · rw [getP_setP_ne _ _ _ _ (Ne.symm e)]
    have hI : getP (idPad n) k = (false, false) := getP_replicate n k
    rw [hI]
    have hsame : (if i < k + 1 then ((true, false) : P1) else (false, true)) = if i < k then (true, false) else (false, true) := by
      by_cases h1 : i < k
      · rw [if_pos h1, if_pos (by omega)]
      · rw [if_neg h1, if_neg (by omega)]
    rw [hsame]
    congr 1
    have : getP (setP (idPad n) i (if i < k then ((true, false) : P1) else (false, true))) k = (false, false) := by
      rw [getP_setP_ne _ _ _ _ (Ne.symm e)]; exact hI
    conv => rhs; rw [← setP_getP_self (setP (idPad n) i (if i < k then ((true, false) : P1) else (false, true))) k]
    rw [this]

theorem hAll_range (n k : Nat) (hk : k ≤ n) : hAll (List.range k) (ofInt n) = some (hState n k) := by
  induction k with
  | zero => simp [hAll, hState_zero]
  | succ k ih =>
    rw [List.range_succ, hAll_append, ih (by omega)]
    simp only [Option.bind_some, hAll]
    rw [h_hState n k (by omega)]
    rfl

theorem graphRow_nil (n i : Nat) (hi : i < n) :
    graphRow n [] i = { ps := setP (idPad n) i (true, false), neg := false } := by
  unfold graphRow
  congr 1
  apply ps_ext
  · simp [idPad_length]
  · intro k hk
    have hk' : k < n := by simpa using hk
    rw [getP_map_range _ _ _ hk']
    by_cases e : k = i
    · subst e
      rw [getP_setP_eq _ _ _ (by rw [idPad_length]; exact hk')]
      simp [adj]
    · rw [getP_setP_ne _ _ _ _ e]
      have : getP (idPad n) k = (false, false) := getP_replicate n k
      rw [this]
      have : (i == k) = false := by simpa using Ne.symm e
      simp [adj, this]

theorem hState_full (n : Nat) : hState n n = ofGraph n [] := by
  simp only [hState, ofGraph]
  congr 1
  apply map_range_congr
  intro i hi
  rw [if_pos hi, graphRow_nil n i hi]

/-- the explicit preparation circuit of a graph state -/
def graphCircuit (n : Nat) (es : List (Nat × Nat)) : Option St :=
  (hAll (List.range n) (ofInt n)).bind (czAll es)

/-- simple undirected graph on the nodes `0..n-1`, every edge listed once -/
def SimpleGraph (n : Nat) (es : List (Nat × Nat)) : Prop := freshEdges n [] es = true

instance (n : Nat) (es : List (Nat × Nat)) : Decidable (SimpleGraph n es) := by unfold SimpleGraph; infer_instance

theorem graphCircuit_eq (n : Nat) (es : List (Nat × Nat)) (h : SimpleGraph n es) :
    graphCircuit n es = some (ofGraph n es) := by
  unfold graphCircuit
  rw [hAll_range n n (Nat.le_refl _), hState_full]
  simp only [Option.bind_some]
  have := czAll_ofGraph n es [] h
  simpa using this

theorem ofGraph_gateBuilt' (n : Nat) (es : List (Nat × Nat)) (h : SimpleGraph n es) : GateBuilt (ofGraph n es) := by
  have h1 : hAll (List.range n) (ofInt n) = some (ofGraph n []) := by
    rw [hAll_range n n (Nat.le_refl _), hState_full]
  have g1 := hAll_gateBuilt _ _ _ (ofInt_gateBuilt n) h1
  have h2 : czAll es (ofGraph n []) = some (ofGraph n es) := by
    have := czAll_ofGraph n es [] h
    simpa using this
  exact czAll_gateBuilt _ _ _ g1 h2

/-- conjugation by the H layer / the CZ layer of the circuit, gate by gate -/
def conjH (js : List Nat) (p : POp) : POp := js.foldl (fun p j => conjAt1 .H j p) p
def conjCZ (es : List (Nat × Nat)) (p : POp) : POp := es.foldl (fun p e => conjAt2 .CZ e.1 e.2 p) p

theorem conjH_congr (js : List Nat) {p q : POp} (h : p ≈ₚ q) : conjH js p ≈ₚ conjH js q := by
  induction js generalizing p q with
  | nil => exact h
  | cons j js ih => exact ih (Gate.conjAt1_congr .H j h)

theorem conjCZ_congr (es : List (Nat × Nat)) {p q : POp} (h : p ≈ₚ q) : conjCZ es p ≈ₚ conjCZ es q := by
  induction es generalizing p q with
  | nil => exact h
  | cons e es ih => exact ih (Gate.conjAt2_congr .CZ e.1 e.2 h)

theorem hAll_group (n : Nat) (js : List Nat) (s s' : St) (hn : s.n = n) (hc : Commuting n s.rows)
    (h : hAll js s = some s') :
    s'.n = n ∧ Commuting n s'.rows ∧
      ∀ p, InGroup n s'.rows p ↔ ∃ q, InGroup n s.rows q ∧ p ≈ₚ conjH js q := by
  induction js generalizing s with
  | nil =>
    simp only [hAll, Option.some.injEq] at h
    subst h
    refine ⟨hn, hc, fun p => ⟨fun hp => ⟨p, hp, eqv_refl _⟩, ?_⟩⟩
    rintro ⟨q, hq, hpq⟩
    exact inGroup_eqv hq (eqv_symm hpq)
  | cons j js ih =>
    simp only [hAll] at h
    cases h1 : applyGate1 .H j s with
    | none => rw [h1] at h; cases h
    | some s1 =>
      rw [h1] at h
      obtain ⟨hj, rfl⟩ := gate1_some .H j s s1 h1
      have hc1 : Commuting n (s.rows.map (Gate1.row .H j)) := (act1 n .H j (hn ▸ hj)).commuting s.rows hc
      obtain ⟨a, b, c⟩ := ih { s with rows := s.rows.map (Gate1.row .H j) } hn hc1 h
      refine ⟨a, b, fun p => ?_⟩
      rw [c p]
      constructor
      · rintro ⟨q1, hq1, hp⟩
        obtain ⟨q, hq, e⟩ := (gate1_group n s _ .H j hc hn h1 q1).1 hq1
        exact ⟨q, hq, eqv_trans hp (conjH_congr js e)⟩
      · rintro ⟨q, hq, hp⟩
        exact ⟨conjAt1 .H j q, (gate1_group n s _ .H j hc hn h1 _).2 ⟨q, hq, eqv_refl _⟩, hp⟩

theorem czAll_group (n : Nat) (es : List (Nat × Nat)) (s s' : St) (hn : s.n = n) (hc : Commuting n s.rows)
    (h : czAll es s = some s') :
    s'.n = n ∧ Commuting n s'.rows ∧
      ∀ p, InGroup n s'.rows p ↔ ∃ q, InGroup n s.rows q ∧ p ≈ₚ conjCZ es q := by
  induction es generalizing s with
  | nil =>
    simp only [czAll, Option.some.injEq] at h
    subst h
    refine ⟨hn, hc, fun p => ⟨fun hp => ⟨p, hp, eqv_refl _⟩, ?_⟩⟩
    rintro ⟨q, hq, hpq⟩
    exact inGroup_eqv hq (eqv_symm hpq)
  | cons e es ih =>
    simp only [czAll] at h
    cases h1 : applyGate2 .CZ e.1 e.2 s with
    | none => rw [h1] at h; cases h
    | some s1 =>
      rw [h1] at h
      obtain ⟨⟨hj1, hj2, hj3⟩, rfl⟩ := gate2_some .CZ e.1 e.2 s s1 h1
      have hc1 : Commuting n (s.rows.map (Gate2.row .CZ e.1 e.2)) :=
        (act2 n .CZ e.1 e.2 (hn ▸ hj1) (hn ▸ hj2) hj3).commuting s.rows hc
      obtain ⟨a, b, c⟩ := ih { s with rows := s.rows.map (Gate2.row .CZ e.1 e.2) } hn hc1 h
      refine ⟨a, b, fun p => ?_⟩
      rw [c p]
      constructor
      · rintro ⟨q1, hq1, hp⟩
        obtain ⟨q, hq, e'⟩ := (gate2_group n s _ .CZ e.1 e.2 hc hn h1 q1).1 hq1
        exact ⟨q, hq, eqv_trans hp (conjCZ_congr es e')⟩
      · rintro ⟨q, hq, hp⟩
        exact ⟨conjAt2 .CZ e.1 e.2 q, (gate2_group n s _ .CZ e.1 e.2 hc hn h1 _).2 ⟨q, hq, eqv_refl _⟩, hp⟩

/-- the group of the graph state is the group `<Z_1..Z_n>` of `|0..0>` conjugated by the circuit -/
theorem ofGraph_group' (n : Nat) (es : List (Nat × Nat)) (h : SimpleGraph n es) (p : POp) :
    InGroup n (ofGraph n es).rows p ↔
      ∃ q, InGroup n (ofInt n).rows q ∧ p ≈ₚ conjCZ es (conjH (List.range n) q) := by
  have h1 : hAll (List.range n) (ofInt n) = some (ofGraph n []) := by
    rw [hAll_range n n (Nat.le_refl _), hState_full]
  have h2 : czAll es (ofGraph n []) = some (ofGraph n es) := by
    have := czAll_ofGraph n es [] h
    simpa using this
  obtain ⟨a1, b1, c1⟩ := hAll_group n _ _ _ rfl (ofInt_validMax' n).toCommuting h1
  obtain ⟨_, _, c2⟩ := czAll_group n _ _ _ a1 b1 h2
  rw [c2 p]
  constructor
  · rintro ⟨q1, hq1, hp⟩
    obtain ⟨q, hq, e⟩ := (c1 q1).1 hq1
    exact ⟨q, hq, eqv_trans hp (conjCZ_congr es e)⟩
  · rintro ⟨q, hq, hp⟩
    exact ⟨conjH (List.range n) q, (c1 _).2 ⟨q, hq, eqv_refl _⟩, hp⟩

/-! ### pivot columns -/

theorem gaussLoopP_fst (w : Nat) (fuel : Nat) : ∀ (rows : List Row) (h k : Nat) (piv : List Nat),
    (gaussLoopP w rows h k piv fuel).1 = gaussLoop w rows h k fuel := by
  induction fuel with
  | zero => intro rows h k piv; rfl
  | succ fuel ih =>
    intro rows h k piv
    unfold gaussLoopP gaussLoop
    by_cases hc : h < rows.length ∧ k < 2 * w + 1
    · rw [if_pos hc, if_pos hc]
      cases hs : gaussStep w rows h k with
      | mk rows' h' => exact ih rows' h' (k + 1) _
    · rw [if_neg hc, if_neg hc]

theorem gaussP_fst (w : Nat) (rows : List Row) : (gaussP w rows).1 = gauss w rows :=
  gaussLoopP_fst w _ rows 0 0 []

/-- the pivot list as a function -/
def pf (piv : List Nat) : Nat → Nat := fun i => piv.getD i 0

theorem RInv_congr {w : Nat} {t : List Row} {h k : Nat} {p1 p2 : Nat → Nat} (hI : Gauss.RInv w t h k p1)
    (e : ∀ i, i < h → p1 i = p2 i) : Gauss.RInv w t h k p2 := by
  refine ⟨hI.wid, hI.kle, hI.hle, ?_, ?_, ?_, ?_, ?_, hI.low⟩
  · intro i j hij hj; rw [← e i (by omega), ← e j hj]; exact hI.mono i j hij hj
  · intro i hi; rw [← e i hi]; exact hI.lt i hi
  · intro i hi; rw [← e i hi]; exact hI.one i hi
  · intro i hi c hc; rw [← e i hi] at hc; exact hI.lead i hi c hc
  · intro i hi j hj; rw [← e i hi]; exact hI.uniq i hi j hj

theorem gaussLoopP_inv (w : Nat) (fuel : Nat) : ∀ (rows : List Row) (h k : Nat) (piv : List Nat),
    k + fuel = 2 * w + 1 → Gauss.RInv w rows h k (pf piv) → piv.length = h →
    ∃ h' k', Gauss.RInv w (gaussLoopP w rows h k piv fuel).1 h' k' (pf (gaussLoopP w rows h k piv fuel).2) ∧
      (gaussLoopP w rows h k piv fuel).2.length = h' ∧
      ((gaussLoopP w rows h k piv fuel).1.length ≤ h' ∨ 2 * w + 1 ≤ k') := by
  induction fuel with
  | zero =>
    intro rows h k piv hk hI hl
    exact ⟨h, k, hI, hl, Or.inr (by omega)⟩
  | succ fuel ih =>
    intro rows h k piv hk hI hl
    unfold gaussLoopP
    by_cases hc : h < rows.length ∧ k < 2 * w + 1
    · rw [if_pos hc]
      cases hf : firstFrom w rows h k with
      | none =>
        rw [Gauss.gaussStep_none hf]
        simp only [Option.isSome_none, Bool.false_eq_true, if_false]
        refine ih rows h (k + 1) piv (by omega) ?_ hl
        exact ⟨hI.wid, by omega, hI.hle, hI.mono, fun i hi => by have := hI.lt i hi; omega, hI.one, hI.lead, hI.uniq,
          fun j hj c hc' => by
            by_cases e : c = k
            · subst e; exact Gauss.firstFrom_none hf j hj
            · exact hI.low j hj c (by omega)⟩
      | some i =>
        rw [Gauss.gaussStep_some hf]
        simp only [Option.isSome_some, if_true]
        refine ih _ (h + 1) (k + 1) (piv ++ [k]) (by omega) ?_ (by simp [hl])
        apply RInv_congr (Gauss.rinv_step hI hc.2 hf)
        intro j hj
        simp only [pf]
        by_cases e : j = h
        · subst e; rw [if_pos rfl]; simp [List.getD_eq_getElem?_getD, ← hl]
        · rw [if_neg e]
          have : j < piv.length := by omega
          simp [List.getD_eq_getElem?_getD, List.getElem?_append_left this]
    · rw [if_neg hc]
      exact ⟨h, k, hI, hl, by show rows.length ≤ h ∨ 2 * w + 1 ≤ k; omega⟩

/-- the pivot columns reported by `boolean_gaussian_elimination(matrix, True)` are the
pivot columns of the reduced form it returns: increasing, row `i` has its leading
1 in column `piv[i]` and is the only row with a 1 there, rows beyond are zero -/
theorem pivotColumns_redAt (w : Nat) (rows : List Row) (hw : ∀ r, r ∈ rows → r.ps.length = w) :
    Gauss.RedAt w (gauss w rows) (pivotColumns w rows).length (pf (pivotColumns w rows)) := by
  obtain ⟨h', k', hI, hl, hend⟩ := gaussLoopP_inv w (2 * w + 1) rows 0 0 [] (by omega)
    ⟨hw, by omega, by omega, fun _ _ _ hj => by omega, fun _ hi => by omega, fun _ hi => by omega,
      fun _ hi => by omega, fun _ hi => by omega, fun _ _ c hc => by omega⟩ rfl
  have e1 : (gaussLoopP w rows 0 0 [] (2 * w + 1)).1 = gauss w rows := gaussP_fst w rows
  have e2 : (gaussLoopP w rows 0 0 [] (2 * w + 1)).2 = pivotColumns w rows := rfl
  rw [e1, e2] at hI
  rw [e1] at hend
  rw [e2] at hl
  rw [hl]
  refine ⟨hI.hle, hI.mono, fun i hi => by have := hI.lt i hi; have := hI.kle; omega, hI.one, hI.lead, hI.uniq, ?_⟩
  intro j hj c
  rcases hend with hlen | hk
  · rw [List.getD_eq_getElem?_getD, List.getElem?_eq_none (by omega)]; exact Gauss.dflt_bit _ _
  · by_cases hc : c < 2 * w + 1
    · exact hI.low j hj c (by have := hI.kle; omega)
    · exact Gauss.bit_gt w _ c (by omega)

/-- a state on `n` qubits has `n` pivot columns -/
theorem pivotColumns_length (n : Nat) (rows : List Row) (hv : Valid n rows) : (pivotColumns n rows).length = n := by
  have R := pivotColumns_redAt n rows hv.width
  have := (Gauss.valid_reduced_full (Gauss.gauss_valid n rows hv) R).1
  rw [this, Gauss.gauss_length]; exact hv.count

/-! ### standard form -/

theorem gauss_idem (n : Nat) (rows : List Row) (hv : Valid n rows) : gauss n (gauss n rows) = gauss n rows := by
  have hv1 := Gauss.gauss_valid n rows hv
  have hv2 := Gauss.gauss_valid n _ hv1
  exact Gauss.reduced_unique hv2 hv1 (Gauss.gauss_reduced n _ hv1.width) (Gauss.gauss_reduced n _ hv.width)
    (Gauss.gauss_sameGroup n _ hv1.toCommuting)

theorem gauss_canonical (n : Nat) (a b : List Row) (ha : Valid n a) (hb : Valid n b) (hs : SameGroup n a b) :
    gauss n a = gauss n b :=
  Gauss.reduced_unique (Gauss.gauss_valid n a ha) (Gauss.gauss_valid n b hb) (Gauss.gauss_reduced n a ha.width)
    (Gauss.gauss_reduced n b hb.width)
    (sameGroup_trans (Gauss.gauss_sameGroup n a ha.toCommuting)
      (sameGroup_trans hs (sameGroup_symm (Gauss.gauss_sameGroup n b hb.toCommuting))))

end SqVerif.Stab.Api

namespace SqVerif.Stab.Api
open SqVerif.Stab SqVerif.Stab.Gate SqVerif.C13

/-! ### two one-qubit gates in a row on the same qubit (apply_sqrt_minIX, apply_sqrt_IZ) -/

def seq1 (g1 g2 : Gate1) (j : Nat) (s : St) : Option St := (applyGate1 g1 j s).bind (applyGate1 g2 j)

theorem sqrtMinIX_eq (j : Nat) (s : St) : sqrtMinIX j s = seq1 .K .Z j s := rfl
theorem sqrtIZ_eq (j : Nat) (s : St) : sqrtIZ j s = seq1 .Z .S j s := rfl

theorem seq1_some (g1 g2 : Gate1) (j : Nat) (s s' : St) (h : seq1 g1 g2 j s = some s') :
    j < s.n ∧ s' = { s with rows := (s.rows.map (g1.row j)).map (g2.row j) } := by
  unfold seq1 at h
  cases h1 : applyGate1 g1 j s with
  | none => rw [h1] at h; cases h
  | some s1 =>
    rw [h1] at h
    obtain ⟨hj, rfl⟩ := gate1_some g1 j s s1 h1
    obtain ⟨_, rfl⟩ := gate1_some g2 j _ s' h
    exact ⟨hj, rfl⟩

theorem seq1_none_iff (g1 g2 : Gate1) (j : Nat) (s : St) : seq1 g1 g2 j s = none ↔ ¬ j < s.n := by
  unfold seq1 applyGate1
  by_cases hj : j < s.n
  · simp [hj]
  · simp [hj]

theorem seq1_group (g1 g2 : Gate1) (n j : Nat) (s s' : St) (hc : Commuting n s.rows) (hn : s.n = n)
    (h : seq1 g1 g2 j s = some s') (p : POp) :
    InGroup n s'.rows p ↔ ∃ q, InGroup n s.rows q ∧ p ≈ₚ conjAt1 g2 j (conjAt1 g1 j q) := by
  obtain ⟨hj, rfl⟩ := seq1_some g1 g2 j s s' h
  have hjn : j < n := hn ▸ hj
  have hc1 : Commuting n (s.rows.map (g1.row j)) := (act1 n g1 j hjn).commuting s.rows hc
  have G2 : InGroup n ((s.rows.map (g1.row j)).map (g2.row j)) p ↔
      ∃ q, InGroup n (s.rows.map (g1.row j)) q ∧ p ≈ₚ conjAt1 g2 j q := (act1 n g2 j hjn).group _ hc1.width p
  have G1 : ∀ q1, InGroup n (s.rows.map (g1.row j)) q1 ↔ ∃ q, InGroup n s.rows q ∧ q1 ≈ₚ conjAt1 g1 j q :=
    fun q1 => (act1 n g1 j hjn).group s.rows hc.width q1
  show InGroup n ((s.rows.map (g1.row j)).map (g2.row j)) p ↔ _
  rw [G2]
  constructor
  · rintro ⟨q1, hq1, hp⟩
    obtain ⟨q, hq, e⟩ := (G1 q1).1 hq1
    exact ⟨q, hq, eqv_trans hp (Gate.conjAt1_congr g2 j e)⟩
  · rintro ⟨q, hq, hp⟩
    exact ⟨conjAt1 g1 j q, (G1 _).2 ⟨q, hq, eqv_refl _⟩, hp⟩

theorem seq1_validMax (g1 g2 : Gate1) (j : Nat) (s s' : St) (hv : ValidMax s.n s.rows)
    (h : seq1 g1 g2 j s = some s') : s'.n = s.n ∧ ValidMax s'.n s'.rows := by
  obtain ⟨hj, rfl⟩ := seq1_some g1 g2 j s s' h
  exact ⟨rfl, (act1 s.n g2 j hj).validMax _ ((act1 s.n g1 j hj).validMax s.rows hv)⟩

theorem seq1_valid (g1 g2 : Gate1) (j : Nat) (s s' : St) (hv : Valid s.n s.rows)
    (h : seq1 g1 g2 j s = some s') : s'.n = s.n ∧ Valid s'.n s'.rows := by
  obtain ⟨hj, rfl⟩ := seq1_some g1 g2 j s s' h
  exact ⟨rfl, (act1 s.n g2 j hj).valid _ ((act1 s.n g1 j hj).valid s.rows hv)⟩

/-- the composed letter table: first `g1`, then `g2` -/
def conj1Seq (g1 g2 : Gate1) (a : P1) : Nat × P1 :=
  ((conj1 g1 a).1 + (conj1 g2 (conj1 g1 a).2).1, (conj1 g2 (conj1 g1 a).2).2)

theorem conjAt1_seq (g1 g2 : Gate1) (j : Nat) (q : POp) (hj : j < q.ps.length) :
    conjAt1 g2 j (conjAt1 g1 j q) =
      ⟨q.ph + (conj1Seq g1 g2 (getP q.ps j)).1, setP q.ps j (conj1Seq g1 g2 (getP q.ps j)).2⟩ := by
  simp only [conjAt1, conj1Seq, getP_setP_eq _ _ _ hj, setP_setP_same, Nat.add_assoc]

end SqVerif.Stab.Api

namespace SqVerif.Stab.Mat
open SqVerif.Stab.Api

/-- `I - iX = √2 · exp(-i π/4 X)`, the matrix of `apply_sqrt_minIX` times √2 -/
def sqrtMinIXMx : Mx := [[⟨1, 0⟩, ⟨0, -1⟩], [⟨0, -1⟩, ⟨1, 0⟩]]
/-- `I + iZ = √2 · exp(i π/4 Z)`, `(1+i)` times the matrix of `apply_sqrt_IZ` -/
def sqrtIZMx : Mx := [[⟨1, 1⟩, ⟨0, 0⟩], [⟨0, 0⟩, ⟨1, -1⟩]]

/-- K then Z is the matrix product `Z · K` (K carried with its factor √2) -/
theorem sqrtMinIXMx_eq : mmul 2 (gate1Mx .Z) (gate1Mx .K) = sqrtMinIXMx := by decide
/-- `(I - iX)² = -2i·X`: the gate squares to `-iX` -/
theorem sqrtMinIXMx_sq : mmul 2 sqrtMinIXMx sqrtMinIXMx = smul ⟨0, -2⟩ (pauli (true, false)) := by decide
/-- Z then S is `S · Z = diag(1, -i)`, which is `I + iZ` up to the factor `1 + i` -/
theorem sqrtIZMx_eq : smul ⟨1, 1⟩ (mmul 2 (gate1Mx .S) (gate1Mx .Z)) = sqrtIZMx := by decide
/-- `(I + iZ)² = 2i·Z`: the gate squares to `iZ` (up to the global phase) -/
theorem sqrtIZMx_sq : mmul 2 sqrtIZMx sqrtIZMx = smul ⟨0, 2⟩ (pauli (false, true)) := by decide

theorem sqrtMinIX_is_matrix_conjugation (a : P1) :
    conjBy 2 sqrtMinIXMx (pauli a) =
      smul (GI.ofInt 2) (smul (GI.ipow (conj1Seq .K .Z a).1) (pauli (conj1Seq .K .Z a).2)) := by
  rcases a with ⟨x, z⟩; cases x <;> cases z <;> decide

theorem sqrtIZ_is_matrix_conjugation (a : P1) :
    conjBy 2 sqrtIZMx (pauli a) =
      smul (GI.ofInt 2) (smul (GI.ipow (conj1Seq .Z .S a).1) (pauli (conj1Seq .Z .S a).2)) := by
  rcases a with ⟨x, z⟩; cases x <;> cases z <;> decide

end SqVerif.Stab.Mat

namespace SqVerif.Stab.Api
open SqVerif.Stab SqVerif.Stab.Gate SqVerif.C13

/-! ### `Pauli_phase_tracking` -/

theorem pauliPhaseTracking_eq_iexp (old applied : P1) : pauliPhaseTracking old applied = iexp applied old := by
  rcases old with ⟨a, b⟩; rcases applied with ⟨c, d⟩
  cases a <;> cases b <;> cases c <;> cases d <;> rfl

/-! ### argument handling of `contains` -/

theorem map_some_beq (l : List Bool) : (l.map some).map (fun b => b == some true) = l := by
  induction l with
  | nil => rfl
  | cons a as ih => cases a <;> simp [ih]

theorem containsBits_flat (s : St) (r : Row) (h : r.ps.length = s.n) :
    containsBits s (r.flat.map some) = .ok (contains s.n s.rows r) := by
  have hl : (r.flat.map some).length = 2 * s.n + 1 := by rw [List.length_map, flat_length, h]
  unfold containsBits assertValidStabilizer
  simp only [hl]
  have e1 : (2 * s.n + 1 == 2 * s.n + 1 - 1) = false := by simp
  simp only [e1, Bool.false_eq_true, if_false, hl]
  have e2 : (r.flat.map some).any Option.isNone = false := by simp [List.any_eq_false]
  simp only [e2, Bool.false_eq_true, if_false, bne_self_eq_false, map_some_beq]
  rw [← h, unflat_flat]

theorem containsBits_flat_wrongLen (s : St) (r : Row) (h : r.ps.length ≠ s.n) :
    containsBits s (r.flat.map some) = .error .stabLen := by
  have hl : (r.flat.map some).length = 2 * r.ps.length + 1 := by rw [List.length_map, flat_length]
  unfold containsBits assertValidStabilizer
  simp only [hl]
  have e1 : (2 * r.ps.length + 1 == 2 * s.n + 1 - 1) = false := by simp; omega
  simp only [e1, Bool.false_eq_true, if_false, hl]
  have e2 : (r.flat.map some).any Option.isNone = false := by simp [List.any_eq_false]
  have e3 : (2 * r.ps.length + 1 != 2 * s.n + 1) = true := by simp; omega
  simp only [e2, Bool.false_eq_true, if_false, e3, if_true]
end SqVerif.Stab.Api

import SqVerif.VNetWF
/-
C07 — Per-node qubit capacity is enforced exactly.

`held s i` is the number of qubits node `i` holds (its `virtQubits`), wherever
they are simulated; `n.maxQubits` / `n.maxRegs` are the node's configured limits,
`n.numRegs` its register count.  All theorems are about arbitrary well-formed
(`WF`, C02) states resp. arbitrary reachable states of networks of any size with
any limits.
-/
namespace SqVerif.C07
open SqVerif.VNet SqVerif.VNet.WFP

/-! ### T07.1 creation -/

/-- T07.1 `new` at a valid node succeeds iff the node holds fewer qubits than its maximum AND has a free
register slot; it is refused with `noQubitError` iff the node is full (whatever the register count),
and with `quantumError` iff the node is not full but has no free register slot.  In the two refusal
cases the state is unchanged. -/
theorem create_iff (s : Net) (a : Nat) (n : Node) (hw : WF s) (hn : s.nodes[a]? = some n) :
    ((∃ hid, (step s (.new a)).2.1 = .handle hid) ↔ held s a < n.maxQubits ∧ n.numRegs < n.maxRegs) ∧
    ((step s (.new a)).2.1 = .err .noQubit ↔ n.maxQubits ≤ held s a) ∧
    ((step s (.new a)).2.1 = .err .quantum ↔ held s a < n.maxQubits ∧ n.maxRegs ≤ n.numRegs) ∧
    (∀ e, (step s (.new a)).2.1 = .err e → (step s (.new a)).1 = s) := by
  have hheld : held s a = n.virt.length := by simp [held, heldAt_def, hn]
  rw [hheld]
  simp only [step]
  rcases stepNew_cases hw.toP hn with ⟨h1, h2, e⟩ | ⟨h1, e⟩ | ⟨h1, h2, e⟩ <;> rw [e] <;> dsimp only
  · refine ⟨⟨fun _ => ⟨h1, h2⟩, fun _ => ⟨_, rfl⟩⟩, ⟨fun h => (by cases h), fun h => (by omega)⟩,
      ⟨fun h => (by cases h), fun h => (by omega)⟩, fun e h => (by cases h)⟩
  · refine ⟨⟨fun ⟨_, h⟩ => (by cases h), fun h => (by omega)⟩, ⟨fun _ => h1, fun _ => rfl⟩,
      ⟨fun h => (by cases h), fun h => (by omega)⟩, fun _ _ => rfl⟩
  · refine ⟨⟨fun ⟨_, h⟩ => (by cases h), fun h => (by omega)⟩, ⟨fun h => (by cases h), fun h => (by omega)⟩,
      ⟨fun _ => ⟨h1, h2⟩, fun _ => rfl⟩, fun _ _ => rfl⟩

/-- `new` at a node index that does not exist is not expressible through the API -/
theorem create_bad_node (s : Net) (a : Nat) (hn : s.nodes[a]? = none) : step s (.new a) = (s, .badCall, []) :=
  stepNew_bad hn

/-! ### T07.2 receiving -/

/-- T07.2 sending an active handle held at `a` to another existing node `b` succeeds iff `b` holds
fewer qubits than its maximum — there is no condition on where the qubit, or any qubit of `a` or `b`,
is simulated, nor on `b`'s registers; otherwise the result is `noQubitError` and the state is unchanged -/
theorem receive_iff (s : Net) (a b hdl : Nat) (nb : Node) (hw : WF s) (hheld : hdl ∈ heldAt s a)
    (hb : s.nodes[b]? = some nb) (hne : b ≠ a) :
    ((∃ k, (step s (.send hdl b)).2.1 = .num k) ↔ held s b < nb.maxQubits) ∧
    (nb.maxQubits ≤ held s b → step s (.send hdl b) = (s, .err .noQubit, [])) := by
  have w := hw.toP
  have hheldb : held s b = nb.virt.length := by simp [held, heldAt_def, hb]
  rw [hheldb]
  simp only [step]
  obtain ⟨n, en, hm⟩ := mem_heldAt.1 hheld
  obtain ⟨vq, hv, hact, hvn, _⟩ := (w.nodes a n en).virtOK hdl hm
  rcases stepSend_cases hv hact hb (hvn ▸ hne) with ⟨hcap, e⟩ | ⟨hcap, e⟩ <;> rw [e] <;> dsimp only
  · exact ⟨⟨fun _ => hcap, fun _ => ⟨_, rfl⟩⟩, fun h => (by omega)⟩
  · exact ⟨⟨fun ⟨_, h⟩ => (by cases h), fun h => (by omega)⟩, fun _ => rfl⟩

/-! ### T07.3 the limit is never exceeded -/

/-- the configured limits never change -/
theorem caps_constant (caps : List (Nat × Nat)) (s : Net) (h : Reach caps s) :
    s.nodes.map (fun n => (n.maxQubits, n.maxRegs)) = caps := by
  induction h with
  | init => simp [init, mkNode, List.map_map, Function.comp_def]
  | @step s op hr ih =>
    rw [← ih]
    apply List.ext_getElem?
    intro i
    rw [List.getElem?_map, List.getElem?_map]
    exact (step_rel (wf_reachable' caps s hr).toP op).caps i

/-- T07.3 in every reachable state every node holds at most its configured maximum of qubits -/
theorem never_exceeds (caps : List (Nat × Nat)) (s : Net) (h : Reach caps s) (i : Nat) (n : Node)
    (hn : s.nodes[i]? = some n) :
    n.virt.length ≤ n.maxQubits ∧ held s i ≤ n.maxQubits ∧ (caps[i]?).map (·.1) = some n.maxQubits := by
  have hw := wf_reachable' caps s h
  have hcap := (hw.nodes i n hn).cap
  refine ⟨hcap, by simpa [held, heldAt_def, hn] using hcap, ?_⟩
  rw [← caps_constant caps s h, List.getElem?_map, hn]
  rfl

/-! ### T07.4 freed capacity is immediately reusable -/

/-- after a destructive measurement through a handle held at `a`, node `a` is below its maximum … -/
theorem freed_by_measure (s : Net) (a hdl : Nat) (oc : Bool) (hw : WF s) (hheld : hdl ∈ heldAt s a) :
    ∃ n', (step s (.measure hdl false oc)).1.nodes[a]? = some n' ∧
      held (step s (.measure hdl false oc)).1 a < n'.maxQubits := by
  have w := hw.toP
  obtain ⟨n, en, hm⟩ := mem_heldAt.1 hheld
  have hrel := step_rel w (.measure hdl false oc)
  have hcaps := hrel.caps a
  rw [en] at hcaps
  cases en' : (step s (.measure hdl false oc)).1.nodes[a]? with
  | none => rw [en'] at hcaps; cases hcaps
  | some n' =>
    rw [en'] at hcaps
    simp only [Option.map_some, Option.some.injEq, Prod.mk.injEq] at hcaps
    refine ⟨n', rfl, ?_⟩
    -- population: one less than before, and before it was within the limit
    have hpop : held (step s (.measure hdl false oc)).1 a + 1 = held s a := by
      simp only [step]
      obtain ⟨vq, hv, hact, hvn, _⟩ := (w.nodes a n en).virtOK hdl hm
      obtain ⟨na, nd, q, r, ha, hh, hsn, ho, hq, hqa, _, hr', hrn, hreg⟩ := w.handle_sim hv hact
      rw [stepMeasure_destr hv hact hq hqa hsn hreg]
      have c : MeasCtx s hdl vq na nd q r :=
        { w := w, hv := hv, ha := ha, hh := hh, hsn := hsn, ho := ho, hq := hq, hr := hr', hrn := hrn }
      subst hvn
      simp only [held]; rw [heldAt_measNet c, if_pos rfl, List.length_erase_of_mem hheld]
      have := List.length_pos_of_mem hheld
      omega
    have hcap := (w.nodes a n en).cap
    have : held s a = n.virt.length := by simp [held, heldAt_def, en]
    omega

/-- … and so is the sender after a successful send -/
theorem freed_by_send (s : Net) (a hdl b k : Nat) (hw : WF s) (hheld : hdl ∈ heldAt s a)
    (hr : (step s (.send hdl b)).2.1 = .num k) :
    ∃ n', (step s (.send hdl b)).1.nodes[a]? = some n' ∧ held (step s (.send hdl b)).1 a < n'.maxQubits := by
  have w := hw.toP
  obtain ⟨n, en, hm⟩ := mem_heldAt.1 hheld
  have hrel := step_rel w (.send hdl b)
  have hcaps := hrel.caps a
  rw [en] at hcaps
  cases en' : (step s (.send hdl b)).1.nodes[a]? with
  | none => rw [en'] at hcaps; cases hcaps
  | some n' =>
    rw [en'] at hcaps
    simp only [Option.map_some, Option.some.injEq, Prod.mk.injEq] at hcaps
    refine ⟨n', rfl, ?_⟩
    have hpop : held (step s (.send hdl b)).1 a + 1 = held s a := by
      simp only [step] at hr ⊢
      obtain ⟨vq, hv, hact, hvn, _⟩ := (w.nodes a n en).virtOK hdl hm
      obtain ⟨_, _, o3, o4⟩ := @stepSend_other s hdl b
      rcases Nat.lt_or_ge b s.nodes.length with hb | hb
      · by_cases hne : b = vq.virtNode
        · rw [o4 vq hv hact hb hne] at hr; cases hr
        · have hnb : s.nodes[b]? = some s.nodes[b] := List.getElem?_eq_getElem hb
          rcases stepSend_cases hv hact hnb hne with ⟨hcap, e⟩ | ⟨_, e⟩
          · rw [e]
            have c : SendCtx s hdl b vq n s.nodes[b] :=
              { w := w, hv := hv, hact := hact, ha := hvn ▸ en, hh := hm, hb := hnb, hne := hne, hcap := hcap }
            subst hvn
            simp only [held]; rw [heldAt_sendNet c, if_pos rfl, List.length_erase_of_mem hheld]
            have := List.length_pos_of_mem hheld
            omega
          · rw [e] at hr; cases hr
      · rw [o3 vq hv hact hb] at hr; cases hr
    have hcap := (w.nodes a n en).cap
    have : held s a = n.virt.length := by simp [held, heldAt_def, en]
    omega

/-- T07.4 capacity freed at `a` by a destructive measurement or by a successful send (through a handle
held at `a` — in particular when `a` was full, `held s a = maxQubits`) is immediately reusable: in the
resulting state `a` is below its maximum, hence the next `new a` succeeds given a free register slot,
and every send to `a` of a qubit held at another node succeeds (e.g. sending the same qubit straight
back) -/
theorem freed_reusable (s : Net) (a hdl : Nat) (op : Op) (hw : WF s) (hheld : hdl ∈ heldAt s a)
    (hop : (∃ oc, op = .measure hdl false oc) ∨ (∃ b k, op = .send hdl b ∧ (step s op).2.1 = .num k)) :
    ∃ n', (step s op).1.nodes[a]? = some n' ∧ held (step s op).1 a < n'.maxQubits ∧
      (n'.numRegs < n'.maxRegs → ∃ hid, (step (step s op).1 (.new a)).2.1 = .handle hid) ∧
      (∀ c hdl', hdl' ∈ heldAt (step s op).1 c → a ≠ c →
        ∃ k', (step (step s op).1 (.send hdl' a)).2.1 = .num k') := by
  have hw' : WF (step s op).1 := wf_step' s op hw
  have key : ∃ n', (step s op).1.nodes[a]? = some n' ∧ held (step s op).1 a < n'.maxQubits := by
    rcases hop with ⟨oc, rfl⟩ | ⟨b, k, rfl, hr⟩
    · exact freed_by_measure s a hdl oc hw hheld
    · exact freed_by_send s a hdl b k hw hheld hr
  obtain ⟨n', e, hlt⟩ := key
  refine ⟨n', e, hlt, fun hslot => ?_, fun c hdl' hheld' hne => ?_⟩
  · exact (create_iff _ a n' hw' e).1.2 ⟨hlt, hslot⟩
  · exact (receive_iff _ c a hdl' n' hw' hheld' e hne).1.2 hlt

/-! ### T07.5 register merges never fail for capacity reasons -/

/-- T07.5 on a well-formed state a two-qubit gate never returns `noQubitError`; the only errors it can
return are `ValueError` — only for identical control and target handle — and `quantumError` — only in the
both-remote-two-simulators placement (`BothRemote`) when the node has no free register slot for the new
local register; in that placement the refusal happens exactly when `numRegs ≥ maxRegs`; in both error
cases the state is unchanged -/
theorem merge_never_capacity (s : Net) (hc ht : Nat) (g : G2) (hw : WF s) :
    (step s (.gate2 hc ht g)).2.1 ≠ .err .noQubit ∧
    (∀ e, (step s (.gate2 hc ht g)).2.1 = .err e →
      ((e = .value ∧ hc = ht) ∨ (e = .quantum ∧ ∃ na, BothRemote s hc ht na ∧ na.maxRegs ≤ na.numRegs)) ∧
      (step s (.gate2 hc ht g)).1 = s) ∧
    (∀ na, BothRemote s hc ht na →
      ((step s (.gate2 hc ht g)).2.1 = .err .quantum ↔ na.maxRegs ≤ na.numRegs) ∧
      ((step s (.gate2 hc ht g)).2.1 = .unit ↔ na.numRegs < na.maxRegs)) := by
  simp only [step]
  have huniq : ∀ na na', BothRemote s hc ht na → BothRemote s hc ht na' → na' = na := by
    rintro na na' ⟨vc, vt, f1, f2, _, _, _, _, _, _, f3⟩ ⟨vc', vt', f1', f2', _, _, _, _, _, _, f3'⟩
    rw [f1] at f1'; cases f1'
    rw [f3] at f3'; cases f3'; rfl
  rcases stepGate2_spec hw.toP hc ht g with ⟨hst, hres⟩ | ⟨hres, hne, hpost, hbr⟩
  · rcases hres with h | h | ⟨h, heq⟩ | ⟨h, na, hb, hge⟩
    · refine ⟨(by rw [h]; simp), fun e he => (by rw [h] at he; cases he), fun na hb => ?_⟩
      exfalso
      obtain ⟨vc, vt, f1, f2, f3, f4, f5, f6, f7, f8, f9⟩ := hb
      have w := hw.toP
      rcases gate2_case4 w g f1 f2 f3 f4 f5 f6 f7 f8 with ⟨na', _, hc4⟩
      rcases hc4 with ⟨_, k, _⟩ | ⟨_, k⟩
      · rw [k] at h; cases h
      · rw [k] at h; cases h
    · refine ⟨(by rw [h]; simp), fun e he => (by rw [h] at he; cases he), fun na hb => ?_⟩
      exfalso
      obtain ⟨vc, vt, f1, f2, f3, f4, f5, f6, f7, f8, f9⟩ := hb
      have w := hw.toP
      rcases gate2_case4 w g f1 f2 f3 f4 f5 f6 f7 f8 with ⟨na', _, hc4⟩
      rcases hc4 with ⟨_, k, _⟩ | ⟨_, k⟩
      · rw [k] at h; cases h
      · rw [k] at h; cases h
    · refine ⟨(by rw [h]; simp), fun e he => ?_, fun na hb => ?_⟩
      · rw [h] at he; cases he
        exact ⟨Or.inl ⟨rfl, heq⟩, hst⟩
      · exfalso
        obtain ⟨vc, vt, f1, f2, _, _, _, f6, _⟩ := hb
        subst heq
        rw [f1] at f2; cases f2
        exact f6 rfl
    · refine ⟨(by rw [h]; simp), fun e he => ?_, fun na' hb' => ?_⟩
      · rw [h] at he; cases he
        exact ⟨Or.inr ⟨rfl, na, hb, hge⟩, hst⟩
      · have := huniq na na' hb hb'
        subst this
        rw [h]
        exact ⟨⟨fun _ => hge, fun _ => rfl⟩, ⟨fun hh => (by cases hh), fun hh => (by omega)⟩⟩
  · refine ⟨(by rw [hres]; simp), fun e he => (by rw [hres] at he; cases he), fun na hb => ?_⟩
    have := hbr na hb
    rw [hres]
    exact ⟨⟨fun hh => (by cases hh), fun hh => (by omega)⟩, ⟨fun _ => this, fun _ => rfl⟩⟩

/-- identical control and target (an active handle) is the `ValueError` case, nothing changes -/
theorem gate2_same_handle (s : Net) (h : Nat) (g : G2) (vq : VQ) (hw : WF s) (hv : s.vqs[h]? = some vq)
    (hact : vq.active = true) : (step s (.gate2 h h g)).2.1 = .err .value ∧ (step s (.gate2 h h g)).1 = s := by
  simp only [step]
  rcases gate2_case1 hw.toP g hv hv rfl hact hact rfl with ⟨k1, k2, _⟩ | ⟨_, k, _⟩
  · exact ⟨k2, k1⟩
  · exact absurd rfl k

/-! ### T07.6 the register limit -/

/-- T07.6 in every reachable state every node has at most its configured maximum of registers
(creating more is refused: `create_iff` / `merge_never_capacity` give the refusals, and they are the only
operations that create a register) -/
theorem register_limit_exact (caps : List (Nat × Nat)) (s : Net) (h : Reach caps s) (i : Nat) (n : Node)
    (hn : s.nodes[i]? = some n) : n.numRegs ≤ n.maxRegs ∧ n.regs.length ≤ n.maxRegs ∧
      (caps[i]?).map (·.2) = some n.maxRegs := by
  have key : ∀ s, Reach caps s → ∀ (i : Nat) (n : Node), s.nodes[i]? = some n → n.numRegs ≤ n.maxRegs := by
    intro s h
    induction h with
    | init =>
      intro i n e
      simp only [init, List.getElem?_map, Option.map_eq_some_iff] at e
      obtain ⟨c, _, rfl⟩ := e
      simp [mkNode]
    | @step s op hr ih =>
      intro i n' e'
      have rel := step_rel (wf_reachable' caps s hr).toP op
      have hc := rel.caps i
      rw [e'] at hc
      cases e : s.nodes[i]? with
      | none => rw [e] at hc; cases hc
      | some n =>
        rw [e] at hc
        simp only [Option.map_some, Option.some.injEq, Prod.mk.injEq] at hc
        have := ih i n e
        rcases rel.regs i n n' e e' with h1 | ⟨h1, h2⟩ <;> omega
  have hw := wf_reachable' caps s h
  have h1 := key s h i n hn
  refine ⟨h1, by rw [← (hw.nodes i n hn).numRegs]; exact h1, ?_⟩
  rw [← caps_constant caps s h, List.getElem?_map, hn]
  rfl

/-! ### refusals consume nothing (added after seeded change C07 r6m1: a register counter bumped before the
   limit test and not restored on refusal) -/

/-- a refused creation is refused again and changes nothing: the state after the refusal is the state
before it, in particular the node's register count and held count (no slot is consumed by a refusal) -/
theorem refused_create_keeps_state (s : Net) (a : Nat) (n : Node) (hw : WF s) (hn : s.nodes[a]? = some n)
    (hfull : n.maxQubits ≤ held s a ∨ n.maxRegs ≤ n.numRegs) : (step s (.new a)).1 = s := by
  obtain ⟨_, h2, h3, h4⟩ := create_iff s a n hw hn
  by_cases hq : n.maxQubits ≤ held s a
  · exact h4 _ (h2.2 hq)
  · rcases hfull with h | h
    · exact absurd h hq
    · exact h4 _ (h3.2 ⟨by omega, h⟩)

/-- any number of refused creations in a row leaves the state as it was -/
theorem refused_creates_keep_state (s : Net) (a : Nat) (n : Node) (hw : WF s) (hn : s.nodes[a]? = some n)
    (hfull : n.maxQubits ≤ held s a ∨ n.maxRegs ≤ n.numRegs) (k : Nat) :
    (List.replicate k (Op.new a)).foldl (fun s op => (step s op).1) s = s := by
  induction k with
  | zero => rfl
  | succ k ih =>
    rw [List.replicate_succ, List.foldl_cons, refused_create_keeps_state s a n hw hn hfull]
    exact ih

/-! ### non-vacuity: concrete histories -/

/-- node 0 may hold 1 qubit: the second create is refused, after a destructive measurement the next
one succeeds -/
example : (run (init [(1, 3), (2, 3)]) [.new 0, .new 0, .measure 0 false true, .new 0]).2 =
    [.handle 0, .err .noQubit, .outcome true, .handle 1] := by decide
/-- arrival into a full node is refused, after the node sent its qubit away the same arrival succeeds;
the arriving qubit stays simulated at node 1 -/
example : (run (init [(1, 3), (2, 3)]) [.new 0, .new 1, .send 1 0, .send 0 1, .send 1 0]).2 =
    [.handle 0, .handle 1, .err .noQubit, .num 1, .num 0] := by decide
/-- register limit 1: the second create is refused with `quantumError` although the node is not full -/
example : (run (init [(3, 1)]) [.new 0, .new 0]).2 = [.handle 0, .err .quantum] := by decide
/-- both-remote placement at node 0 (qubits simulated at nodes 1 and 2): refused with `quantumError`
when node 0 has no register slot, carried out when it has one; local and one-remote merges never fail -/
example : (run (init [(2, 0), (2, 2), (2, 2)]) [.new 1, .new 2, .send 0 0, .send 1 0, .gate2 2 3 .CNOT]).2 =
    [.handle 0, .handle 1, .num 0, .num 1, .err .quantum] := by decide
example : (run (init [(2, 1), (2, 2), (2, 2)]) [.new 1, .new 2, .send 0 0, .send 1 0, .gate2 2 3 .CNOT]).2 =
    [.handle 0, .handle 1, .num 0, .num 1, .unit] := by decide
example : BothRemote (run (init [(2, 0), (2, 2), (2, 2)]) [.new 1, .new 2, .send 0 0, .send 1 0]).1 2 3
    { mkNode 2 0 with virt := [2, 3] } :=
  ⟨⟨0, 0, 1, 0, true⟩, ⟨0, 1, 2, 1, true⟩, by decide, by decide, by decide, by decide, by decide,
    by decide, by decide, by decide, by decide⟩
example : (run (init [(3, 3)]) [.new 0, .gate2 0 0 .CNOT]).2 = [.handle 0, .err .value] := by decide

end SqVerif.C07

import SqVerif.VNetXLemmasStep
/-
L2x — helper lemmas (4): the queues as FIFO lists.  Every step satisfies

    queue before ++ appended(events) = popped(events) ++ queue after

for every (node, dictionary, socket); `LenOK` (one extension record per node) is all that is needed.
-/
namespace SqVerif.VNetX
open SqVerif.VNet List

/-- one extension record per node -/
def LenOK (s : NetX) : Prop := s.ext.length = s.base.nodes.length

theorem WFX.lenOK {s : NetX} (w : WFX s) : LenOK s := w.len

theorem lenOK_init (caps : List (Nat × Nat)) : LenOK (initX caps) := by simp [LenOK, initX, init]

theorem lenOK_enqueue {s : NetX} (h : LenOK s) (b : Nat) (k : Kind) (sock : Nat) (q : QRec) :
    LenOK (enqueue s b k sock q) := by simpa [LenOK, enqueue] using h

theorem lenOK_base {s : NetX} (h : LenOK s) (op : Op) : LenOK { s with base := (step s.base op).1 } := by
  simp only [LenOK, (step_Keep s.base op).len]; exact h

theorem addFreshIn_len (s : Net) (a : Nat) (n : Node) (r len : Nat) :
    (addFreshIn s a n r len).nodes.length = s.nodes.length := by
  simp [addFreshIn, modNode]

theorem lenOK_step {s : NetX} (h : LenOK s) (op : XOp) : LenOK (stepX s op).st := by
  cases op with
  | base op => exact lenOK_base h op
  | newReg a max =>
    simp only [stepX, stepNewReg]
    split
    · exact h
    · split
      · exact h
      · simpa [LenOK] using h
  | delReg a r =>
    simp only [stepX, stepDelReg]
    split
    · exact h
    · split
      · simpa [LenOK] using h
      · split
        · simpa [LenOK] using h
        · exact h
  | newInReg a r =>
    simp only [stepX, stepNewInReg]
    split
    · exact h
    · split
      · exact h
      · split
        · exact h
        · split
          · exact h
          · simp only [LenOK, length_modify, addFreshIn_len, adoptReg, modNode_nodes]; exact h
      · split
        · exact h
        · split
          · exact h
          · simp only [LenOK, addFreshIn_len]; exact h
  | getRef a num => simp only [stepX]; split <;> exact h
  | nqSend a num b app rapp =>
    simp only [stepX, stepNqSend]
    split
    · exact h
    · split
      · exact h
      · rename_i hh _
        have hb := lenOK_base h (.send hh b)
        split
        · rename_i s1 nn e heq
          have : (step s.base (.send hh b)).1 = s1 := by rw [heq]
          rw [this] at hb
          exact lenOK_enqueue hb _ _ _ _
        · rename_i s1 e heq
          have : (step s.base (.send hh b)).1 = s1 := by rw [heq]
          rw [this] at hb
          split
          · exact hb
          · exact lenOK_enqueue hb _ _ _ _
        · rename_i s1 r e _ _ heq
          have : (step s.base (.send hh b)).1 = s1 := by rw [heq]
          rw [this] at hb
          exact hb
  | nqSendEpr a num b app rapp ent =>
    cases num with
    | none =>
      simp only [stepX, stepNqOutcome]
      split
      · exact h
      · split
        · exact h
        · exact lenOK_enqueue h _ _ _ _
    | some num =>
      simp only [stepX, stepNqSend]
      split
      · exact h
      · split
        · exact h
        · rename_i hh _
          have hb := lenOK_base h (.send hh b)
          split
          · rename_i s1 nn e heq
            have : (step s.base (.send hh b)).1 = s1 := by rw [heq]
            rw [this] at hb
            exact lenOK_enqueue hb _ _ _ _
          · rename_i s1 e heq
            have : (step s.base (.send hh b)).1 = s1 := by rw [heq]
            rw [this] at hb
            split
            · exact hb
            · exact lenOK_enqueue hb _ _ _ _
          · rename_i s1 r e _ _ heq
            have : (step s.base (.send hh b)).1 = s1 := by rw [heq]
            rw [this] at hb
            exact hb
  | addRecv b frm fs ts num =>
    simp only [stepX, stepAdd]
    split
    · exact h
    · exact lenOK_enqueue h _ _ _ _
  | addEpr b frm fs ts num ent =>
    simp only [stepX, stepAdd]
    split
    · exact h
    · exact lenOK_enqueue h _ _ _ _
  | getRecv b sock =>
    simp only [stepX, stepGet]
    split
    · exact h
    · split
      · exact h
      · simpa [LenOK] using h
  | getEprRecv b sock =>
    simp only [stepX, stepGet]
    split
    · exact h
    · split
      · exact h
      · simpa [LenOK] using h
  | obs o => exact h

/-! ### reading a queue after an update -/

theorem extOf_modify (s : NetX) (b : Nat) (f : NodeX → NodeX) (b' : Net) (i : Nat) (hb : b < s.ext.length) :
    extOf { base := b', ext := s.ext.modify b f } i = if i = b then f (extOf s i) else extOf s i := by
  simp only [extOf, ext_modify_get]
  by_cases h : b = i
  · subst h
    simp [getElem?_eq_getElem hb]
  · have : ¬ i = b := fun e => h e.symm
    simp [h, this]

theorem queueOf_base (s : NetX) (b' : Net) (i : Nat) (k : Kind) (sock : Nat) :
    queueOf { s with base := b' } i k sock = queueOf s i k sock := rfl

theorem queueOf_enqueue {s : NetX} {b : Nat} (hb : b < s.ext.length) (k : Kind) (sock : Nat) (q : QRec)
    (i : Nat) (k' : Kind) (so : Nat) :
    queueOf (enqueue s b k sock q) i k' so =
      if i = b ∧ k' = k ∧ so = sock then queueOf s i k' so ++ [q] else queueOf s i k' so := by
  unfold queueOf enqueue
  rw [extOf_modify s b _ s.base i hb]
  by_cases hi : i = b
  · subst hi
    simp only [if_true, true_and, q_setQ]
    by_cases hk : k' = k
    · subst hk
      simp only [if_true, true_and, qget_qapp]
      split
      · rename_i hs; rw [hs]
      · rfl
    · simp [hk]
  · simp [hi]

theorem queueOf_dequeue {s : NetX} {b : Nat} (hb : b < s.ext.length) (k : Kind) (sock : Nat) (b' : Net)
    (i : Nat) (k' : Kind) (so : Nat) :
    queueOf { base := b', ext := s.ext.modify b fun x => x.setQ k (qpop (x.q k) sock) } i k' so =
      if i = b ∧ k' = k ∧ so = sock then (queueOf s i k' so).tail else queueOf s i k' so := by
  unfold queueOf
  rw [extOf_modify s b _ b' i hb]
  by_cases hi : i = b
  · subst hi
    simp only [if_true, true_and, q_setQ]
    by_cases hk : k' = k
    · subst hk
      simp only [if_true, true_and, qget_qpop]
      split
      · rename_i hs; rw [hs]
      · rfl
    · simp [hk]
  · simp [hi]

theorem queueOf_free {s : NetX} (b : Nat) (f : NodeX → NodeX) (hf : ∀ x k, (f x).q k = x.q k) (b' : Net)
    (i : Nat) (k : Kind) (so : Nat) :
    queueOf { base := b', ext := s.ext.modify b f } i k so = queueOf s i k so := by
  unfold queueOf extOf
  rw [ext_modify_get]
  split
  · cases s.ext[i]? with
    | none => rfl
    | some x => simp [hf]
  · rfl

/-- the FIFO equation of one step -/
def Fifo (s : NetX) (o : Out) : Prop :=
  ∀ (i : Nat) (k : Kind) (so : Nat),
    queueOf s i k so ++ appended i k so o.qev = popped i k so o.qev ++ queueOf o.st i k so

theorem fifo_same {s : NetX} {o : Out} (hq : ∀ i k so, queueOf o.st i k so = queueOf s i k so) (he : o.qev = []) :
    Fifo s o := by
  intro i k so
  rw [he, hq]; simp [appended, popped]

theorem fifo_enqueue {s t : NetX} {o : Out} {b : Nat} {k : Kind} {sock : Nat} {q : QRec}
    (hq : ∀ i k so, queueOf t i k so = queueOf s i k so) (hb : b < t.ext.length)
    (hst : o.st = enqueue t b k sock q) (he : o.qev = [.app b k sock q]) : Fifo s o := by
  intro i k' so
  rw [he, hst, queueOf_enqueue hb, hq]
  simp only [appended, popped, nil_append]
  by_cases h : i = b ∧ k' = k ∧ so = sock
  · have h' : b = i ∧ k = k' ∧ sock = so := ⟨h.1.symm, h.2.1.symm, h.2.2.symm⟩
    rw [if_pos h, if_pos h']
  · have h' : ¬ (b = i ∧ k = k' ∧ sock = so) := fun e => h ⟨e.1.symm, e.2.1.symm, e.2.2.symm⟩
    rw [if_neg h, if_neg h']; simp

theorem fifo_fail (s : NetX) (r : XRes) : Fifo s (fail s r) :=
  fifo_same (fun _ _ _ => rfl) rfl

theorem fifo_stepNqSend {s : NetX} (h : LenOK s) (k : Kind) (a num b app rapp : Nat) (ent : Option Nat) :
    Fifo s (stepNqSend s k a num b app rapp ent) := by
  unfold stepNqSend
  split
  · exact fifo_fail s _
  · rename_i na hna
    split
    · exact fifo_fail s _
    · rename_i hh _
      have hb := lenOK_base h (.send hh b)
      split
      · rename_i s1 nn e heq
        have e1 : (step s.base (.send hh b)).1 = s1 := by rw [heq]
        have er : (step s.base (.send hh b)).2.1 = .num nn := by rw [heq]
        rw [e1] at hb
        -- a successful send: the target exists
        have hbl : b < s.base.nodes.length := by
          apply Classical.byContradiction
          intro hc
          have hge : s.base.nodes.length ≤ b := Nat.le_of_not_lt hc
          simp only [step] at er
          obtain ⟨o1, o2, o3, _⟩ := @WFP.stepSend_other s.base hh b
          cases hv : s.base.vqs[hh]? with
          | none => rw [o1 hv] at er; cases er
          | some vq =>
            cases ha : vq.active with
            | false => rw [o2 vq hv ha] at er; cases er
            | true => rw [o3 vq hv ha hge] at er; cases er
        refine fifo_enqueue (t := { s with base := s1 }) (fun _ _ _ => rfl) ?_ rfl rfl
        have : ({ s with base := s1 } : NetX).ext.length = s.base.nodes.length := h
        rw [this]; exact hbl
      · rename_i s1 e heq
        have e1 : (step s.base (.send hh b)).1 = s1 := by rw [heq]
        rw [e1] at hb
        split
        · exact fifo_same (fun _ _ _ => rfl) rfl
        · rename_i hlt
          refine fifo_enqueue (t := { s with base := s1 }) (fun _ _ _ => rfl) ?_ rfl rfl
          have : ({ s with base := s1 } : NetX).ext.length = s1.nodes.length := hb
          rw [this]; exact Nat.not_le.1 hlt
      · exact fifo_same (fun _ _ _ => rfl) rfl

theorem fifo_stepAdd {s : NetX} (h : LenOK s) (b : Nat) (k : Kind) (q : QRec) : Fifo s (stepAdd s b k q) := by
  unfold stepAdd
  split
  · exact fifo_fail s _
  · rename_i n hn
    refine fifo_enqueue (t := s) (fun _ _ _ => rfl) ?_ rfl rfl
    rw [h]; exact WFP.lt_length_of_getElem? hn

theorem fifo_stepNqOutcome {s : NetX} (h : LenOK s) (a b app rapp ent : Nat) :
    Fifo s (stepNqOutcome s a b app rapp ent) := by
  unfold stepNqOutcome
  split
  · exact fifo_fail s _
  · split
    · exact fifo_fail s _
    · rename_i hlt
      refine fifo_enqueue (t := s) (fun _ _ _ => rfl) ?_ rfl rfl
      rw [h]; exact Nat.not_le.1 hlt

theorem fifo_stepGet {s : NetX} (h : LenOK s) (b : Nat) (k : Kind) (sock : Nat) : Fifo s (stepGet s b k sock) := by
  unfold stepGet
  split
  · exact fifo_fail s _
  · rename_i n hn
    have hb : b < s.ext.length := by rw [h]; exact WFP.lt_length_of_getElem? hn
    split
    · exact fifo_fail s _
    · rename_i q rest hq
      intro i k' so
      simp only [appended, popped]
      rw [queueOf_dequeue hb]
      by_cases hc : i = b ∧ k' = k ∧ so = sock
      · have hc' : b = i ∧ k = k' ∧ sock = so := ⟨hc.1.symm, hc.2.1.symm, hc.2.2.symm⟩
        rw [if_pos hc, if_pos hc']
        obtain ⟨rfl, rfl, rfl⟩ := hc
        rw [hq]; simp
      · have hc' : ¬ (b = i ∧ k = k' ∧ sock = so) := fun e => hc ⟨e.1.symm, e.2.1.symm, e.2.2.symm⟩
        rw [if_neg hc, if_neg hc']; simp

theorem fifo_step {s : NetX} (h : LenOK s) (op : XOp) : Fifo s (stepX s op) := by
  cases op with
  | base op => exact fifo_same (fun _ _ _ => rfl) rfl
  | newReg a max =>
    simp only [stepX, stepNewReg]
    split
    · exact fifo_fail s _
    · split
      · exact fifo_fail s _
      · exact fifo_same (fun i k so => queueOf_free _ _ (fun x k => by cases k <;> rfl) _ i k so) rfl
  | delReg a r =>
    simp only [stepX, stepDelReg]
    split
    · exact fifo_fail s _
    · split
      · exact fifo_same (fun i k so => queueOf_free _ _ (fun x k => by cases k <;> rfl) _ i k so) rfl
      · split
        · exact fifo_same (fun _ _ _ => rfl) rfl
        · exact fifo_fail s _
  | newInReg a r =>
    simp only [stepX, stepNewInReg]
    split
    · exact fifo_fail s _
    · split
      · exact fifo_fail s _
      · split
        · exact fifo_fail s _
        · split
          · exact fifo_fail s _
          · exact fifo_same (fun i k so => queueOf_free _ _ (fun x k => by cases k <;> rfl) _ i k so) rfl
      · split
        · exact fifo_fail s _
        · split
          · exact fifo_fail s _
          · exact fifo_same (fun _ _ _ => rfl) rfl
  | getRef a num => simp only [stepX]; split <;> exact fifo_fail s _
  | nqSend a num b app rapp => exact fifo_stepNqSend h _ _ _ _ _ _ _
  | nqSendEpr a num b app rapp ent =>
    cases num with
    | none => exact fifo_stepNqOutcome h _ _ _ _ _
    | some num => exact fifo_stepNqSend h _ _ _ _ _ _ _
  | addRecv b frm fs ts num => exact fifo_stepAdd h _ _ _
  | addEpr b frm fs ts num ent => exact fifo_stepAdd h _ _ _
  | getRecv b sock => exact fifo_stepGet h _ _ _
  | getEprRecv b sock => exact fifo_stepGet h _ _ _
  | obs o => exact fifo_fail s _

theorem appended_append (i : Nat) (k : Kind) (so : Nat) (e1 e2 : List QEv) :
    appended i k so (e1 ++ e2) = appended i k so e1 ++ appended i k so e2 := by
  induction e1 with
  | nil => rfl
  | cons e es ih =>
    cases e with
    | app n k' s' r => simp only [cons_append, appended, ih]; split <;> rfl
    | pop n k' s' r => simp only [cons_append, appended, ih]

theorem popped_append (i : Nat) (k : Kind) (so : Nat) (e1 e2 : List QEv) :
    popped i k so (e1 ++ e2) = popped i k so e1 ++ popped i k so e2 := by
  induction e1 with
  | nil => rfl
  | cons e es ih =>
    cases e with
    | pop n k' s' r => simp only [cons_append, popped, ih]; split <;> rfl
    | app n k' s' r => simp only [cons_append, popped, ih]

theorem lenOK_run : ∀ (ops : List XOp) (s : NetX), LenOK s → LenOK (runX s ops).1
  | [], _, h => h
  | op :: ops, s, h => by
    simp only [runX]
    exact lenOK_run ops _ (lenOK_step h op)

theorem fifo_run : ∀ (ops : List XOp) (s : NetX), LenOK s → ∀ (i : Nat) (k : Kind) (so : Nat),
    queueOf s i k so ++ appended i k so (runX s ops).2.2 = popped i k so (runX s ops).2.2 ++ queueOf (runX s ops).1 i k so
  | [], s, _, i, k, so => by simp [runX, appended, popped]
  | op :: ops, s, h, i, k, so => by
    simp only [runX]
    have h1 := fifo_step h op i k so
    have h2 := fifo_run ops _ (lenOK_step h op) i k so
    rw [appended_append, popped_append, ← append_assoc, h1, append_assoc, h2, append_assoc]

end SqVerif.VNetX

"""C20 -- a started network comes up completely and stop tears it down completely.

Level: model-proved retry / connection / process-table logic (Lean: Lifecycle,
Props/C20) + OBSERVED real deployment.  Three parts:

(a1) in-memory bring-up.  The REAL process bodies `start_vnode.main` and
     `start_qnodeos.main` (hence `Backend.start`, `virtualNode.connectNet /
     connect_to_node / handle_connection / handle_connection_error`,
     `connect_to_virtNode / init_register / setup_netqasm_server`) run in this
     process on a `MemoryReactorClock`; `Network` runs on a fake
     `multiprocessing` whose `Process.start()` merely records the launch.  The
     harness is the adversary: it chooses the order and spacing in which the 2n
     process bodies run, decides every open connect attempt (accepted through a
     real Perspective-Broker handshake over `iosim.FakeTransport` iff the target
     is listening, else `clientConnectionFailed(ConnectionRefusedError)`), and
     moves the clock.  After EVERY event the observable state (listening ports,
     every node's `conn` keys, open attempts, deadlines of the armed retry
     timers, `check_connections`, `Network._running`, process flags) is
     compared with the Lean model driver `lifecycle`.  The real `Network.running` property is evaluated in every
     partial state (after start(), after every process body with the adversary's moves that follow it, after every
     QNodeOS decision) and judged: true exactly when EVERY configured QNodeOS endpoint accepts a connection (the
     probe `SimulaQronConnection.try_connection` is scripted from outside to consult the fake reactor's listen
     table).  Long spacings (`starve i k`): the QNodeOS of a node is refused k = 21, 25, 60, ... times, one retry
     period apart, before its virtual node listens.
     NAMED NETWORK: the same bring-up (every start order for n <= 3, random orders, long spacings) for a network
     that is NOT called "default", stored in one configuration file together with a network "default" whose node
     names overlap and whose ports and node set differ; right after each process body the oracle `MemWorld._wiring`
     checks that it listens on ITS network's configured port and connects to ITS network's peers (a QNodeOS: to its
     own virtual node), `Network(name=...).running` must ask for ITS endpoints; one real deployment per run uses
     such a file too (nobody may accept connections on the other network's ports).
(a2) process table.  Real `Network.start/stop` on the fake multiprocessing over
     random start / stop / crash histories vs the model's table.
(b)  REAL deployment, in child processes only (`c20_child.py`): real
     `Network.start()/running/stop()` with OS processes and TCP on free ports
     from a temp config, PB `check_connections` at every virtual node, an SDK
     program and an EPR pair over the real QNodeOS sockets, stop, every process
     gone, every port free, start again; in marked cycles start() is called a
     second time on the running network.  Tied to the model at the level of
     theorem `stop_then_start_comes_up`.
(a3) in-memory, oracle only: an operation that needs a peer (get_connection,
     send_qubit) issued while that peer's virtual node stays down for less /
     exactly / more than one and two retry periods (`_mem_pending_op`).

(a4) in-memory, oracle only (`c20_prog.py`): PROGRAMS DURING PARTIAL BRING-UP.  The virtual nodes are started one
     after the other by the real `start_vnode.main` (simnet's bring-up mode: attempts towards a peer that does not
     listen yet are refused and retried by the node's own retry logic); at every instant after the last start at
     which one or more directed connections are still missing -- all start orders, a grid of spacings and retry
     periods -- short programs (cross-node merges whose register backs a qubit held by a third node, forwarded
     qubits, random programs of the C01/C02 generator) run through the real PB interface while the retries are still
     pending; operations that need a missing connection have to WAIT.  Judged after every operation and after the
     late peers came up by the SAME oracles as C01/C02 (`vnetcase.Exec`: single-register reference incl. possible
     outcomes, well-formedness of the object graph, population), plus: missing connections at program start as the
     statement predicts, all connections up after the last retry period.

Processes are judged over EVERY process object ever created (fake
`multiprocessing.Process` registry in (a); `multiprocessing.active_children()`
in (b)), not only over `Network.processes`: at most one live process per
(node, role) at any time, none after stop().

Oracle (independent of the model): see `_judge_mem_final`, `_judge_deploy`.
"""
import itertools
import json
import os
import shutil
import signal
import subprocess
import sys
import tempfile
import threading
import time

from .. import core

LEAN_TARGETS = ["SqVerif.Props.C20"]
PROPS_FILE = "SqVerif/Props/C20.lean"
DRIVE_TARGETS = ["SqVerif.Drive.Lifecycle"]
TRUSTED = [
    "model Lifecycle.lean hand-written from network.py:124-201, virtual.py:203-278, start_vnode.py:48-60, "
    "start_qnodeos.py:24-103; tied by differential execution after every event (this check)",
    "in-memory part: twisted MemoryReactorClock + PB over iosim.FakeTransport stand for reactor/TCP; the fake "
    "multiprocessing.Process mirrors CPython's (start() asserts `_popen is None`: 'cannot start a process twice'; "
    "pid None before start) -- that mirror is validated by the real deployment, which shows the same AssertionError",
    "real deployment (OS processes, TCP, port release, process termination) is OBSERVED in child processes, "
    "not proved: no theorem reaches it",
    "netqasm 2.3.0 SDK + SimulaQronConnection as host side of the deployed programs",
    "programs during partial bring-up: simnet.SimNet bring-up mode (connect attempts decided at the virtual time they "
    "are made; virtual time passes only while an operation waits or on an explicit tick) and the executor / reference "
    "/ well-formedness oracles of harness/vnetcase.py (the ones C01 and C02 use); oracle only, no model",
]
ASSUMPTIONS = [
    "a connect attempt on localhost is either accepted (target listening) or refused; time-outs and connections "
    "lost during bring-up (on which the code calls reactor.stop()) are outside the model",
    "the QNodeOS port is free when setup_netqasm_server binds it (the CannotListenError retry loop is not modelled)",
    "node names are distinct; clock values are multiples of 1/16 s (exact in binary floating point)",
    "deployment oracle: 'eventually' = within 15 s; host programs use explicit close(stop_backend=False) and a fresh "
    "app id each (netqasm's `with conn:` sends Signal.STOP, on which SimulaQron's QNodeOS process ends by design; a "
    "QNodeOS refuses a second application with a used app id) -- both are outside C20",
    "Network(network_config_file=X) does not hand X to the node processes (they read simulaqron_settings."
    "network_config_file); the deployment sets both to the same temp file",
]

UNIT = 16.0          # clock units per second
HERE = os.path.dirname(os.path.abspath(__file__))
CHILD = os.path.join(HERE, "c20_child.py")


# ---------------------------------------------------------------------------
# in-memory world
# ---------------------------------------------------------------------------

class _Boot:
    """fake reactor installed, simulaqron imported from the scratch copy, module attributes patched"""
    inst = None

    def __init__(self):
        core.scratch_repo()
        import twisted.internet
        from twisted.internet.testing import MemoryReactorClock
        cur = sys.modules.get("twisted.internet.reactor")
        R = cur if isinstance(cur, MemoryReactorClock) else MemoryReactorClock()
        sys.modules["twisted.internet.reactor"] = R
        twisted.internet.reactor = R
        self.R = R
        self.stops = [0]
        orig_stop = R.stop

        def counting_stop():
            self.stops[0] += 1
            orig_stop()
        R.stop = counting_stop
        import logging
        from simulaqron.settings import simulaqron_settings
        cfg = simulaqron_settings._config          # no write-through
        cfg["sim_backend"] = "stabilizer"
        cfg["noisy_qubits"] = False
        self.settings = simulaqron_settings
        import simulaqron.virtual_node.virtual as V
        import simulaqron.network as NW
        # simulaqron/start/__init__.py rebinds these names to the main() functions: take the modules
        SV = sys.modules["simulaqron.start.start_vnode"]
        SQ = sys.modules["simulaqron.start.start_qnodeos"]
        for m in (V, SV, SQ):
            if m.reactor is not R:
                raise core.MachineryError("%s holds a real reactor" % m.__name__)
        lg = logging.getLogger("NetQASM")
        self.loglines = []

        class H(logging.Handler):
            def emit(h, record):
                if len(self.loglines) < 2000:
                    self.loglines.append((record.levelname, record.getMessage()[:200]))
        for h in list(lg.handlers):
            lg.removeHandler(h)
        hh = H()
        hh.setLevel(logging.WARNING)
        lg.addHandler(hh)
        lg.propagate = False
        self.V, self.SV, self.SQ, self.NW = V, SV, SQ, NW

        class SigStub:
            SIGTERM, SIGINT = signal.SIGTERM, signal.SIGINT

            @staticmethod
            def signal(*a):
                return None
        SV.signal = SigStub
        SQ.signal = SigStub
        from twisted.internet.error import ConnectionRefusedError as TwRefused
        from twisted.python.failure import Failure
        from twisted.test import iosim
        self.TwRefused, self.Failure, self.iosim = TwRefused, Failure, iosim
        self.cfgdir = tempfile.mkdtemp(prefix="sqv_c20_", dir=os.environ.get("VERIF_TMP") or tempfile.gettempdir())
        import atexit
        atexit.register(shutil.rmtree, self.cfgdir, True)

    @classmethod
    def get(cls):
        if cls.inst is None:
            cls.inst = _Boot()
        return cls.inst


class FakeProcess:
    """stands in for multiprocessing.Process inside simulaqron.network (mirrors CPython's process.py)"""
    mp = None

    def __init__(self, group=None, target=None, name=None, args=(), kwargs=None, daemon=None):
        self._target, self._args, self.name = target, tuple(args), name
        self._popen = None
        self.pid = None
        self.exitcode = None
        self._alive = False
        self.up = False            # harness: the body has been run
        FakeProcess.mp.created.append(self)      # EVERY process object ever made, whether or not Network keeps it

    def start(self):
        assert self._popen is None, "cannot start a process twice"       # multiprocessing/process.py
        self._popen = object()
        FakeProcess.mp.pid += 1
        self.pid = FakeProcess.mp.pid
        self._alive = True
        FakeProcess.mp.launches[self.name] = FakeProcess.mp.launches.get(self.name, 0) + 1

    def is_alive(self):
        return self._alive

    def terminate(self):
        if self._popen is None:     # as in CPython: terminate() on a process that was never started
            raise AttributeError("'NoneType' object has no attribute 'terminate'")
        if self._alive:
            self._alive = False
            self.exitcode = -15

    def die(self):
        if self._alive:
            self._alive = False
            self.exitcode = 1


class FakeMP:
    Process = FakeProcess

    def __init__(self):
        self.pid = 1000
        self.launches = {}
        self.created = []
        FakeProcess.mp = self

    def set_start_method(self, *a, **k):
        return None


class FakeTime:
    """`time` and `timer` inside simulaqron.network: sleeping costs nothing"""

    def __init__(self):
        self.t = 0.0

    def sleep(self, d):
        self.t += d

    def timer(self):
        return self.t


class MemWorld:
    def __init__(self, n, retry_units, netname="default"):
        """netname != "default": the configuration file holds TWO networks -- the one under test (`netname`, nodes
        N0..N(n-1) on the usual ports) and a network "default" whose node names overlap (N0..N(n-2), plus "Zed" which
        only "default" has; N(n-1) only exists in `netname` when n >= 2) on OTHER ports.  Everything a process of
        `netname` does must refer to ITS network's entries."""
        b = self.b = _Boot.get()
        R = b.R
        self.n, self.retry, self.netname = n, retry_units, netname
        self.names = ["N%d" % i for i in range(n)]
        b.settings._config["conn_retry_time"] = retry_units / UNIT
        self.vport = {i: 8002 + 3 * i for i in range(n)}
        self.qport = {i: 8001 + 3 * i for i in range(n)}

        def net_cfg(names, base):
            return {"nodes": {nm: {"app_socket": ["localhost", base + 3 * i],
                                   "qnodeos_socket": ["localhost", base + 1 + 3 * i],
                                   "vnode_socket": ["localhost", base + 2 + 3 * i]}
                              for i, nm in enumerate(names)}, "topology": None}
        cfg = {}
        self.foreign = {}          # port -> "<kind> port of <node> in network <other>"
        self.qport_of = {netname: {nm: self.qport[i] for i, nm in enumerate(self.names)}}
        if netname != "default":
            others = self.names[:max(1, n - 1)] + ["Zed"]
            cfg["default"] = net_cfg(others, 8300)
            for nm, e in cfg["default"]["nodes"].items():
                for kind in ("app", "qnodeos", "vnode"):
                    self.foreign[e[kind + "_socket"][1]] = "%s port of %s in network 'default'" % (kind, nm)
            self.qport_of["default"] = {nm: e["qnodeos_socket"][1] for nm, e in cfg["default"]["nodes"].items()}
        cfg[netname] = net_cfg(self.names, 8000)
        self.fn = os.path.join(b.cfgdir, "net_%d_%s.json" % (n, netname))
        with open(self.fn, "w") as f:
            json.dump(cfg, f)
        b.settings._config["network_config_file"] = self.fn
        self.mp = FakeMP()
        self.ft = FakeTime()
        b.NW.mp = self.mp
        b.NW.time = self.ft
        b.NW.timer = self.ft.timer
        world = self

        class FakeConn:
            @staticmethod
            def try_connection(name, socket_address=None, network_name=None):
                # the endpoint the real probe would look up: node `name` of network `network_name` of the file
                port = world.qport_of[network_name or "default"][name]
                if port not in world.listening():
                    raise ConnectionRefusedError(111, "Connection refused")     # what socket.connect raises
        b.NW.SimulaQronConnection = FakeConn
        self._reset_reactor()
        self.net = b.NW.Network(name=netname, network_config_file=self.fn, new=False)
        self.problems = []         # oracle findings (key, what)
        self.prev_conn = {}
        self.prev_listen = set()

    # -- reactor bookkeeping --------------------------------------------------
    def _reset_reactor(self):
        R = self.b.R
        for c in list(R.getDelayedCalls()):
            c.cancel()
        del R.tcpClients[:]
        del R.tcpServers[:]
        del R.connectors[:]
        R.hasStopped = False
        R.running = False
        self.t0 = R.seconds()
        self.seen = 0
        self.open = {}             # key -> (factory, connector)
        self.links = []
        self.nodes = {}
        self.qup = set()
        self.prev_conn = {}
        self.prev_listen = set()
        self.b.stops[0] = 0

    def listening(self):
        return {e[0]: e[1] for e in self.b.R.tcpServers}

    def _scan(self):
        """identify the connect attempts issued since the last scan"""
        R = self.b.R
        while self.seen < len(R.tcpClients):
            host, port, factory, _t, _b = R.tcpClients[self.seen]
            connector = R.connectors[self.seen]
            self.seen += 1
            key = None
            for i, nd in self.nodes.items():
                for h in nd.config.hostDict.values():
                    if getattr(h, "factory", None) is factory:
                        key = (i, self.names.index(h.name), False)
            if key is None:
                owner = [i for i in range(self.n) if self.vport[i] == port]
                key = (owner[0], owner[0], True) if owner else ("?", port, True)
            if key[0] == "?":
                # nobody of THIS network lives there: the attempt is left alone (never decided)
                self.problems.append(("mem:connects-outside-its-network",
                                      "a process of network '%s' tries to connect to port %d = %s" % (
                                          self.netname, port, self.foreign.get(port, "not a configured port"))))
                continue
            if key in self.open:
                self.problems.append(("mem:duplicate-attempt", "two open attempts with key %r" % (key,)))
            self.open[key] = (factory, connector)

    def _pump(self):
        for _ in range(10000):
            busy = False
            for t, dest in self.links:
                if t.stream:
                    data = b"".join(t.stream)
                    del t.stream[:]
                    dest.dataReceived(data)
                    busy = True
            if not busy:
                return
        raise core.MachineryError("PB pump did not quiesce")

    def _expect_stops(self, k, what):
        if self.b.stops[0] != k:
            self.problems.append(("mem:reactor-stop", "%s: the code called reactor.stop() (%d calls, %d expected)" % (
                what, self.b.stops[0], k)))
        self.b.stops[0] = 0
        self.b.R.hasStopped = False

    # -- operations -----------------------------------------------------------
    def proc(self, k):
        return self.net.processes[k]

    def _body(self, p, role, i):
        """run a process body; an exception ends that process (as it would end the OS process)"""
        try:
            p._target(*p._args)
            return True
        except core.MachineryError:
            raise
        except Exception as e:                                    # noqa: BLE001 -- whatever it is, the process is gone
            self.problems.append(("mem:process-body-raises", "the %s process of node %s in network '%s' ends with %s: %s" % (
                role, self.names[i], self.netname, type(e).__name__, str(e)[:160])))
            p.die()
            self.b.stops[0] = 0
            self.b.R.hasStopped = False
            return False

    def _wiring(self, i, role, before, c0, listen_want, connect_want):
        """oracle, right after a process body ran: it listens on ITS network's configured port (and on nothing
        else), and the connections it tries go to ITS network's configured ports: a virtual node to every other
        virtual node of the network, a QNodeOS to its own virtual node"""
        new = set(self.listening()) - before
        ports = {e[1] for e in self.b.R.tcpClients[c0:]}
        who = "the %s process of node %s in network '%s'" % (role, self.names[i], self.netname)

        def say(ps):
            return sorted("%d (%s)" % (q, self.foreign.get(q, "own network" if q in set(self.vport.values()) | set(
                self.qport.values()) else "not configured")) for q in ps)
        if not self.proc(2 * i + (1 if role == "QNodeOS" else 0)).is_alive():
            return                  # its body raised (reported there)
        if new != listen_want:
            self.problems.append(("mem:listens-on-wrong-port", "%s listens on %s instead of %s" % (
                who, say(new), sorted(listen_want))))
        if ports != connect_want:
            self.problems.append(("mem:connects-to-wrong-ports", "%s tries to connect to %s instead of %s" % (
                who, say(ports), sorted(connect_want))))

    def op(self, line):
        """execute one op on the real code; returns the canonical observation (as the model prints it)"""
        w = line.split()
        R = self.b.R
        if w[0] == "netstart":
            try:
                self.net.start(wait_until_running=False)
            except AssertionError as e:
                return "AssertionError " + str(e)
            return self.obs()
        if w[0] == "netstop":
            self.net.stop()
            self._reset_reactor()
            return self.obs()
        if w[0] == "running":
            try:
                ans = bool(self.net.running)
            except (KeyError, ValueError) as e:      # the probe asked for a node / network the file does not have
                self.problems.append(("mem:running-raises", "Network('%s').running raised %s: %s" % (
                    self.netname, type(e).__name__, e)))
                ans = False
            return self.obs() + " ans=%d" % ans
        if w[0] == "startV":
            i = int(w[1])
            p = self.proc(2 * i)
            if not (p.is_alive() and not p.up):
                return "bad-event"
            p.up = True
            before, c0 = set(self.listening()), len(R.tcpClients)
            if self._body(p, "virtual node", i):      # start_vnode.main(name, network_name, log_level)
                self._expect_stops(1, "start_vnode.main(%s)" % self.names[i])   # MemoryReactor.run() stops itself once
            fac = self.listening().get(self.vport[i])
            if fac is not None and self.vport[i] not in before:
                self.nodes[i] = fac.root
            self._wiring(i, "virtual node", before, c0, {self.vport[i]},
                         {self.vport[j] for j in range(self.n) if j != i})
            self._scan()
            return self.obs()
        if w[0] == "startQ":
            i = int(w[1])
            p = self.proc(2 * i + 1)
            if not (p.is_alive() and not p.up):
                return "bad-event"
            p.up = True
            before, c0 = set(self.listening()), len(R.tcpClients)
            if self._body(p, "QNodeOS", i):           # start_qnodeos.main(...)
                self._expect_stops(1, "start_qnodeos.main(%s)" % self.names[i])
            self.qup.add(i)
            # (it listens for hosts only once it is connected to its virtual node: nothing new listens yet)
            self._wiring(i, "QNodeOS", before, c0, set(), {self.vport[i]})
            self._scan()
            return self.obs()
        if w[0] in ("resolveP", "resolveQ"):
            key = (int(w[1]), int(w[2]), False) if w[0] == "resolveP" else (int(w[1]), int(w[1]), True)
            if key not in self.open:
                return "bad-event"
            factory, connector = self.open.pop(key)
            sfac = self.listening().get(self.vport[key[1]])
            if sfac is None:
                factory.clientConnectionFailed(connector, self.b.Failure(self.b.TwRefused()))
            else:
                io = self.b.iosim
                sp, cp = sfac.buildProtocol(None), factory.buildProtocol(None)
                st, ct = io.FakeTransport(sp, isServer=True), io.FakeTransport(cp, isServer=False)
                self.links += [(ct, sp), (st, cp)]
                sp.makeConnection(st)
                cp.makeConnection(ct)
                self._pump()
            self._expect_stops(0, line)
            self._scan()
            return self.obs()
        if w[0] == "tick":
            R.advance(int(w[1]) / UNIT)
            self._pump()
            self._expect_stops(0, line)
            self._scan()
            return self.obs()
        raise ValueError(line)

    # -- observation ----------------------------------------------------------
    def timers(self):
        """deadlines (clock units since this incarnation began) of every armed delayed call, sorted; which pair a
        retry belongs to is not looked up in the call object (robust to refactoring): it shows when it fires"""
        out = []
        for c in self.b.R.getDelayedCalls():
            due = (c.getTime() - self.t0) * UNIT
            out.append(int(due) if due == int(due) else due)
        return sorted(out)

    def conn_of(self, i):
        nd = self.nodes.get(i)
        return sorted(self.names.index(k) for k in nd.conn) if nd is not None else []

    def obs(self):
        R, n = self.b.R, self.n
        lst = self.listening()
        now = (R.seconds() - self.t0) * UNIT
        cc = "".join("1" if (i in self.nodes and self.nodes[i].remote_check_connections()) else "0" for i in range(n))
        s = "t=%d alive=%s v=%s q=%s ql=%s conn=%s open=%s due=%s run=%d cc=%s" % (
            now,
            "".join("1" if p.is_alive() else "0" for p in self.net.processes),
            "".join("1" if self.vport[i] in lst else "0" for i in range(n)),
            "".join("1" if i in self.qup else "0" for i in range(n)),
            "".join("1" if self.qport[i] in lst else "0" for i in range(n)),
            ";".join("%d:%s" % (i, ",".join(map(str, self.conn_of(i)))) for i in range(n)),
            ",".join("%s>%s%s" % (k[0], k[1], "q" if k[2] else "") for k in self.open_keys()),
            ",".join(str(d) for d in self.timers()),
            bool(self.net._running), cc)
        # oracle O1: nothing is ever lost within one incarnation
        for i in range(n):
            cur = set(self.conn_of(i))
            if not self.prev_conn.get(i, set()) <= cur:
                self.problems.append(("mem:conn-shrinks", "node %d lost %s from conn" % (i, self.prev_conn[i] - cur)))
            self.prev_conn[i] = cur
        cur = set(lst)
        if not self.prev_listen <= cur:
            self.problems.append(("mem:port-closed", "ports %s stopped listening" % (self.prev_listen - cur)))
        self.prev_listen = cur
        return s

    def open_keys(self):
        return sorted(self.open, key=lambda k: (k[0], k[1], k[2]))

    def close(self):
        try:
            self.net.stop()
        except Exception:
            pass
        self._reset_reactor()


def _census(world):
    """oracle over EVERY process object ever created (not only `Network.processes`):
    -> ({name: number of live processes with that name, if > 1}, [names of live processes Network no longer lists])"""
    live = [p for p in world.mp.created if p.is_alive()]
    per = {}
    for p in live:
        per[p.name] = per.get(p.name, 0) + 1
    table = set(map(id, world.net.processes))
    return {nm: k for nm, k in per.items() if k > 1}, [p.name for p in live if id(p) not in table]


def _census_problems(world, prefix, after):
    """the two clauses of the statement that need the whole census: at any time at most one live process per
    (node, role); after stop() none at all"""
    dups, orphans = _census(world)
    bad = []
    if dups:
        bad.append((prefix + ":duplicate-process", "after %s: more than one live process for %s (live processes that "
                    "Network.processes no longer lists: %s)" % (after, sorted(dups.items()), sorted(orphans))))
    if after == "stop" and orphans:
        bad.append((prefix + ":stop-leaves-alive:orphan", "after stop: %s still alive; they were started by this Network "
                    "but dropped from Network.processes, so stop() never terminates them (they keep their ports)" % (
                        sorted(orphans),)))
    return bad


def _key_line(k):
    return "resolveQ %d" % k[0] if k[2] else "resolveP %d %d" % (k[0], k[1])


class MemRun:
    """Executes meta-ops on a MemWorld, records the concrete model lines and the real observations, and judges.

    meta-ops: `netstart` `netstop` `running` `startV i` `startQ i` `resolveP i j` `resolveQ i` `tick d`, and
    `settle` = "each pending attempt fires once more": rounds of (tick retry; decide every open attempt), at most 4,
    until nothing is pending (expanded into concrete tick/resolve lines for the model)."""

    def __init__(self, n, retry, net="default"):
        self.world = MemWorld(n, retry, net)
        self.n, self.retry = n, retry
        self.mops = []
        self.lines = ["world %d %d" % (n, retry)]
        self.outs = [self.world.obs()]
        self.viol = []
        self.rounds = None          # rounds the last settle needed; None = events since
        self.dead = False           # start raised: nothing more can be said
        self.probes = False         # meta-op `probes`: settle also asks Network.running after every QNodeOS decision

    def _running(self):
        """ask the REAL `Network.running` now and judge the answer (independent of the model): it is true exactly
        when every configured QNodeOS endpoint accepts a connection.  (A cached positive answer stays right within
        one incarnation: a listening port never closes before stop(), oracle O1; stop() clears the cache.)"""
        w = self.world
        o = self._do("running")
        lst = w.listening()
        down = [i for i in range(w.n) if w.qport[i] not in lst]
        ans = o.endswith("ans=1")
        if ans and down:
            self.viol.append(("mem:running-true-while-node-down",
                              "Network.running answers True while the QNodeOS of node(s) %s (of %d, in configuration "
                              "order) does not accept host connections; listening: %s" % (
                                  down, w.n, [i for i in range(w.n) if i not in down])))
        elif not ans and not down:
            self.viol.append(("mem:running-false-while-all-up",
                              "Network.running answers False although every QNodeOS accepts host connections"))
        return o

    def _do(self, line):
        self.lines.append(line)
        o = self.world.op(line)
        self.outs.append(o)
        return o

    def do(self, mop):
        if self.dead:
            return
        w = self.world
        self.mops.append(mop)
        if mop == "netstart":
            o = self._do(mop)
            self.rounds = None
            if o.startswith("AssertionError"):
                self.viol.append(("start-after-stop:AssertionError",
                                  "Network.start() after stop() on the same object raises %s" % o))
                self.dead = True
            elif not all(p.is_alive() for p in w.net.processes):
                self.viol.append(("mem:start-leaves-dead", "processes not alive after start: %s" % o))
            if not self.dead:
                self.viol += _census_problems(w, "mem", "start")
        elif mop == "netstop":
            o = self._do(mop)
            self.rounds = None
            if any(p.is_alive() for p in w.net.processes):
                self.viol.append(("mem:stop-leaves-alive", "processes alive after stop: %s" % o))
            self.viol += _census_problems(w, "mem", "stop")
        elif mop == "probes":
            self.probes = True
        elif mop == "settle":
            rounds = 0
            while rounds < 4:
                rounds += 1
                self._do("tick %d" % self.retry)
                for k in w.open_keys():
                    self._do(_key_line(k))
                    if self.probes and k[2]:
                        self._running()
                if not w.open and not w.timers():
                    break
            self.rounds = rounds
        elif mop.startswith("starve "):
            # `starve i k`: the QNodeOS of node i is refused k times in a row, one retry period apart (its virtual
            # node is not listening yet); everybody else's attempts stay as they are
            i, k = int(mop.split()[1]), int(mop.split()[2])
            for _ in range(k):
                if (i, i, True) in w.open:
                    self._do("resolveQ %d" % i)
                self._do("tick %d" % self.retry)
            self.rounds = None
        elif mop == "running":
            o = self._running()
            everything_ran = all(p.is_alive() and p.up for p in w.net.processes)
            if everything_ran and self.rounds is not None:
                # the statement, judged on the real objects (independent of the model)
                self.viol += _judge_mem_final(w, self.rounds)
                if not o.endswith("ans=1"):
                    self.viol.append(("mem:not-running", "Network.running is false after everything came up"))
        else:
            self._do(mop)
            self.rounds = None

    def finish(self):
        self.viol += self.world.problems
        self.world.close()
        return self


def _judge_mem_final(world, rounds):
    """oracle (independent of the model): after all 2n bodies ran and the attempts fired again, the statement"""
    bad = []
    names = set(range(world.n))
    lst = world.listening()
    for i in range(world.n):
        nd = world.nodes.get(i)
        if nd is None:
            bad.append(("mem:vnode-not-up", "virtual node %d did not come up" % i))
            continue
        if set(world.conn_of(i)) != names or not nd.remote_check_connections():
            bad.append(("mem:not-connected", "node %d: conn=%s check_connections=%s after %d rounds" % (
                i, world.conn_of(i), nd.remote_check_connections(), rounds)))
        if world.qport[i] not in lst:
            bad.append(("mem:qnodeos-not-listening", "QNodeOS %d does not listen after %d rounds" % (i, rounds)))
    # (more than one round needed is a timing deviation, left to the tie with the model; not a property failure)
    if world.open or world.timers():
        bad.append(("mem:attempts-left", "attempts left: %s %s" % (world.open_keys(), world.timers())))
    return bad


def _mem_exec(n, retry, mops, eager=False, net="default"):
    """eager: after every process body every open attempt OTHER than a QNodeOS -> own virtual node attempt that would
    be refused is decided at once (those are left to `starve`)"""
    run = MemRun(n, retry, net)
    try:
        for m in mops:
            run.do(m)
            if eager and m.startswith("start") and not run.dead:
                w = run.world
                for k in w.open_keys():
                    if k[2] and w.vport[k[1]] not in w.listening():
                        continue
                    run._do(_key_line(k))
    finally:
        run.finish()
    return run


def _mem_scenario(res, ctx, n, retry, orders, policy, again=None, probe=False, net="default"):
    """one world: per cycle netstart -> the 2n bodies in the given order, the adversary deciding attempts and
    moving the clock per `policy` -> settle -> running -> netstop.  again = (cycle, k): in that cycle start() is called
    once more on the RUNNING network after k of the bodies ran (it must leave everything alone).  probe: the real
    `Network.running` is asked (and judged, and compared with the model) in every partial state: after start(), after
    every body + the adversary's moves that follow it, and after every QNodeOS decision of the final settle"""
    rng = ctx.rng
    run = MemRun(n, retry, net)
    w = run.world
    try:
        if probe:
            run.do("probes")
        for c, order in enumerate(orders):
            run.do("netstart")
            if run.dead:
                break
            if probe:
                run.do("running")
            for j, ev in enumerate(list(order) + [None]):
                if again is not None and again[0] == c and again[1] == j:
                    run.do("netstart")
                    if run.dead:
                        break
                if ev is None:
                    break
                run.do(ev)
                if policy == "eager":
                    for k in w.open_keys():
                        run.do(_key_line(k))
                elif policy == "random":
                    for _ in range(rng.randrange(0, 4)):
                        ks = w.open_keys()
                        if rng.random() < 0.6 and ks:
                            run.do(_key_line(ks[rng.randrange(len(ks))]))
                        else:
                            run.do("tick %d" % rng.choice([1, 2, 3, 5, 8, retry, retry + 1]))
                if probe:
                    run.do("running")
            run.do("settle")
            run.do("running")
            res.count("mem-rounds-%s" % run.rounds)
            run.do("netstop")
    finally:
        run.finish()
    return run


def _mem_pending_op(n, retry, op, off, down, peer):
    """C20: 'programs run against it behave as in C01/C08 ... for every order and spacing in which the node processes
    come up (peers not yet listening when a node tries to connect) ... without waiting for readiness'.

    Node 0's virtual node is up; `off` clock units later an operation that needs node `peer` is issued at node 0
    (`get_connection(peer)` itself, or new_qubit + X + send_qubit(peer) as the PB server would dispatch them); the
    peer's virtual node comes up only `down` units after that (every connect attempt in between is refused, as on a
    closed port), then everybody else, and all attempts are decided as they come.  Oracle: the operation never
    fails, and it has completed within 3 retry periods + 4 units after the last process came up (for send_qubit:
    the peer then holds the qubit and measures 1, the sender holds none).  Not tied to the model (it has no
    operations); the adversary's moves are the same `MemWorld.op` lines as in (a1).  -> [(key, what)]"""
    from twisted.internet import defer
    w = MemWorld(n, retry)
    bad = []
    res = []
    try:
        w.op("netstart")
        w.op("startV 0")

        def decide():
            for k in w.open_keys():
                w.op(_key_line(k))

        def step():
            w.op("tick 1")
            decide()
        decide()
        for _ in range(off):
            step()
        nd = w.nodes[0]
        target = w.names[peer]
        if op == "get_connection":
            d = defer.maybeDeferred(nd.get_connection, target)
        else:
            @defer.inlineCallbacks
            def prog():
                q = yield defer.maybeDeferred(nd.remote_new_qubit)
                yield defer.maybeDeferred(q.remote_apply_X)
                num = yield defer.maybeDeferred(nd.remote_send_qubit, q, target)
                return num
            d = prog()
        d.addBoth(res.append)
        w._pump()
        for _ in range(down):
            step()
        early = bool(res)
        for i in [peer] + [j for j in range(1, n) if j != peer]:
            w.op("startV %d" % i)
            decide()
        for i in range(n):
            w.op("startQ %d" % i)
            decide()
        for _ in range(3 * retry + 4):
            if res and not w.open and not w.timers():
                break
            step()
        what = "%s(%s) issued at %s %d/16 s after its virtual node came up, %s's virtual node came up %d/16 s later " \
               "(retry period %d/16 s)" % (op, target, w.names[0], off, target, down, retry)
        if not res:
            bad.append(("mem:op-before-peer-up:%s:never-completes" % op, what + ": no result %d/16 s after everything is "
                        "up; conn=%s open=%s timers=%s" % (3 * retry + 4, w.conn_of(0), w.open_keys(), w.timers())))
        elif isinstance(res[0], w.b.Failure):
            bad.append(("mem:op-before-peer-up:%s:fails" % op, what + ": failed with %s: %s%s" % (
                res[0].type.__name__, res[0].getErrorMessage()[:120], " (before the peer was up)" if early else "")))
        elif op == "get_connection":
            if getattr(res[0], "name", None) != target or getattr(res[0], "root", None) is None:
                bad.append(("mem:op-before-peer-up:get_connection:wrong-result", what + ": returned %r" % (res[0],)))
        else:
            pn = w.nodes.get(peer)
            held = [len(w.nodes[i].virtQubits) if i in w.nodes else None for i in range(n)]
            want = [1 if i == peer else 0 for i in range(n)]
            if held != want or not isinstance(res[0], int):
                bad.append(("mem:op-before-peer-up:send_qubit:qubit-lost", what + ": returned %r, qubits held per node %s" % (
                    res[0], held)))
            else:
                out = []
                dm = defer.maybeDeferred(pn.virtQubits[0].remote_measure, False)
                dm.addBoth(out.append)
                w._pump()
                for _ in range(4):
                    if out:
                        break
                    step()
                if out != [1]:
                    bad.append(("mem:op-before-peer-up:send_qubit:wrong-state", what + ": the qubit (X|0>) measured %r at %s" % (
                        out, target)))
        bad += [(k, what + ": " + t) for k, t in w.problems]
    finally:
        w.close()
    return bad


def _ddmin(items, fails):
    """greedy chunk removal: a sublist (order kept) on which `fails` still holds and no single item can go"""
    items = list(items)
    chunk = max(1, len(items) // 2)
    while True:
        i, progressed = 0, False
        while i < len(items):
            cand = items[:i] + items[i + chunk:]
            if len(cand) < len(items) and fails(cand):
                items, progressed = cand, True
            else:
                i += chunk
        if chunk == 1:
            if not progressed:
                break
        else:
            chunk //= 2
    return items


def _shrink(replay, key, budget=400):
    """shrink a mem / table replay to a (locally) minimal one that still shows a violation with this key"""
    left = [budget]

    if replay.get("kind") == "mem":
        def fails(mops):
            if left[0] <= 0:
                return False
            left[0] -= 1
            return any(k == key for k, _ in _mem_exec(replay["n"], replay["retry"], mops, replay.get("eager", False),
                                                      replay.get("net", "default")).viol)
        return dict(replay, ops=_ddmin(replay["ops"], fails))
    if replay.get("kind") == "prog":
        from . import c20_prog
        return c20_prog.shrink_replay(replay, key[len("mem:"):] if key.startswith("mem:") else key, _ddmin)
    if replay.get("kind") == "table":
        def fails(ops):
            if left[0] <= 0:
                return False
            left[0] -= 1
            return any(k == key for k, _ in _table_scenario(None, None, replay["n"], ops)[2])
        return dict(replay, ops=_ddmin(replay["ops"], fails))
    return replay


def _table_scenario(res, ctx, n, ops):
    """real Network.start/stop on the fake multiprocessing, crash = a process ends by itself"""
    world = MemWorld(n, 8)
    lines, outs, viol = ["tab %d" % n], [], []
    slots = [p.name for p in world.net.processes]

    def obs():
        return "alive=%s launches=%s" % ("".join("1" if p.is_alive() else "0" for p in world.net.processes),
                                         ",".join(str(world.mp.launches.get(nm, 0)) for nm in slots))
    outs.append(obs())
    unfixed_probe = None
    try:
        for op in ops:
            if op == "start":
                lines.append("tstart")
                try:
                    world.net.start(wait_until_running=False)
                    outs.append(obs())
                    if not all(p.is_alive() for p in world.net.processes):
                        viol.append(("table:start-leaves-dead", obs()))
                    viol += _census_problems(world, "table", "start")
                except AssertionError as e:
                    outs.append("AssertionError " + obs())
                    viol.append(("start-after-stop:AssertionError",
                                 "Network.start() raises AssertionError('%s') when a process ran before" % e))
                    unfixed_probe = lines[:-1] + ["tstart-unfixed"]
                    break
            elif op == "stop":
                lines.append("tstop")
                world.net.stop()
                outs.append(obs())
                if any(p.is_alive() for p in world.net.processes):
                    viol.append(("table:stop-leaves-alive", obs()))
                viol += _census_problems(world, "table", "stop")
            else:
                k = int(op.split()[1])
                lines.append("tdie %d" % k)
                world.net.processes[k].die()
                outs.append(obs())
    finally:
        world.close()
    return lines, outs, viol, unfixed_probe


# ---------------------------------------------------------------------------
# real deployment (child processes)
# ---------------------------------------------------------------------------

_LIVE_GROUPS = set()


def _kill_groups():
    for pg in list(_LIVE_GROUPS):
        try:
            os.killpg(pg, signal.SIGKILL)
        except (ProcessLookupError, PermissionError):
            pass


import atexit  # noqa: E402
atexit.register(_kill_groups)


def _deploy(spec, timeout):
    """run c20_child.py on its own scratch copy in its own session; returns (events, stderr tail, leftovers)"""
    base = os.environ.get("VERIF_TMP") or tempfile.gettempdir()
    d = tempfile.mkdtemp(prefix="sqv_c20d_", dir=base)
    real = os.path.realpath(d)
    if real.startswith("/repo/") or real.startswith("/verif/"):
        raise core.MachineryError("refusing to deploy under %s" % real)
    events, err_tail, leftovers = [], "", []
    proc = None
    try:
        shutil.copytree(os.path.join(core.scratch_repo(), "simulaqron"), os.path.join(d, "simulaqron"),
                        ignore=lambda p, names: [x for x in names if x == "__pycache__" or (
                            os.path.basename(p) == "config" and x in ("settings.json", "network.json"))])
        os.makedirs(os.path.join(d, "home"))
        os.makedirs(os.path.join(d, "cfg"))
        spec = dict(spec, tmp=os.path.join(d, "cfg"))
        env = dict(os.environ, PYTHONPATH=d, HOME=os.path.join(d, "home"), PYTHONDONTWRITEBYTECODE="1",
                   PYTHONWARNINGS="ignore")
        errf = open(os.path.join(d, "stderr.txt"), "wb")
        proc = subprocess.Popen([sys.executable, CHILD, json.dumps(spec)], stdout=subprocess.PIPE, stderr=errf,
                                env=env, cwd=d, start_new_session=True)
        _LIVE_GROUPS.add(proc.pid)
        try:
            out, _ = proc.communicate(timeout=timeout)
        except subprocess.TimeoutExpired:
            events.append({"ev": "harness-timeout", "after": timeout})
            out = b""
        for ln in (out or b"").decode("utf8", "replace").split("\n"):
            ln = ln.strip()
            if ln.startswith("{"):
                try:
                    events.append(json.loads(ln))
                except ValueError:
                    pass
        errf.close()
        with open(os.path.join(d, "stderr.txt"), "rb") as f:
            err_tail = f.read().decode("utf8", "replace")[-1500:]
    finally:
        if proc is not None:
            try:
                os.killpg(proc.pid, signal.SIGKILL)      # the child, every node process, the resource tracker
            except (ProcessLookupError, PermissionError):
                pass
            try:
                proc.wait(timeout=10)
            except Exception:
                pass
            _LIVE_GROUPS.discard(proc.pid)
        # nothing may be left listening on the configured ports
        cfgev = [e for e in events if e.get("ev") == "config"]
        if cfgev:
            import socket
            time.sleep(0.05)
            for kind in ("qnodeos", "vnode", "foreign"):
                for nm, port in (cfgev[0].get(kind) or {}).items():
                    s = socket.socket(socket.AF_INET, socket.SOCK_STREAM)
                    s.settimeout(1)
                    try:
                        s.connect(("localhost", port))
                        leftovers.append("%s %s port %d still accepts after the child was killed" % (kind, nm, port))
                    except OSError:
                        pass
                    finally:
                        s.close()
        shutil.rmtree(d, True)
        if os.path.exists(d):
            leftovers.append("temp dir %s not removed" % d)
    return events, err_tail, leftovers


def _judge_deploy(spec, events, leftovers):
    """oracle on the raw observations of one deployment; returns (violations, notes, per-cycle summary)"""
    viol, notes, summary = [], [], []
    names = spec["names"]
    n = len(names)
    by = {}
    for e in events:
        by.setdefault((e.get("ev"), e.get("cycle")), e)
    if ("done", None) not in by:
        viol.append(("deploy:child-did-not-finish", "deployment child did not reach the end: last events %s" % (
            [e.get("ev") for e in events[-4:]])))
    for lo in leftovers:
        viol.append(("deploy:leftover", lo))
    early = set(spec.get("stop_early") or [])
    for c in range(spec["cycles"]):
        st = by.get(("started", c))
        if st is None:
            if not viol:
                viol.append(("deploy:cycle-missing", "no observation for cycle %d" % c))
            break
        cyc = {"cycle": c, "alive_after_start": None, "running": None, "cc": None, "alive_after_stop": None}
        if st["exc"]:
            key = "start-after-stop:AssertionError" if (c > 0 and "AssertionError" in st["exc"]) else \
                "deploy:start-raises"
            viol.append((key, "cycle %d: Network.start() raised %s" % (c, st["exc"])))
            summary.append(cyc)
            break
        cyc["alive_after_start"] = st["alive"]
        if not all(st["alive"]) or len(st["alive"]) != 2 * n:
            viol.append(("deploy:process-not-alive", "cycle %d: alive flags after start %s" % (c, st["alive"])))

        def dups(children):
            names_ = [nm for nm, _pid in children or []]
            return sorted({nm for nm in names_ if names_.count(nm) > 1})
        if dups(st.get("children")):
            viol.append(("deploy:duplicate-process", "cycle %d: after start() the live child processes are %s" % (
                c, st["children"])))
        rs = by.get(("restarted", c))
        if c in (spec.get("double_start") or []):
            if rs is None:
                viol.append(("deploy:cycle-missing", "cycle %d: no observation after the second start()" % c))
            else:
                if rs["exc"]:
                    viol.append(("deploy:start-on-running-raises", "cycle %d: start() on the running network raised %s" % (
                        c, rs["exc"])))
                if dups(rs.get("children")):
                    viol.append(("deploy:duplicate-process", "cycle %d: start() on the RUNNING network launched a second "
                                 "set of processes: live children %s (Network.processes had pids %s, now %s)" % (
                                     c, rs["children"], rs["pids_before"], rs["pids"])))
                elif rs["pids"] != rs["pids_before"] or not all(rs["alive"]):
                    viol.append(("deploy:start-on-running-replaces", "cycle %d: start() on the running network changed "
                                 "Network.processes: pids %s -> %s alive=%s" % (c, rs["pids_before"], rs["pids"], rs["alive"])))
        if c not in early:
            ru = by.get(("running", c))
            if spec["wait"] and st["running"] is not True:
                notes.append("cycle %d: start(wait_until_running=True) returned with running=%r (its 10 s budget)" % (
                    c, st["running"]))
            if ru is None or ru["running"] is not True:
                viol.append(("deploy:never-running", "cycle %d: network.running not true within 15 s" % c))
            cyc["running"] = bool(ru and ru["running"] is True)
            co = by.get(("connected", c))
            ok = co is not None and all(v == ["ok", True] for v in co["final"].values()) and len(co["final"]) == n
            cyc["cc"] = ok
            if not ok:
                viol.append(("deploy:not-connected", "cycle %d: check_connections over PB: %s" % (
                    c, co and co["final"])))
            elif any(v != ["ok", True] for v in co["first"].values()):
                notes.append("cycle %d: running was true %.2f s before every check_connections was" % (c, co["after"]))
            ac = by.get(("accepting", c))
            if ac is None or not all(ac["qnodeos"].values()) or not all(ac["alive"]) or \
                    not all(ac.get("vnode", {"-": True}).values()):
                viol.append(("deploy:not-accepting", "cycle %d: %s" % (c, ac)))
            if ac is not None and ac.get("foreign"):
                viol.append(("deploy:listens-in-other-network", "cycle %d: processes of network '%s' accept connections on "
                             "ports the file gives to network 'default': %s" % (c, spec.get("network", "default"),
                                                                                ac["foreign"])))
            for e in events:
                if e.get("ev") == "program" and e.get("cycle") == c:
                    want = ["ok", [1, 0]] if e["kind"] == "sdk" else ["ok", 1]
                    for nm, r in e["results"].items():
                        if r != want:
                            viol.append(("deploy:program", "cycle %d: %s program at %s gave %s, expected %s" % (
                                c, e["kind"], nm, r, want)))
                if e.get("ev") == "epr" and e.get("cycle") == c:
                    rs = list(e["results"].values())
                    if not (all(r[0] == "ok" for r in rs) and rs[0][1] == rs[1][1] and rs[0][1] in (0, 1)):
                        viol.append(("deploy:epr", "cycle %d: EPR pair %s measured %s" % (c, e["pair"], e["results"])))
        sp = by.get(("stopped", c))
        if sp is None:
            viol.append(("deploy:stop-missing", "cycle %d: no observation after stop" % c))
            break
        cyc["alive_after_stop"] = sp["alive"]
        if sp["exc"]:
            viol.append(("deploy:stop-raises", "cycle %d: stop() raised %s" % (c, sp["exc"])))
        if any(sp["alive"]) or not all(sp["pid_gone"]):
            viol.append(("deploy:stop-leaves-process", "cycle %d: alive=%s pid_gone=%s" % (
                c, sp["alive"], sp["pid_gone"])))
        elif sp.get("children") or sp.get("ever_alive"):
            viol.append(("deploy:stop-leaves-process:orphan", "cycle %d: after stop() every process in Network.processes is "
                         "gone, but child processes started by this Network are still alive: %s" % (
                             c, sp.get("children") or sp.get("ever_alive"))))
        for nm, ps in sp["ports"].items():
            for kind, (accepts, bind_reuse, _bind_strict) in ps.items():
                if accepts or not bind_reuse:
                    viol.append(("deploy:port-not-free", "cycle %d: %s port of %s after stop: accepts=%s bindable=%s" % (
                        c, kind, nm, accepts, bind_reuse)))
        summary.append(cyc)
    return viol, notes, summary


def _deploy_model_lines(spec, summary):
    """the same history for the model (theorem stop_then_start_comes_up) and what the deployment showed"""
    n = len(spec["names"])
    lines, want = ["world %d 8" % n], [None]
    early = set(spec.get("stop_early") or [])
    for cyc in summary:
        if cyc["alive_after_start"] is None:
            break
        lines.append("netstart")
        want.append(("alive", "".join("1" if a else "0" for a in cyc["alive_after_start"])))
        if cyc["cycle"] not in early:
            for i in range(n):
                lines += ["startV %d" % i, "startQ %d" % i]
                want += [None, None]
            lines.append("flush")
            want.append(None)
            lines.append("running")
            want.append(("up", "%d|%s" % (bool(cyc["running"]), ("1" if cyc["cc"] else "0") * n)))
        if cyc["alive_after_stop"] is None:
            break
        lines.append("netstop")
        want.append(("alive", "".join("1" if a else "0" for a in cyc["alive_after_stop"])))
    return lines, want


def _field(obs, name):
    for part in obs.split():
        if part.startswith(name + "="):
            return part[len(name) + 1:]
    return None


# ---------------------------------------------------------------------------
# run
# ---------------------------------------------------------------------------

def run(ctx):
    res = core.Result()
    rng = ctx.rng
    res.rule = ("(a1) in-memory bring-up: every order of the 2n process starts for n<=3 (thorough: n<=4 sampled 3000 + "
                "n=5 sampled) x policies eager/lazy/random resolve+tick interleaving x retry time in {1,4,8,16}/16 s, "
                "2 start/stop cycles each (a third of them with start() called once more on the running network), state "
                "compared with the model after every event, the real Network.running asked and judged in every partial "
                "state (after every process body and every QNodeOS decision); long spacings: a QNodeOS refused 21..3x(10 s / "
                "retry time) times before its virtual node listens; named network: all start orders n<=3 (+ a third of the random "
                "and long-spacing worlds, one real deployment) on a network not called 'default' in a file that also holds a "
                "'default' network with overlapping node names on other ports; (a2) process table: random start/stop/crash histories n=1..5 "
                "incl. start on a running network; (a3) get_connection / send_qubit issued while the peer stays down for "
                "0..3 retry periods; (a4) programs during partial bring-up: 3 nodes (thorough: also 4), every start order x "
                "every reachable non-empty set of still-missing directed connections x spacings/retry periods {1,4,8,16}/16 s, "
                "directed (third-party merge, forward, pull-back) and random programs through the real PB interface, judged "
                "after every operation by the C01/C02 oracles; (b) real deployment in child processes incl. start(wait); start; stop and start; "
                "start; stop. Processes judged over every process object ever created. non-trivial = n>=2; "
                "distinct by (n, retry, policy, op list) resp. deployment spec")
    violations = {}      # key -> (what, replay) smallest first

    def add_viol(key, what, replay):
        size = len(json.dumps(replay, default=str))
        if key not in violations or size < violations[key][2]:
            violations[key] = (what, replay, size)

    batches = []         # (lines, impl observations, case) for the model
    extra = []           # (lines, expected last line, case) unfixed-model probes

    if ctx.replay and ctx.replay.get("input", {}).get("kind") == "deploy":
        mem_on, deploy_specs = False, [ctx.replay["input"]["spec"]]
    elif ctx.replay:
        mem_on, deploy_specs = True, []
    else:
        mem_on, deploy_specs = True, None

    # ---- (b) real deployment: start the children first, they run while the in-memory part works ------
    if deploy_specs is None:
        if ctx.thorough:
            deploy_specs = []
            for n in range(1, 6):
                for wait in (True, False):
                    names = ["Alice", "Bob", "Charlie", "David", "Eve"][:n]
                    deploy_specs.append({"names": names, "wait": wait, "cycles": 3, "program": "sdk" if wait else "pb",
                                         "epr": n >= 2 and wait, "stop_early": [] if wait else [1],
                                         "double_start": [0, 2] if wait else [1],
                                         "network": "lab" if (n + wait) % 2 == 0 else "default"})
        else:
            deploy_specs = [
                # cycle 0: start(wait); start; programs; stop
                {"names": ["Alice", "Bob"], "wait": True, "cycles": 2, "program": "both", "epr": True, "stop_early": [],
                 "double_start": [0]},
                # cycle 1: start; start; stop at once
                # (a network NOT called "default"; the file also holds a "default" network: N0, N1, Zed on other ports)
                {"names": ["N0", "N1", "N2"], "wait": False, "cycles": 3, "program": "pb", "epr": False,
                 "stop_early": [1], "double_start": [1], "network": "lab"},
            ]
    deploy_results = [None] * len(deploy_specs)

    def worker(idxs):
        for i in idxs:
            try:
                deploy_results[i] = _deploy(deploy_specs[i], timeout=60 + 45 * deploy_specs[i]["cycles"])
            except Exception as e:  # reported by the main thread
                deploy_results[i] = e
    par = 2
    threads = [threading.Thread(target=worker, args=(list(range(k, len(deploy_specs), par)),), daemon=True)
               for k in range(par)]
    core.scratch_repo()
    for t in threads:
        t.start()

    # ---- (a) in-memory ------------------------------------------------------
    t_mem = time.time()
    try:
        if mem_on:
            _run_mem(ctx, res, rng, add_viol, batches, extra)
    finally:
        t_mem = time.time() - t_mem
        t_join = time.time()
        for t in threads:
            t.join()
        t_join = time.time() - t_join

    for spec, r in zip(deploy_specs, deploy_results):
        if isinstance(r, Exception):
            raise core.MachineryError("deployment harness failed: %r" % (r,))
        events, err_tail, leftovers = r
        viol, notes, summary = _judge_deploy(spec, events, leftovers)
        case = {"kind": "deploy", "spec": spec}
        res.case(case, nontrivial=len(spec["names"]) >= 2)
        res.count("deploy-n%d-%s" % (len(spec["names"]), "wait" if spec["wait"] else "nowait"))
        res.count("deploy-cycles", len(summary))
        for nt in notes:
            res.notes.append("deploy %s: %s" % ("/".join(spec["names"]), nt))
        for key, what in viol:
            add_viol(key, "real deployment (%d nodes, wait=%s): %s" % (len(spec["names"]), spec["wait"], what),
                     {"kind": "deploy", "spec": spec, "events": [e for e in events if e.get("ev") in (
                         "started", "restarted", "stopped", "running", "connected")][:8], "stderr_tail": err_tail[-400:]})
        lines, want = _deploy_model_lines(spec, summary)
        batches.append((lines, want, case, "deploy"))

    # ---- model --------------------------------------------------------------
    if ctx.lean_ok and (batches or extra):
        all_lines, idx = [], []
        for b in batches:
            idx.append((len(all_lines), len(b[0])))
            all_lines += b[0]
        for e in extra:
            idx.append((len(all_lines), len(e[0])))
            all_lines += e[0]
        t_lean = time.time()
        out = core.lean_run("lifecycle", all_lines)
        res.notes.append("timing: in-memory %.1f s, waiting for deployments %.1f s more, model driver %.1f s on %d lines" % (
            t_mem, t_join, time.time() - t_lean, len(all_lines)))
        for (start, ln), b in zip(idx, batches):
            got = out[start:start + ln]
            lines, want, case, kind = b
            res.traces += 1
            if kind == "deploy":
                for g, w_, l in zip(got, want, lines):
                    if w_ is None:
                        continue
                    if w_[0] == "alive":
                        mine = _field(g, "alive")
                    else:
                        mine = "%s|%s" % (g.rsplit("ans=", 1)[-1], _field(g, "cc"))
                    if mine != w_[1]:
                        res.tie_break("Lifecycle model vs real deployment", {"spec": case["spec"], "at": l}, mine, w_[1])
                        break
            else:
                for k, (g, w_) in enumerate(zip(got, want)):
                    if g != w_:
                        res.tie_break("Lifecycle model vs real code (in-memory)",
                                      {"case": case, "ops": lines[:k + 1]}, g, w_)
                        break
        for (start, ln), e in zip(idx[len(batches):], extra):
            got = out[start + ln - 1]
            res.traces += 1
            if got != e[1]:
                res.tie_break("unfixed-start model vs real code", {"ops": e[0]}, got, e[1])
            else:
                res.count("unfixed-model-agrees")

    for key, (what, replay, _sz) in sorted(violations.items(), key=lambda kv: kv[1][2]):
        if not ctx.replay:
            replay = _shrink(replay, key)
            if replay.get("kind") == "prog" and replay.get("what"):      # say it on the minimal program
                what = "program during partial bring-up (%d nodes): %s: %s" % (
                    replay["prog"]["nodes"], replay["text"], replay["what"])
        res.violation(key, what, replay)
    return res


def _run_mem(ctx, res, rng, add_viol, batches, extra):
    def starts(n):
        return ["startV %d" % i for i in range(n)] + ["startQ %d" % i for i in range(n)]

    def mem(n, retry, orders, policy, tag, again=None, probe=False, net="default"):
        run = _mem_scenario(res, ctx, n, retry, orders, policy, again, probe, net)
        if again is not None:
            res.count("mem-start-on-running-network")
        if probe:
            res.count("mem-running-asked-in-every-partial-state")
            res.count("mem-running-probes", sum(1 for l in run.lines if l == "running"))
        case = {"n": n, "retry": retry, "policy": policy, "ops": run.mops}
        if net != "default":
            case["net"] = net
            res.count("mem-network-not-called-default")
        res.case(case, nontrivial=n >= 2)
        res.count("mem-n%d-%s" % (n, policy))
        res.count("mem-events", len(run.lines))
        for key, what in run.viol:
            add_viol(key, "in-memory, %d nodes%s: %s" % (n, "" if net == "default" else ", network '%s' (the file also holds a "
                                                          "network 'default' with overlapping node names)" % net, what),
                     {"kind": "mem", "n": n, "retry": retry, "policy": policy, "tag": tag, "net": net, "ops": run.mops})
        batches.append((run.lines, run.outs, {"n": n, "retry": retry, "policy": policy, "tag": tag, "net": net}, "mem"))

    if ctx.replay:
        inp = ctx.replay["input"]
        if inp.get("kind") == "mem":
            run = _mem_exec(inp["n"], inp["retry"], inp["ops"], inp.get("eager", False), inp.get("net", "default"))
            res.case({"replay": inp["ops"]})
            for key, what in run.viol:
                add_viol(key, "in-memory, %d nodes: %s" % (inp["n"], what), inp)
            batches.append((run.lines, run.outs, {"replay": True}, "mem"))
        elif inp.get("kind") == "table":
            lines, outs, viol, probe = _table_scenario(res, ctx, inp["n"], inp["ops"])
            res.case({"replay": inp["ops"]})
            for key, what in viol:
                add_viol(key, what, inp)
            batches.append((lines, outs, {"replay": True}, "mem"))
        elif inp.get("kind") == "memop":
            res.case({"replay": inp})
            for key, what in _mem_pending_op(inp["n"], inp["retry"], inp["op"], inp["off"], inp["down"], inp["peer"]):
                add_viol(key, what, inp)
        elif inp.get("kind") == "prog":
            from . import c20_prog
            c20_prog.replay(res, inp, add_viol)
        return

    # smallest scenario first: it is the minimal replay of a start/stop/start defect
    lines, outs, viol, probe = _table_scenario(res, ctx, 1, ["start", "stop", "start", "stop"])
    res.case({"table": 1, "ops": ["start", "stop", "start", "stop"]}, nontrivial=False)
    for key, what in viol:
        add_viol(key, "process table, 1 node: " + what, {"kind": "table", "n": 1, "ops": ["start", "stop", "start"]})
    batches.append((lines, outs, {"table": 1}, "mem"))
    if probe:
        extra.append((probe, outs[-1], {"table": 1}))
    # start() on a network that is already running, then stop(): judged over every process object ever created
    for n, ops in ((1, ["start", "start", "stop"]), (1, ["start", "start", "stop", "start", "start", "stop"]),
                   (3, ["start", "start", "stop", "start", "stop"]), (2, ["start", "die 1", "start", "start", "stop"])):
        lines, outs, viol, probe = _table_scenario(res, ctx, n, ops)
        res.case({"table": n, "ops": ops}, nontrivial=n >= 2)
        res.count("table-start-on-running-network")
        for key, what in viol:
            add_viol(key, "process table, %d node(s): %s" % (n, what), {"kind": "table", "n": n, "ops": ops})
        batches.append((lines, outs, {"table": n, "ops": ops}, "mem"))

    # (a1) exhaustive orders for n <= 3
    retries = [8, 1, 4, 16]
    count = 0
    for n in (1, 2, 3):
        for order in itertools.permutations(starts(n)):
            for policy in ("eager", "lazy"):
                retry = retries[count % 4]
                count += 1
                # every third world: start() once more on the running network, at a position that moves through the cycle
                again = (count % 2, (count // 3) % (2 * n + 1)) if count % 3 == 0 else None
                # second cycle: the reversed order, so every world also exercises stop -> start
                mem(n, retry, [list(order), list(reversed(order))], policy, "exhaustive", again, probe=True)
    res.exhaustive = True
    res.notes.append("exhaustive: all %d start orders for n=1,2,3 x {eager,lazy}" % (2 + 24 + 720))
    # (a1'') the same bring-up for a network that is NOT called "default", stored in one file with a network
    # "default" whose node names overlap and whose ports and node set differ: every start order for n <= 3 (policy
    # and retry time alternate, one start/stop cycle + a second one in every fourth world).  Judged as above (the
    # model does not know names: same lines), plus, right after each process body: it listens on ITS network's port
    # and connects to ITS network's peers (`MemWorld._wiring`); Network(name=...).running asks for ITS endpoints.
    t_named = time.time()
    for n in (1, 2, 3):
        for order in itertools.permutations(starts(n)):
            count += 1
            policy = ("eager", "lazy")[count % 2]
            orders = [list(order)] + ([list(reversed(order))] if count % 4 == 0 else [])
            again = (0, (count // 5) % (2 * n + 1)) if count % 5 == 0 else None
            mem(n, retries[count % 4], orders, policy, "named-network", again, probe=count % 3 == 0,
                net=("lab", "net2", "Default")[count % 3])
    res.notes.append("named network: all %d start orders for n=1,2,3 on a network not called 'default' (two networks with "
                     "overlapping node names in the file), %.1f s" % (2 + 24 + 720, time.time() - t_named))
    # random orders / spacings
    for n, k in ((2, ctx.scale(30, 300)), (3, ctx.scale(40, 600)), (4, ctx.scale(40, 3000)), (5, ctx.scale(30, 1500))):
        for _ in range(k):
            orders = []
            for _c in range(2):
                o = starts(n)
                rng.shuffle(o)
                orders.append(o)
            again = (rng.randrange(2), rng.randrange(2 * n + 1)) if rng.random() < 0.3 else None
            mem(n, rng.choice(retries), orders, rng.choice(["random", "random", "eager", "lazy"]), "random", again,
                probe=rng.random() < 0.5, net=rng.choice(["default", "default", "lab"]))

    # (a1') long spacings: the QNodeOS process of a node is up long before its virtual node listens -- 21, 25, 60 (and
    # one more than / five more than / three times `_TIMEOUT / conn_retry_time`) refused attempts, one retry period
    # apart (virtual time costs nothing); the other processes come up before, in between or after.  The statement
    # has no bound on the spacing (theorem qnodeos_listens_eventually): once every process has started and the
    # pending attempts have fired once more, every QNodeOS listens, and the code never called reactor.stop().
    for n in (1, 2, 3):
        for retry in retries:
            period = 160 // retry              # _TIMEOUT (10 s) in retry periods: 20 at the default 0.5 s
            ks = sorted({21, 25, 60, period + 1, period + 5, 3 * period}) if (retry == 8 or ctx.thorough) else \
                [period + 1, period + 1 + rng.randrange(1, 3 * period)]
            for k in ks:
                if k > 200 and n > 1 and not ctx.thorough:
                    continue
                i = rng.randrange(n)
                others = [e for e in starts(n) if e not in ("startQ %d" % i, "startV %d" % i)]
                rng.shuffle(others)
                cut1 = rng.randint(0, len(others))
                cut2 = rng.randint(cut1, len(others))
                split = rng.randint(0, k) if cut2 > cut1 else 0
                mops = ["netstart"] + others[:cut1] + ["startQ %d" % i]
                if split:
                    mops.append("starve %d %d" % (i, split))
                mops += others[cut1:cut2]
                mops.append("starve %d %d" % (i, k - split))
                mops += ["startV %d" % i] + others[cut2:] + ["settle", "running", "netstop"]
                net = "lab" if (k + n + retry) % 3 == 0 else "default"
                run = _mem_exec(n, retry, mops, eager=True, net=net)
                case = {"n": n, "retry": retry, "policy": "starve", "ops": run.mops, "net": net}
                res.case(case, nontrivial=True)
                res.count("mem-qnodeos-%s-retry-periods-before-its-vnode" % (
                    "over-3x-timeout" if k >= 3 * period else "over-timeout"))
                res.count("mem-events", len(run.lines))
                for key, what in run.viol:
                    add_viol(key, "in-memory, %d nodes, QNodeOS of node %d refused %d times (retry %d/16 s) before its "
                             "virtual node came up: %s" % (n, i, k, retry, what),
                             {"kind": "mem", "n": n, "retry": retry, "policy": "starve", "tag": "long-spacing", "eager": True,
                              "net": net, "ops": run.mops})
                batches.append((run.lines, run.outs, {"n": n, "retry": retry, "policy": "starve", "ops": run.mops}, "mem"))

    # (a3) an operation that needs a peer is issued while that peer's virtual node stays down for `down` clock units
    # (less than, exactly, and MORE than one / two retry periods): it must complete once the peer is up
    todo = []
    for n in (2, 3):
        for retry in retries:
            for op in ("get_connection", "send_qubit"):
                for down in sorted({0, 1, retry, retry + 1, 2 * retry, 2 * retry + 1, 3 * retry + 2}):
                    todo.append((n, retry, op, (down * 7 + n) % max(1, retry), down, 1 + (down + retry) % (n - 1)))
    for _ in range(ctx.scale(20, 400)):
        n, retry = rng.choice([2, 3, 4]), rng.choice(retries)
        todo.append((n, retry, rng.choice(["get_connection", "send_qubit"]), rng.randrange(retry), rng.randrange(4 * retry + 2),
                     rng.randrange(1, n)))
    for (n, retry, op, off, down, peer) in todo:
        inp = {"kind": "memop", "n": n, "retry": retry, "op": op, "off": off, "down": down, "peer": peer}
        res.case(inp, nontrivial=True)
        res.count("memop-%s-down-%s-retry-periods" % (op, "more-than-1" if down > retry else "at-most-1"))
        for key, what in _mem_pending_op(n, retry, op, off, down, peer):
            add_viol(key, "in-memory, %d nodes, retry %d/16 s: %s" % (n, retry, what), inp)

    # (a2) process-table histories
    for _ in range(ctx.scale(150, 2000)):
        n = rng.randint(1, 5)
        ops = []
        for _k in range(rng.randint(2, 10)):
            r = rng.random()
            ops.append("start" if r < 0.45 else "stop" if r < 0.75 else "die %d" % rng.randrange(2 * n))
        lines, outs, viol, probe = _table_scenario(res, ctx, n, ops)
        res.case({"table": n, "ops": ops}, nontrivial=n >= 2)
        res.count("table-n%d" % n)
        for key, what in viol:
            add_viol(key, "process table, %d nodes: %s" % (n, what), {"kind": "table", "n": n, "ops": ops})
        batches.append((lines, outs, {"table": n, "ops": ops}, "mem"))
        if probe and len(extra) < 50:
            extra.append((probe, outs[-1], {"table": n}))

    # (a4) programs during partial bring-up (last: it instruments the scratch copy for the C01/C02 oracles)
    from . import c20_prog
    c20_prog.run_stage(ctx, res, rng, add_viol)


def search(ctx, res, broken):
    res.notes.append("targeted search = the oracles over all generated orders/spacings/histories and the deployments; "
                     "no failing input beyond those reported")

import SqVerif.VNetRefineCases
import SqVerif.Props.C05
import SqVerif.VNetRefineCheck
/-
C01 — Location transparency, L2 part: the distributed bookkeeping of the virtual-node
layer behaves like ONE register of logical qubits (tokens).

`tokOf s h` is the logical qubit a handle denotes (handle → simulated-qubit object →
register at the simulating node → position → ghost token stored there).  Under the C02
invariant `WF s`:

* `handles_keep_tokens`: through EVERY operation (all seven register-merge placements,
  re-pointing of third parties' handles, renumbering after a removal) every handle that
  stays held keeps denoting the same logical qubit; `held_defined`, `tokOf_injective`.
* `gate1_lands`, `gate2_lands`, `measure_lands`: the engine call a gate / measurement
  emits addresses exactly the register position(s) holding the token(s) the handle(s)
  denote — control and target not swapped — after merges that only move tokens.
* `merges_preserve_tokens`, `toks_new`, `toks_measure`, `toks_perm`: the multiset of
  tokens changes only by a successful `new` (+ the fresh token) and a successful
  destructive `measure` (− the measured token); `localMerge_appends`, `mergeFrom_appends`.
* `send_moves_holder`: a send changes who holds the qubit and nothing else, wherever the
  qubit is simulated.
* `view_*` (`placement_unobservable`, explicit form): the per-node lists of held tokens
  evolve by formulas that mention only the view, the op and the tokens its handles denote.
* `regLimit_observes_placement`: the ONE exception — the per-node register budget makes
  the register partition observable through `quantumError`.

What is NOT here: composition with the engine semantics (T01.4, L0/L1).
-/
namespace SqVerif.C01
open SqVerif.VNet

/-! ### 5. handles keep their tokens -/

/-- a held handle denotes a token -/
theorem held_defined {s : Net} (hwf : WF s) {h : Nat} (hh : h ∈ allHeld s) : ∃ t, tokOf s h = some t :=
  held_defined' hwf hh

/-- different held handles denote different tokens -/
theorem tokOf_injective {s : Net} (hwf : WF s) {h h' t : Nat} (hh : h ∈ allHeld s) (hh' : h' ∈ allHeld s)
    (ht : tokOf s h = some t) (ht' : tokOf s h' = some t) : h = h' :=
  tokOf_inj hwf hh hh' ht ht'

/-- T01.1a through every operation, every handle that stays held keeps denoting the same
logical qubit.  (The handle that is sent or destructively measured leaves `allHeld`; that
is the only exception — see `send_moves_holder`, `measure_lands`.) -/
theorem handles_keep_tokens (s : Net) (op : Op) (hwf : WF s) :
    ∀ h, h ∈ allHeld s → h ∈ allHeld (step s op).1 → tokOf (step s op).1 h = tokOf s h := by
  intro h hh hh'
  obtain ⟨vq, sq, nd, rg, ih⟩ := hwf.info_of_held hh
  have d := ih.den
  rcases step_cases hwf op with hin | hout
  · rw [hin.1]
  · generalize hstep : step s op = out at hout hh' ⊢
    cases hout with
    | new a na hna hq hr =>
      rw [d.tokOf]; exact (new_den_old hna (hwf.nodes _ _ hna).regNumsFresh d).tokOf
    | gate1 => rfl
    | gate2 hc ht g hne hhc hht out =>
      obtain ⟨_, _, _, _, _, _, _, _, _, _, _, _, _, _, _, _, _, frame⟩ := out
      obtain ⟨_, _, _, _, d'⟩ := frame.keep h hh _ _ _ _ _ d
      rw [d.tokOf, d'.tokOf]
    | send h0 b vq0 nb hv ha hb hne hcap =>
      rw [d.tokOf]; exact (send_den_old d).tokOf
    | measInplace => rfl
    | measDestr h0 oc vq0 sq0 nd0 rg0 i0 =>
      have hne : h ≠ h0 := ((meas_allHeld_mem hwf i0 h).1 hh').2
      have hh0 := hwf.held_of_active i0.hv i0.act
      rw [d.tokOf]
      exact (meas_den_other hwf i0 ih hh0 hh hne).tokOf

/-! ### 6. single-qubit gates -/

/-- T01.1b a single-qubit gate is applied at exactly the register position holding the token
the handle denotes, and nothing else changes -/
theorem gate1_lands {s s' : Net} (hwf : WF s) {h : Nat} {g : G1} {n r p : Nat}
    (hstep : step s (.gate1 h g) = (s', .unit, [.gate1 g n r p])) :
    s' = s ∧ ∃ nd rg, s.nodes[n]? = some nd ∧ nd.reg? r = some rg ∧ rg.toks[p]? = tokOf s h ∧
      (tokOf s h).isSome = true := by
  rcases step_cases hwf (.gate1 h g) with hin | hout
  · have := hin.2; rw [hstep] at this; cases this
  · generalize hst : step s (.gate1 h g) = out at hout hstep
    cases hout with
    | gate1 _ _ vq sq nd rg i hg =>
      have h1 : s = s' := congrArg Prod.fst hstep
      have h2 := congrArg (fun x => x.2.2) hstep
      simp only [List.cons.injEq, EOp.gate1.injEq, and_true, true_and] at h2
      obtain ⟨hn, hr, hp⟩ := h2
      subst h1 hn hr hp
      refine ⟨rfl, nd, rg, i.hn, i.hr, ?_, ?_⟩
      · rw [tokOf_of i.hv i.hs i.hn i.hr]
      · rw [i.den.tokOf]; rfl

/-- … and it is emitted whenever the gate is supported and the handle active -/
theorem gate1_emitted {s : Net} (hwf : WF s) {h : Nat} {g : G1} {vq : VQ} (hv : s.vqs[h]? = some vq)
    (ha : vq.active = true) (hg : g.supported = true) :
    ∃ n r p, step s (.gate1 h g) = (s, .unit, [.gate1 g n r p]) := by
  obtain ⟨vq', sq, nd, rg, i⟩ := hwf.info_of_held (hwf.held_of_active hv ha)
  have e := i.hv; rw [hv] at e; cases e
  exact ⟨vq.simNode, sq.reg, sq.pos, by simp [step, stepGate1, hv, ha, i.hs, i.sact, hg]⟩

/-! ### 7./8. two-qubit gates and merges -/

/-- `isMove` excludes every call that acts on qubit content -/
theorem isMove_spec {e : EOp} (h : e.isMove = true) :
    (∀ g n r p, e ≠ .gate1 g n r p) ∧ (∀ g n r c t, e ≠ .gate2 g n r c t) ∧
    (∀ n r p o, e ≠ .measInplace n r p o) ∧ (∀ n r p, e ≠ .remove n r p) ∧ (∀ n r, e ≠ .addFresh n r) := by
  cases e <;> simp_all [EOp.isMove]

/-- a successful two-qubit gate unfolds to its specification -/
theorem gate2_out {s : Net} (hwf : WF s) {hc ht : Nat} {g : G2}
    (hres : (step s (.gate2 hc ht g)).2.1 = .unit) : G2Out s hc ht g (step s (.gate2 hc ht g)) := by
  rcases stepGate2_classify hwf hc ht g with h | h | h | h | h
  · rw [show step s (.gate2 hc ht g) = stepGate2 s hc ht g from rfl, h.1] at hres; cases hres
  · rw [show step s (.gate2 hc ht g) = stepGate2 s hc ht g from rfl, h.1] at hres; cases hres
  · rw [show step s (.gate2 hc ht g) = stepGate2 s hc ht g from rfl, h.1] at hres; cases hres
  · rw [show step s (.gate2 hc ht g) = stepGate2 s hc ht g from rfl, h.1] at hres; cases hres
  · exact h.1

/-- T01.1c in all placement cases the two-qubit gate acts on the positions holding the
control's and the target's token, control and target not swapped, after calls that only
move registers -/
theorem gate2_lands {s : Net} (hwf : WF s) {hc ht : Nat} {g : G2}
    (hres : (step s (.gate2 hc ht g)).2.1 = .unit) :
    ∃ pre n r c t nd rg,
      (step s (.gate2 hc ht g)).2.2 = pre ++ [.gate2 g n r c t] ∧
      (∀ e ∈ pre, e.isMove = true) ∧
      (step s (.gate2 hc ht g)).1.nodes[n]? = some nd ∧ nd.reg? r = some rg ∧
      rg.toks[c]? = tokOf s hc ∧ rg.toks[t]? = tokOf s ht ∧
      (tokOf s hc).isSome = true ∧ (tokOf s ht).isSome = true ∧ c ≠ t := by
  obtain ⟨pre, oc, ot, n, r, c, t, tc, tt, _, hops, hpre, dc, dt, htc, htt, hct, _⟩ := gate2_out hwf hres
  obtain ⟨nd, rg, hn, hr, hc'⟩ := dc.reg
  obtain ⟨nd', rg', hn', hr', ht'⟩ := dt.reg
  rw [hn] at hn'; cases hn'
  rw [hr] at hr'; cases hr'
  refine ⟨pre, n, r, c, t, nd, rg, hops, ?_, hn, hr, by rw [hc', htc], by rw [ht', htt], by rw [htc]; rfl,
    by rw [htt]; rfl, hct⟩
  intro e he
  exact List.all_eq_true.1 hpre e he

/-- the merges only move tokens: the multiset of tokens is unchanged by a two-qubit gate,
successful or not -/
theorem merges_preserve_tokens {s : Net} (hwf : WF s) (hc ht : Nat) (g : G2) :
    (allToks (step s (.gate2 hc ht g)).1).Perm (allToks s) := by
  rcases step_cases hwf (.gate2 hc ht g) with hin | hout
  · rw [hin.1]
  · generalize hst : step s (.gate2 hc ht g) = out at hout
    cases hout with
    | gate2 _ _ _ hne hhc hht out =>
      obtain ⟨_, _, _, _, _, _, _, _, _, _, _, _, _, _, _, _, _, frame⟩ := out
      exact List.perm_iff_count.2 frame.count

/-- within a register that absorbs another (same node), the absorbed tokens are appended in
their original order -/
theorem localMerge_appends {s : Net} {n o1 o2 : Nat} {q1 q2 : SQ} {nd : Node} {r1 r2 : Reg}
    (hq1 : s.sqs[o1]? = some q1) (hq2 : s.sqs[o2]? = some q2) (hnd : s.nodes[n]? = some nd)
    (hne : q1.reg ≠ q2.reg) (hr1 : nd.reg? q1.reg = some r1) (hr2 : nd.reg? q2.reg = some r2) :
    ∃ nd' rg', (localMerge s n o1 o2).1.nodes[n]? = some nd' ∧ nd'.reg? q1.reg = some rg' ∧
      rg'.toks = r1.toks ++ r2.toks ∧ nd'.reg? q2.reg = none := by
  rw [localMerge_eq hq1 hq2 hnd hne hr1 hr2]
  refine ⟨lmNode q1 q2 r2 nd, { r1 with max := r1.max + r2.toks.length, toks := r1.toks ++ r2.toks }, ?_, ?_, rfl, ?_⟩
  · show (s.nodes.modify n _)[n]? = _
    rw [getElem?_modify']; simp [hnd]
  · rw [lmNode_reg?, if_neg hne, if_pos rfl, hr1]; rfl
  · rw [lmNode_reg?, if_pos rfl]

/-- the same for a register pulled from another node -/
theorem mergeFrom_appends {s : Net} {dst src o lr : Nat} {q : SQ} {sn dn : Node} {oldR locR : Reg}
    (hq : s.sqs[o]? = some q) (hsn : s.nodes[src]? = some sn) (hdn : s.nodes[dst]? = some dn)
    (hold : sn.reg? q.reg = some oldR) (hloc : dn.reg? lr = some locR) (hne : src ≠ dst) :
    ∃ nd' rg' sn', (mergeFrom s dst src o lr).1.nodes[dst]? = some nd' ∧ nd'.reg? lr = some rg' ∧
      rg'.toks = locR.toks ++ oldR.toks ∧
      (mergeFrom s dst src o lr).1.nodes[src]? = some sn' ∧ sn'.reg? q.reg = none := by
  obtain ⟨_, _, f3, _⟩ := mergeFrom_frame hq hsn hdn hold hloc hne
  refine ⟨dstAbsorb lr oldR s.sqs.length dn,
    { locR with max := locR.max + oldR.toks.length, toks := locR.toks ++ oldR.toks }, srcDrop s q.reg sn, ?_, ?_, rfl, ?_, ?_⟩
  · rw [f3, if_pos rfl]
  · unfold dstAbsorb
    refine (reg?_modReg dn lr lr (fun r => { r with max := r.max + oldR.toks.length, toks := r.toks ++ oldR.toks })
      (fun _ => rfl)).trans ?_
    simp [hloc]
  · rw [f3, if_neg hne, if_pos rfl]
  · unfold srcDrop; rw [reg?_delReg, if_pos rfl]

theorem stepNew_handle_ops {s : Net} {a k : Nat} (h : (stepNew s a).2.1 = .handle k) :
    (stepNew s a).2.2 ≠ [] := by
  cases hn : s.nodes[a]? with
  | none => simp [stepNew, hn] at h
  | some n =>
    by_cases hq : n.virt.length ≥ n.maxQubits
    · simp [stepNew, hn, hq] at h
    · cases hadd : addRegister s a with
      | error e => simp [stepNew, hn, hq, hadd] at h
      | ok p => simp [stepNew, hn, hq, hadd]

theorem stepMeasure_outcome_ops {s : Net} {h : Nat} {ip oc x : Bool}
    (hr : (stepMeasure s h ip oc).2.1 = .outcome x) : (stepMeasure s h ip oc).2.2 ≠ [] := by
  cases hv : s.vqs[h]? with
  | none => simp [stepMeasure, hv] at hr
  | some vq =>
    cases ha : vq.active with
    | false => simp [stepMeasure, hv, ha] at hr
    | true =>
      cases hs : s.sqs[vq.simObj]? with
      | none => simp [stepMeasure, hv, ha, hs] at hr
      | some sq =>
        cases hsa : sq.active with
        | false => simp [stepMeasure, hv, ha, hs, hsa] at hr
        | true => cases ip <;> simp [stepMeasure, hv, ha, hs, hsa]

/-- a successful `new` adds exactly the fresh token -/
theorem toks_new {s : Net} (hwf : WF s) {a k : Nat} (hres : (step s (.new a)).2.1 = .handle k) :
    (allToks (step s (.new a)).1).Perm (s.nextTok :: allToks s) ∧ s.nextTok ∉ allToks s ∧
    tokOf (step s (.new a)).1 k = some s.nextTok ∧ k ∉ allHeld s ∧ k ∈ heldAt (step s (.new a)).1 a := by
  rcases step_cases hwf (.new a) with hin | hout
  · exact absurd hin.2 (stepNew_handle_ops hres)
  · generalize hst : step s (.new a) = out at hout hres
    cases hout with
    | new _ na hna hq hr =>
      have nwf := hwf.nodes _ _ hna
      simp only [Res.handle.injEq] at hres
      subst hres
      have hfreshTok : s.nextTok ∉ allToks s := fun hm => by
        have := hwf.toksFresh _ hm; omega
      refine ⟨?_, hfreshTok, (new_den_new hna nwf.regNumsFresh).tokOf, ?_, ?_⟩
      · apply List.perm_iff_count.2
        intro x
        rw [new_count hna nwf.regNumsFresh nwf.regNumsNodup, List.count_cons]
        by_cases e : x = s.nextTok
        · subst e; simp
        · have e' : ¬ s.nextTok = x := fun h => e h.symm
          simp [e, e']
      · intro hm
        obtain ⟨_, _, _, _, i⟩ := hwf.info_of_held hm
        have := (List.getElem?_eq_some_iff.1 i.hv).1; omega
      · unfold heldAt
        have := new_virt_get (s := s) (a := a) (na := na) hna a
        rw [if_pos rfl] at this
        rw [this]; simp

/-- a successful destructive `measure` removes exactly the measured token -/
theorem toks_measure {s : Net} (hwf : WF s) {h : Nat} {oc x : Bool}
    (hres : (step s (.measure h false oc)).2.1 = .outcome x) :
    ∃ t, tokOf s h = some t ∧ (allToks s).Perm (t :: allToks (step s (.measure h false oc)).1) ∧
      t ∉ allToks (step s (.measure h false oc)).1 ∧
      ∀ t', t' ∈ allToks s → t' ≠ t → t' ∈ allToks (step s (.measure h false oc)).1 := by
  rcases step_cases hwf (.measure h false oc) with hin | hout
  · exact absurd hin.2 (stepMeasure_outcome_ops hres)
  · generalize hst : step s (.measure h false oc) = out at hout hres
    cases hout with
    | measDestr _ _ vq sq nd rg i =>
      have hcount := meas_count i (hwf.nodes _ _ i.hn).regNumsNodup
      have hperm : (allToks s).Perm (rg.toks[sq.pos]'i.pos :: allToks (measNet s h vq sq nd rg)) := by
        apply List.perm_iff_count.2
        intro y
        rw [List.count_cons, ← hcount y]
        by_cases e : rg.toks[sq.pos]'i.pos = y <;> simp [e]
      have hnd : (rg.toks[sq.pos]'i.pos :: allToks (measNet s h vq sq nd rg)).Nodup :=
        hperm.nodup_iff.1 hwf.toksNodup
      refine ⟨_, i.den.tokOf, hperm, (List.nodup_cons.1 hnd).1, ?_⟩
      intro t' ht' hne
      rcases List.mem_cons.1 (hperm.mem_iff.1 ht') with e | hm
      · exact absurd e hne
      · exact hm

/-- every other operation (and every refused one) leaves the multiset of tokens unchanged -/
theorem toks_perm {s : Net} (hwf : WF s) (op : Op)
    (hnew : ∀ a k, ¬ (op = .new a ∧ (step s op).2.1 = .handle k))
    (hmeas : ∀ h oc x, ¬ (op = .measure h false oc ∧ (step s op).2.1 = .outcome x)) :
    (allToks (step s op).1).Perm (allToks s) := by
  rcases step_cases hwf op with hin | hout
  · rw [hin.1]
  · generalize hst : step s op = out at hout hnew hmeas
    cases hout with
    | new a na hna hq hr => exact absurd ⟨rfl, rfl⟩ (hnew a _)
    | gate1 => exact List.Perm.refl _
    | gate2 hc ht g hne hhc hht out =>
      obtain ⟨_, _, _, _, _, _, _, _, _, _, _, _, _, _, _, _, _, frame⟩ := out
      exact List.perm_iff_count.2 frame.count
    | send h b vq nb => rw [send_allToks]
    | measInplace => exact List.Perm.refl _
    | measDestr h oc vq sq nd rg i => exact absurd ⟨rfl, rfl⟩ (hmeas h oc oc)

/-! ### 9. measurements -/

/-- T01.1d the `measInplace` (and `remove`) emitted by `measure h` addresses the position
holding the token `h` denotes; the reported outcome is the engine's -/
theorem measure_lands {s : Net} (hwf : WF s) {h : Nat} {ip oc x : Bool}
    (hres : (step s (.measure h ip oc)).2.1 = .outcome x) :
    ∃ n r p nd rg t, tokOf s h = some t ∧ s.nodes[n]? = some nd ∧ nd.reg? r = some rg ∧
      rg.toks[p]? = some t ∧ x = oc ∧
      (ip = true → step s (.measure h ip oc) = (s, .outcome oc, [.measInplace n r p oc])) ∧
      (ip = false → ∃ tail, (step s (.measure h ip oc)).2.2 = [.measInplace n r p oc, .remove n r p] ++ tail ∧
          (tail = [] ∨ tail = [.delReg n r])) := by
  rcases step_cases hwf (.measure h ip oc) with hin | hout
  · exact absurd hin.2 (stepMeasure_outcome_ops hres)
  · generalize hst : step s (.measure h ip oc) = out at hout hres
    cases hout with
    | measInplace _ _ vq sq nd rg i =>
      cases hres
      exact ⟨_, _, _, nd, rg, _, i.den.tokOf, i.hn, i.hr, List.getElem?_eq_getElem i.pos, rfl, fun _ => rfl,
        fun h => (by cases h)⟩
    | measDestr _ _ vq sq nd rg i =>
      cases hres
      refine ⟨_, _, _, nd, rg, _, i.den.tokOf, i.hn, i.hr, List.getElem?_eq_getElem i.pos, rfl, fun h => (by cases h),
        fun _ => ⟨_, rfl, ?_⟩⟩
      by_cases e : (rg.toks.eraseIdx sq.pos).isEmpty <;> simp [e]

/-! ### 10. sends -/

/-- success of a send does not depend on where the qubit is simulated -/
theorem send_succeeds_iff (s : Net) (h b : Nat) :
    (∃ k, (step s (.send h b)).2.1 = .num k) ↔
      ∃ vq nb, s.vqs[h]? = some vq ∧ vq.active = true ∧ b ≠ vq.virtNode ∧ s.nodes[b]? = some nb ∧
        nb.virt.length < nb.maxQubits := by
  simp only [step]
  rcases C05.stepSend_result s h b with ⟨hv, hr⟩ | ⟨vq, hv, hr | hr | hr | hr⟩
  · rw [hr]; simp [hv]
  · rw [hr.2]; simp [hv, hr.1]
  · rw [hr.2.2]; simp only [hv]
    refine ⟨fun ⟨_, h'⟩ => (by cases h'), ?_⟩
    rintro ⟨_, nb, h1, _, _, hnb, _⟩
    have := (List.getElem?_eq_some_iff.1 hnb).1; have := hr.2.1; omega
  · rw [hr.2.2.2]; simp only [hv]
    refine ⟨fun ⟨_, h'⟩ => (by cases h'), ?_⟩
    rintro ⟨vq', _, h1, _, hne, _⟩
    cases h1; exact absurd hr.2.2.1 hne
  · obtain ⟨ha, hne, nb, hnb, hr | hr⟩ := hr
    · rw [hr.2]; simp only [hv]
      refine ⟨fun ⟨_, h'⟩ => (by cases h'), ?_⟩
      rintro ⟨vq', nb', h1, _, _, h2, h3⟩
      rw [hnb] at h2; cases h2; have := hr.1; omega
    · obtain ⟨hlt, x, hx⟩ := hr
      exact ⟨fun _ => ⟨vq, nb, hv, ha, hne, hnb, hlt⟩, fun _ => ⟨x, hx⟩⟩

/-- T01.1e a send changes who holds the qubit and nothing else: the receiver gets a new
held handle denoting the same token, the old handle is no longer held, no token moves
between registers, no engine call is made, every other held handle stays held with its
token — identically whether the qubit is simulated at the sender, at the receiver or at a
third node (the statement does not mention the simulating node) -/
theorem send_moves_holder {s : Net} (hwf : WF s) {h b k : Nat}
    (hres : (step s (.send h b)).2.1 = .num k) :
    ∃ h', h' ∈ heldAt (step s (.send h b)).1 b ∧ h' ∉ allHeld s ∧
      tokOf (step s (.send h b)).1 h' = tokOf s h ∧ (tokOf s h).isSome = true ∧
      h ∈ allHeld s ∧ h ∉ allHeld (step s (.send h b)).1 ∧
      (step s (.send h b)).1.nodes.map (·.regs) = s.nodes.map (·.regs) ∧
      (step s (.send h b)).1.sqs = s.sqs ∧ (step s (.send h b)).2.2 = [] ∧
      (∀ x, x ∈ allHeld s → x ≠ h → x ∈ allHeld (step s (.send h b)).1 ∧ tokOf (step s (.send h b)).1 x = tokOf s x) ∧
      (∀ x, x ∈ allHeld (step s (.send h b)).1 → x = h' ∨ (x ∈ allHeld s ∧ x ≠ h)) := by
  rcases step_cases hwf (.send h b) with hin | hout
  · exfalso
    rcases C05.stepSend_result s h b with ⟨_, hr⟩ | ⟨vq, hv, hr | hr | hr | hr⟩
    · simp only [step] at hres; rw [hr] at hres; cases hres
    · simp only [step] at hres; rw [hr.2] at hres; cases hres
    · simp only [step] at hres; rw [hr.2.2] at hres; cases hres
    · simp only [step] at hres; rw [hr.2.2.2] at hres; cases hres
    · obtain ⟨ha, hne, nb, hnb, hr | hr⟩ := hr
      · simp only [step] at hres; rw [hr.2] at hres; cases hres
      · have h1 := hin.1
        simp only [step] at h1
        rw [stepSend_ok hv ha hnb hne hr.1] at h1
        have := congrArg (fun s => s.vqs.length) h1
        simp [sendNet] at this
  · generalize hst : step s (.send h b) = out at hout hres
    cases hout with
    | send _ _ vq nb hv ha hb hne hcap =>
      have hh := hwf.held_of_active hv ha
      obtain ⟨o, n, r, p, t, d⟩ := hwf.den_of_held hh
      have hblt : b < s.nodes.length := (List.getElem?_eq_some_iff.1 hb).1
      have hmem := send_allHeld_mem (nb := nb) hwf hv ha hne
      refine ⟨s.vqs.length, ?_, ?_, ?_, ?_, hh, ?_, send_regs, rfl, rfl, ?_, ?_⟩
      · unfold heldAt
        have := send_virt_get (s := s) (h := h) (b := b) (vq := vq) (nb := nb) hne b
        rw [if_neg hne, if_pos rfl, hb] at this
        rw [this]; simp
      · intro hm
        obtain ⟨_, _, _, _, i⟩ := hwf.info_of_held hm
        have := (List.getElem?_eq_some_iff.1 i.hv).1; omega
      · rw [d.tokOf]; exact (send_den_new hv d).tokOf
      · rw [d.tokOf]; rfl
      · intro hm
        rcases (hmem h).1 hm with ⟨_, h2⟩ | ⟨h2, _⟩
        · exact h2 rfl
        · have := (List.getElem?_eq_some_iff.1 hv).1; omega
      · intro x hx hxh
        refine ⟨(hmem x).2 (.inl ⟨hx, hxh⟩), ?_⟩
        obtain ⟨_, _, _, _, _, dx⟩ := hwf.den_of_held hx
        rw [dx.tokOf]; exact (send_den_old dx).tokOf
      · intro x hx
        rcases (hmem x).1 hx with h1 | ⟨h1, _⟩
        · exact .inr h1
        · exact .inl h1

/-! ### 11. placement is unobservable: the view -/

/-- tokens held by node `i`, in the order of its list of held qubits -/
def viewAt (s : Net) (i : Nat) : List Nat := (heldAt s i).filterMap (tokOf s)

/-- the abstraction: who holds which logical qubit.  Nothing about simulating nodes,
registers, positions, identifiers. -/
def view (s : Net) : List (Nat × Nat) :=
  (List.range s.nodes.length).flatMap fun i => (viewAt s i).map fun t => (i, t)

theorem filterMap_congr' {α β} (f g : α → Option β) : ∀ (l : List α), (∀ x, x ∈ l → f x = g x) →
    l.filterMap f = l.filterMap g
  | [], _ => rfl
  | a :: l, h => by
    simp only [List.filterMap_cons, h a (List.mem_cons_self)]
    rw [filterMap_congr' f g l (fun x hx => h x (List.mem_cons_of_mem _ hx))]

theorem heldAt_eq {s s' : Net} {i : Nat} (h : (s'.nodes[i]?).map (·.virt) = (s.nodes[i]?).map (·.virt)) :
    heldAt s' i = heldAt s i := by
  unfold heldAt; rw [h]

theorem heldAt_mem_allHeld {s : Net} {i x : Nat} (h : x ∈ heldAt s i) : x ∈ allHeld s := by
  cases hn : s.nodes[i]? with
  | none => simp [heldAt, hn] at h
  | some n => exact mem_allHeld.2 ⟨i, n, hn, by simpa [heldAt, hn] using h⟩

theorem filterMap_erase_inj (f : Nat → Option Nat) (h t : Nat) : ∀ (l : List Nat), h ∈ l → f h = some t →
    (∀ x, x ∈ l → f x = some t → x = h) → (l.erase h).filterMap f = (l.filterMap f).erase t
  | [], hm, _, _ => by simp at hm
  | a :: l, hm, hf, hinj => by
    by_cases e : a = h
    · subst e
      simp [hf]
    · have hm' : h ∈ l := by
        rcases List.mem_cons.1 hm with e' | e'
        · exact absurd e'.symm e
        · exact e'
      have ih := filterMap_erase_inj f h t l hm' hf (fun x hx => hinj x (List.mem_cons_of_mem _ hx))
      have hbeq : (a == h) = false := by simp [e]
      rw [List.erase_cons, hbeq]
      simp only [Bool.false_eq_true, if_false, List.filterMap_cons]
      cases hfa : f a with
      | none => simpa using ih
      | some u =>
        have hu : u ≠ t := by
          rintro rfl; exact e (hinj a (List.mem_cons_self) hfa)
        have hbeq' : (u == t) = false := by simp [hu]
        simp only [List.erase_cons, hbeq', Bool.false_eq_true, if_false]
        rw [ih]

/-- view after a successful `new`: the fresh token is appended at the issuing node -/
theorem view_new {s : Net} (hwf : WF s) {a k : Nat} (hres : (step s (.new a)).2.1 = .handle k) (i : Nat) :
    viewAt (step s (.new a)).1 i = if i = a then viewAt s a ++ [s.nextTok] else viewAt s i := by
  have hkeep := handles_keep_tokens s (.new a) hwf
  obtain ⟨_, _, hk, hknh, _⟩ := toks_new hwf hres
  rcases step_cases hwf (.new a) with hin | hout
  · -- impossible: see `toks_new`
    exfalso
    have := (toks_new hwf hres).1
    rw [hin.1] at this
    have := this.length_eq
    simp at this
  · generalize hst : step s (.new a) = out at hout hres hkeep hk
    cases hout with
    | new _ na hna hq hr =>
      simp only [Res.handle.injEq] at hres
      subst hres
      have hv := new_virt_get (s := s) (a := a) (na := na) hna i
      unfold viewAt
      have hold : ∀ x, x ∈ allHeld s → tokOf (newNet s a na) x = tokOf s x := by
        intro x hx
        obtain ⟨_, _, _, _, _, dx⟩ := hwf.den_of_held hx
        rw [dx.tokOf]; exact (new_den_old hna (hwf.nodes _ _ hna).regNumsFresh dx).tokOf
      by_cases e : i = a
      · subst e
        rw [if_pos rfl] at hv ⊢
        have : heldAt (newNet s i na) i = heldAt s i ++ [s.vqs.length] := by
          unfold heldAt; rw [hv, hna]; rfl
        rw [this, List.filterMap_append]
        congr 1
        · apply filterMap_congr'
          intro x hx; exact hold x (heldAt_mem_allHeld hx)
        · simp [hk]
      · rw [if_neg e] at hv ⊢
        rw [heldAt_eq hv]
        apply filterMap_congr'
        intro x hx; exact hold x (heldAt_mem_allHeld hx)

/-- view after a successful `send h b`: the token moves from the sender's list to the end of
the receiver's list -/
theorem view_send {s : Net} (hwf : WF s) {h b k : Nat} (hres : (step s (.send h b)).2.1 = .num k) :
    ∃ vq t, s.vqs[h]? = some vq ∧ tokOf s h = some t ∧ ∀ i,
      viewAt (step s (.send h b)).1 i =
        if i = vq.virtNode then (viewAt s i).erase t
        else if i = b then viewAt s i ++ [t] else viewAt s i := by
  rcases step_cases hwf (.send h b) with hin | hout
  · exfalso
    obtain ⟨_, _, _, _, _, hin1, hnot, _⟩ := send_moves_holder hwf hres
    rw [hin.1] at hnot
    exact hnot hin1
  · generalize hst : step s (.send h b) = out at hout hres
    cases hout with
    | send _ _ vq nb hv ha hb hne hcap =>
      have hh := hwf.held_of_active hv ha
      obtain ⟨o, n, r, p, t, d⟩ := hwf.den_of_held hh
      obtain ⟨_, _, _, _, ih⟩ := hwf.info_of_held hh
      have e := ih.hv; rw [hv] at e; cases e
      obtain ⟨n0, hn0, hm0⟩ := ih.home
      refine ⟨vq, t, hv, d.tokOf, ?_⟩
      intro i
      have hvirt := send_virt_get (s := s) (h := h) (b := b) (vq := vq) (nb := nb) hne i
      have hold : ∀ x, x ∈ allHeld s → tokOf (sendNet s h b vq nb) x = tokOf s x := by
        intro x hx
        obtain ⟨_, _, _, _, _, dx⟩ := hwf.den_of_held hx
        rw [dx.tokOf]; exact (send_den_old dx).tokOf
      unfold viewAt
      by_cases e1 : i = vq.virtNode
      · subst e1
        rw [if_pos rfl] at hvirt ⊢
        have h1 : heldAt (sendNet s h b vq nb) vq.virtNode = (heldAt s vq.virtNode).erase h := by
          unfold heldAt; rw [hvirt, hn0]; rfl
        have h2 : heldAt s vq.virtNode = n0.virt := by unfold heldAt; rw [hn0]; rfl
        rw [h1]
        have : ((heldAt s vq.virtNode).erase h).filterMap (tokOf (sendNet s h b vq nb))
            = ((heldAt s vq.virtNode).erase h).filterMap (tokOf s) := by
          apply filterMap_congr'
          intro x hx
          exact hold x (heldAt_mem_allHeld (List.mem_of_mem_erase hx))
        rw [this]
        apply filterMap_erase_inj
        · rw [h2]; exact hm0
        · exact d.tokOf
        · intro x hx hxt
          exact tokOf_inj hwf (heldAt_mem_allHeld hx) hh hxt d.tokOf
      · rw [if_neg e1] at hvirt ⊢
        by_cases e2 : i = b
        · subst e2
          rw [if_pos rfl] at hvirt ⊢
          have h1 : heldAt (sendNet s h i vq nb) i = heldAt s i ++ [s.vqs.length] := by
            unfold heldAt; rw [hvirt, hb]; rfl
          rw [h1, List.filterMap_append]
          congr 1
          · apply filterMap_congr'
            intro x hx; exact hold x (heldAt_mem_allHeld hx)
          · simp [(send_den_new hv d).tokOf]
        · rw [if_neg e2] at hvirt ⊢
          rw [heldAt_eq hvirt]
          apply filterMap_congr'
          intro x hx; exact hold x (heldAt_mem_allHeld hx)

/-- view after a successful destructive `measure h`: the token disappears from its holder's list -/
theorem view_measure {s : Net} (hwf : WF s) {h : Nat} {oc x : Bool}
    (hres : (step s (.measure h false oc)).2.1 = .outcome x) :
    ∃ vq t, s.vqs[h]? = some vq ∧ tokOf s h = some t ∧ ∀ i,
      viewAt (step s (.measure h false oc)).1 i =
        if i = vq.virtNode then (viewAt s i).erase t else viewAt s i := by
  have hkeep := handles_keep_tokens s (.measure h false oc) hwf
  rcases step_cases hwf (.measure h false oc) with hin | hout
  · exfalso
    obtain ⟨t, _, hp, hnot, _⟩ := toks_measure hwf hres
    rw [hin.1] at hnot
    exact hnot (hp.mem_iff.2 (List.mem_cons_self))
  · generalize hst : step s (.measure h false oc) = out at hout hres hkeep
    cases hout with
    | measDestr _ _ vq sq nd rg i =>
      have hh := hwf.held_of_active i.hv i.act
      obtain ⟨n0, hn0, hm0⟩ := i.home
      refine ⟨vq, _, i.hv, i.den.tokOf, ?_⟩
      intro j
      have hvirt := meas_virt_get (s := s) (h := h) (vq := vq) (sq := sq) (nd := nd) (rg := rg) j
      have hmem := meas_allHeld_mem hwf i
      have hold : ∀ y, y ∈ allHeld s → y ≠ h → tokOf (measNet s h vq sq nd rg) y = tokOf s y :=
        fun y hy hyh => hkeep y hy ((hmem y).2 ⟨hy, hyh⟩)
      unfold viewAt
      by_cases e1 : j = vq.virtNode
      · subst e1
        rw [if_pos rfl] at hvirt ⊢
        have h1 : heldAt (measNet s h vq sq nd rg) vq.virtNode = (heldAt s vq.virtNode).erase h := by
          unfold heldAt; rw [hvirt, hn0]; rfl
        have h2 : heldAt s vq.virtNode = n0.virt := by unfold heldAt; rw [hn0]; rfl
        have hnd : (heldAt s vq.virtNode).Nodup := by rw [h2]; exact (hwf.nodes _ _ hn0).virtNodup
        rw [h1]
        have : ((heldAt s vq.virtNode).erase h).filterMap (tokOf (measNet s h vq sq nd rg))
            = ((heldAt s vq.virtNode).erase h).filterMap (tokOf s) := by
          apply filterMap_congr'
          intro y hy
          have := hnd.mem_erase_iff.1 hy
          exact hold y (heldAt_mem_allHeld this.2) this.1
        rw [this]
        apply filterMap_erase_inj
        · rw [h2]; exact hm0
        · exact i.den.tokOf
        · intro y hy hyt
          exact tokOf_inj hwf (heldAt_mem_allHeld hy) hh hyt i.den.tokOf
      · rw [if_neg e1] at hvirt ⊢
        rw [heldAt_eq hvirt]
        apply filterMap_congr'
        intro y hy
        have hya := heldAt_mem_allHeld hy
        refine hold y hya ?_
        rintro rfl
        obtain ⟨nj, hnj, hmj⟩ : ∃ nj, s.nodes[j]? = some nj ∧ y ∈ nj.virt := by
          cases hn : s.nodes[j]? with
          | none => simp [heldAt, hn] at hy
          | some nj => exact ⟨nj, rfl, by simpa [heldAt, hn] using hy⟩
        exact e1 ((hwf.held_home hnj hmj i.hv).symm)

/-- view after every other operation — single- and two-qubit gates in every placement,
in-place measurements, and every refused operation: unchanged -/
theorem view_other {s : Net} (hwf : WF s) (op : Op)
    (hnew : ∀ a k, ¬ (op = .new a ∧ (step s op).2.1 = .handle k))
    (hsend : ∀ h b k, ¬ (op = .send h b ∧ (step s op).2.1 = .num k))
    (hmeas : ∀ h oc x, ¬ (op = .measure h false oc ∧ (step s op).2.1 = .outcome x)) (i : Nat) :
    viewAt (step s op).1 i = viewAt s i := by
  have hkeep := handles_keep_tokens s op hwf
  rcases step_cases hwf op with hin | hout
  · rw [hin.1]
  · generalize hst : step s op = out at hout hnew hsend hmeas hkeep
    cases hout with
    | new a na hna hq hr => exact absurd ⟨rfl, rfl⟩ (hnew a _)
    | gate1 => rfl
    | gate2 hc ht g hne hhc hht out =>
      obtain ⟨_, _, _, _, _, _, _, _, _, _, _, _, _, _, _, _, _, frame⟩ := out
      have hv : ((stepGate2 s hc ht g).1.nodes[i]?).map (·.virt) = (s.nodes[i]?).map (·.virt) := by
        have := congrArg (fun l => l[i]?) frame.virt
        simpa [List.getElem?_map] using this
      unfold viewAt
      rw [heldAt_eq hv]
      apply filterMap_congr'
      intro x hx
      have hxa := heldAt_mem_allHeld hx
      exact hkeep x hxa (frame.allHeld ▸ hxa)
    | send h b vq nb => exact absurd ⟨rfl, rfl⟩ (hsend h b _)
    | measInplace => rfl
    | measDestr h oc vq sq nd rg i => exact absurd ⟨rfl, rfl⟩ (hmeas h oc oc)

/-- the full abstraction is determined by the per-node views -/
theorem view_eq_of_viewAt {s s' : Net} (hlen : s'.nodes.length = s.nodes.length)
    (h : ∀ i, viewAt s' i = viewAt s i) : view s' = view s := by
  unfold view; rw [hlen]; simp only [h]


/-! ### 11'. the ideal single register and the refinement statement -/

/-- token-level operations of the ideal register -/
inductive IOp where
  | nop
  | new (a t : Nat)
  | gate1 (g : G1) (t : Nat)
  | gate2 (g : G2) (c t : Nat)
  | send (t a b : Nat)
  | measure (t a : Nat) (inplace outcome : Bool)
  deriving DecidableEq, Repr

/-- the ideal register, as far as L2 is concerned: who holds which token -/
def idealStep (v : Nat → List Nat) : IOp → Nat → List Nat
  | .nop => v
  | .gate1 .. => v
  | .gate2 .. => v
  | .new a t => fun i => if i = a then v a ++ [t] else v i
  | .send t a b => fun i => if i = a then (v i).erase t else if i = b then v i ++ [t] else v i
  | .measure t a ip _ => fun i => if ip then v i else if i = a then (v i).erase t else v i

/-- token-level reading of a concrete step: the op, its result kind, the tokens its handles
denote and the nodes holding them — nothing about simulating nodes, registers, positions -/
def absOp (s : Net) (op : Op) : IOp :=
  match op, (step s op).2.1 with
  | .new a, .handle _ => .new a s.nextTok
  | .gate1 h g, .unit => match tokOf s h with
    | some t => .gate1 g t
    | none => .nop
  | .gate2 hc ht g, .unit => match tokOf s hc, tokOf s ht with
    | some c, some t => .gate2 g c t
    | _, _ => .nop
  | .send h b, .num _ => match tokOf s h, s.vqs[h]? with
    | some t, some vq => .send t vq.virtNode b
    | _, _ => .nop
  | .measure h ip _, .outcome x => match tokOf s h, s.vqs[h]? with
    | some t, some vq => .measure t vq.virtNode ip x
    | _, _ => .nop
  | _, _ => .nop

/-- T01.1 `step_refines`: the view after a step is the ideal step applied to the view before -/
theorem step_refines {s : Net} (hwf : WF s) (op : Op) (i : Nat) :
    viewAt (step s op).1 i = idealStep (viewAt s) (absOp s op) i := by
  cases op with
  | new a =>
    cases hr : (step s (.new a)).2.1 with
    | handle k => rw [view_new hwf hr]; simp [absOp, hr, idealStep]
    | num _ | outcome _ | unit | none | err _ | badCall | selfSend =>
      rw [view_other hwf _ (fun a' k' h => by rw [hr] at h; cases h.2) (fun _ _ _ h => by cases h.1)
        (fun _ _ _ h => by cases h.1)]
      simp [absOp, hr, idealStep]
  | gate1 h g =>
    rw [view_other hwf _ (fun _ _ h => by cases h.1) (fun _ _ _ h => by cases h.1) (fun _ _ _ h => by cases h.1)]
    simp only [absOp]
    split <;> (try split) <;> simp_all [idealStep]
  | gate2 hc ht g =>
    rw [view_other hwf _ (fun _ _ h => by cases h.1) (fun _ _ _ h => by cases h.1) (fun _ _ _ h => by cases h.1)]
    simp only [absOp]
    split <;> (try split) <;> simp_all [idealStep]
  | send h b =>
    cases hr : (step s (.send h b)).2.1 with
    | num k =>
      obtain ⟨vq, t, hv, ht, hview⟩ := view_send hwf hr
      rw [hview]; simp [absOp, hr, idealStep, hv, ht]
    | handle _ | outcome _ | unit | none | err _ | badCall | selfSend =>
      rw [view_other hwf _ (fun _ _ h => by cases h.1) (fun _ _ k' h => by rw [hr] at h; cases h.2)
        (fun _ _ _ h => by cases h.1)]
      simp [absOp, hr, idealStep]
  | measure h ip oc =>
    cases hr : (step s (.measure h ip oc)).2.1 with
    | outcome x =>
      cases ip with
      | false =>
        obtain ⟨vq, t, hv, ht, hview⟩ := view_measure hwf hr
        rw [hview]; simp [absOp, hr, idealStep, hv, ht]
      | true =>
        rw [view_other hwf _ (fun _ _ h => by cases h.1) (fun _ _ _ h => by cases h.1) (fun _ _ _ h => by cases h.1)]
        simp only [absOp, hr]
        split <;> simp_all [idealStep]
    | handle _ | num _ | unit | none | err _ | badCall | selfSend =>
      rw [view_other hwf _ (fun _ _ h => by cases h.1) (fun _ _ _ h => by cases h.1)
        (fun _ _ x' h => by rw [hr] at h; cases h.2)]
      simp [absOp, hr, idealStep]

/- The fully general form of T01.3 (DESIGN §4): "for `WF s1`, `WF s2` with `view s1 = view s2`
and a renaming ρ of held handles that respects `tokOf`, every program `ops` yields the same
results from `s1` as `ρ ops` from `s2`" is FALSE for the model and the code:
`regLimit_observes_placement` below is a witness (the per-node register budget `maxRegs`
makes the register partition observable through `quantumError`).  What IS proved: the
one-step form under equal token-level readings (`placement_unobservable`, which covers all
successful operations and all other refusals), the explicit view formulas (`view_new`,
`view_send`, `view_measure`, `view_other`, `step_refines`) and the program-level form
against the ideal register (`run_refines`).  Missing for a two-run statement: the handle
renaming between the runs, and a hypothesis excluding register-limit refusals. -/

/-- T01.3 `placement_unobservable` (one step): two well-formed states with the same view —
however differently their qubits are simulated and their registers partitioned — reach the
same view whenever the token-level readings of the two operations agree -/
theorem placement_unobservable {s1 s2 : Net} (hwf1 : WF s1) (hwf2 : WF s2) (op1 op2 : Op)
    (hview : ∀ i, viewAt s1 i = viewAt s2 i) (hop : absOp s1 op1 = absOp s2 op2) (i : Nat) :
    viewAt (step s1 op1).1 i = viewAt (step s2 op2).1 i := by
  rw [step_refines hwf1, step_refines hwf2, hop]
  have : viewAt s1 = viewAt s2 := funext hview
  rw [this]

/-- the ideal register run on the token-level reading of a program -/
def idealRun (s : Net) (v : Nat → List Nat) : List Op → Nat → List Nat
  | [] => v
  | op :: ops => idealRun (step s op).1 (idealStep v (absOp s op)) ops

/-- T01.2 `run_refines`: along any program the views of the distributed system are those of
the ideal register.  `WF` preservation (`wf_step`, property C02) enters as a hypothesis. -/
theorem run_refines (wf_step : ∀ s op, WF s → WF (step s op).1) {s : Net} (hwf : WF s) (ops : List Op) :
    viewAt (run s ops).1 = idealRun s (viewAt s) ops := by
  induction ops generalizing s with
  | nil => rfl
  | cons op ops ih =>
    have h1 : viewAt (step s op).1 = idealStep (viewAt s) (absOp s op) := funext (step_refines hwf op)
    simp only [run, idealRun]
    rw [ih (wf_step s op hwf), h1]

theorem flatMap_nil' {α β} (l : List α) : l.flatMap (fun _ => ([] : List β)) = [] := by
  induction l <;> simp_all

/-- the initial state is well-formed: the hypotheses of all theorems above are satisfiable,
and by C02 (`wf_step`) they hold in every reachable state -/
theorem wf_init' (caps : List (Nat × Nat)) : WF (init caps) := by
  have hh : allHeld (init caps) = [] := by
    show (caps.map _).flatMap _ = []
    rw [List.flatMap_map]; exact flatMap_nil' caps
  have hs : allSim (init caps) = [] := by
    show (caps.map _).flatMap _ = []
    rw [List.flatMap_map]; exact flatMap_nil' caps
  have ht : allToks (init caps) = [] := by
    show (caps.map _).flatMap _ = []
    rw [List.flatMap_map]; exact flatMap_nil' caps
  refine ⟨?_, by rw [hh]; simp, by rw [hs]; simp, ?_, by rw [ht]; simp, by rw [ht]; simp⟩
  · intro i n hn
    have : ∃ c : Nat × Nat, n = mkNode c.1 c.2 := by
      simp only [init, List.getElem?_map] at hn
      cases hc : caps[i]? with
      | none => rw [hc] at hn; cases hn
      | some c => rw [hc] at hn; exact ⟨c, by simpa using hn.symm⟩
    obtain ⟨c, rfl⟩ := this
    constructor <;> simp [mkNode, virtNums, simNums, simsOfReg]
  · intro h vq hv
    simp [init] at hv

def regA : Net := (run (init [(5, 1), (5, 5)]) [.new 0]).1
def regB : Net := (run (init [(5, 1), (5, 5)]) [.new 1, .send 0 0]).1

/-- the ONE way in which placement is observable at this layer: the per-node register
budget.  Two states with the same view (node 0 holds token 0, node 1 holds nothing) — in
the first the qubit is simulated at node 0 (one register used there), in the second at node
1 — answer `new 0` differently when `maxRegs = 1`. -/
theorem regLimit_observes_placement :
    WF regA ∧ WF regB ∧ view regA = view regB ∧
    (step regA (.new 0)).2.1 = .err .quantum ∧ (step regB (.new 0)).2.1 = .handle 2 :=
  ⟨wfB_sound (by decide), wfB_sound (by decide), by decide⟩

/-! ### 12. non-vacuity: both-remote-two-simulators merge with a third-party holder -/

/-- node 0 creates tokens 0,1 and entangles them (one register `[0,1]` at node 0), node 1
creates token 2; token 1 goes to node 1, tokens 0 and 2 go to node 2.  Then node 2 applies
a CNOT on its two qubits: both simulated remotely, at two different nodes; node 1 (a third
party) holds token 1, which sits in one of the merged registers. -/
def exOps : List Op :=
  [.new 0, .new 0, .gate2 0 1 .CNOT, .new 1, .send 1 1, .send 0 2, .send 2 2]
def exState : Net := (run (init [(3, 5), (3, 5), (3, 5)]) exOps).1

/-- the hypothesis `WF` holds before and after the gate -/
example : WF exState ∧ WF (step exState (.gate2 4 5 .CNOT)).1 := ⟨wfB_sound (by decide), wfB_sound (by decide)⟩

/-- before: handles 3 (node 1), 4, 5 (node 2) denote tokens 1, 0, 2; the registers are
`[0,1]` at node 0 and `[2]` at node 1 -/
example : allHeld exState = [3, 4, 5] ∧ tokOf exState 3 = some 1 ∧ tokOf exState 4 = some 0 ∧
    tokOf exState 5 = some 2 ∧ allToks exState = [0, 1, 2] ∧ view exState = [(1, 1), (2, 0), (2, 2)] := by
  decide

/-- the gate: new register at node 2, two pulls, then CNOT at node 2 register 0 with control
position 0 (token 0) and target position 2 (token 2); afterwards ALL three handles —
including the third party's, re-pointed to node 2 — denote the same tokens, one register
`[0,1,2]` at node 2, same view -/
example :
    (step exState (.gate2 4 5 .CNOT)).2 =
      (.unit, [.newReg 2 0, .exportDel 0 0, .delReg 0 0, .absorbParts 2 0 0 0,
               .exportDel 1 0, .delReg 1 0, .absorbParts 2 0 1 0, .gate2 .CNOT 2 0 0 2]) ∧
    allHeld (step exState (.gate2 4 5 .CNOT)).1 = [3, 4, 5] ∧
    tokOf (step exState (.gate2 4 5 .CNOT)).1 3 = some 1 ∧
    tokOf (step exState (.gate2 4 5 .CNOT)).1 4 = some 0 ∧
    tokOf (step exState (.gate2 4 5 .CNOT)).1 5 = some 2 ∧
    ((step exState (.gate2 4 5 .CNOT)).1.vqs[3]?).map (·.simNode) = some 2 ∧
    allToks (step exState (.gate2 4 5 .CNOT)).1 = [0, 1, 2] ∧
    view (step exState (.gate2 4 5 .CNOT)).1 = view exState := by
  decide

/-- and in the other direction (control and target exchanged): the control's register is
pulled first, so token 2 sits at position 0 and token 0 at position 1 -/
example :
    (step exState (.gate2 5 4 .CNOT)).2.2.getLast? = some (.gate2 .CNOT 2 0 0 1) ∧
    allToks (step exState (.gate2 5 4 .CNOT)).1 = [2, 0, 1] ∧
    tokOf (step exState (.gate2 5 4 .CNOT)).1 5 = some 2 ∧ tokOf (step exState (.gate2 5 4 .CNOT)).1 4 = some 0 ∧
    tokOf (step exState (.gate2 5 4 .CNOT)).1 3 = some 1 := by
  decide

end SqVerif.C01

"""C19 — noise is absent unless enabled and depolarizing at the documented rate
(simulaqron/virtual_node/quantum.py, class simulatedQubit; settings noisy_qubits / t1).

Reading: "an operation on a qubit" = a method invoked on that simulated qubit
(the seven single-qubit gates, both measurements, the control side of CNOT /
CPHASE); the target of a two-qubit gate is not clocked by that call.  "Idle for
t seconds" = clock reading at the operation minus the reading at the previous
operation on the same simulated qubit (or its creation).

Real `simulatedQubit` objects on a real `stabilizerEngine`, created through the
real settings object; `time` and `random` as seen from quantum.py's module
namespace and `randint` in stabilizer_states are scripted from outside; the
register is wrapped by a spy that logs every engine call.

Oracle (independent of the Lean model): with noise off, the call sequence, the
return value and the register state equal those of the same operation applied
to a copy of the pre-state directly on an engine (no idle time anywhere); with
noise on, exactly one extra Pauli call at the qubit's own position iff the draw
is below 3p, with the letter the documented intervals give, where
p = (1 - exp(-t/T1))/4 is computed here with math.exp, and the register state
equals pre-state -> that Pauli -> the operation on the reference engine.

Tie: every executed operation is also sent to the Lean model (driver `noise`,
the generic model instantiated at IEEE doubles; the decision rule additionally
at exact integers), observations compared verbatim."""
import math
import struct
from fractions import Fraction

from .. import core
from ..gen import noise_calls

LEAN_TARGETS = ["SqVerif.Props.C19"]
PROPS_FILE = "SqVerif/Props/C19.lean"
DRIVE_TARGETS = ["SqVerif.Drive.Noise"]
TRUSTED = [
    "model Noise.lean hand-written from quantum.py:79-82,129-239,287-306; tied by differential execution (this check) "
    "at Float (bit-exact) and, for the decision rule, at exact integers",
    "Gen/NoiseCalls.lean regenerated from quantum.py's AST by harness/gen/noise_calls.py on every run "
    "(noise call first in every operation method, engine calls on self.num only); translator validated by the "
    "observed engine-call sequences of every executed operation",
    "scripted replacements for time.time / random.random (module attributes of quantum.py) and randint "
    "(stabilizer_states); the spy wrapper around the register",
    "np.exp is executed, not modelled: its value is handed to the model as a one-point table and compared with "
    "math.exp (and libm exp inside Lean) to 1 ulp on every case",
    "'probability q' is read as: the uniform draw of random.random() falls into an interval of length q "
    "(theorems are about the decision rule given the draw; statistical frequencies are not measured)",
]
ASSUMPTIONS = [
    "an operation on a qubit = a method invoked on that simulatedQubit object: single-qubit gates, both "
    "measurements, control side of CNOT/CPHASE; the target of a two-qubit gate is not clocked by that call",
    "idle time = clock reading at the operation minus the reading stored by the previous operation on the same "
    "simulatedQubit (creation at first); a register merge creates new simulatedQubit objects and restarts the clock "
    "(virtual.py:1000) — outside this property's anchors",
    "T1 > 0 and a clock that does not run backwards are the statement's domain; T1 <= 0 (T1 = 0 raises "
    "ZeroDivisionError before any engine call) and negative idle time are executed and tied to the model, and "
    "judged only for 'no Pauli appears when the rate is not positive'",
    "floating point: thresholds are the doubles p, 2*p, 3*p; a draw exactly between 3p and fl(3*p) may go either way",
]

OPS = ["X", "K", "Y", "Z", "H", "T", "rot", "measInplace", "meas", "cnot", "cphase"]
METHOD = {"X": "remote_apply_X", "K": "remote_apply_K", "Y": "remote_apply_Y", "Z": "remote_apply_Z",
          "H": "remote_apply_H", "T": "remote_apply_T", "rot": "remote_apply_rotation",
          "measInplace": "remote_measure_inplace", "meas": "remote_measure",
          "cnot": "remote_cnot_onto", "cphase": "remote_cphase_onto"}
ENGINE = {"X": "apply_X", "K": "apply_K", "Y": "apply_Y", "Z": "apply_Z", "H": "apply_H", "T": "apply_T",
          "rot": "apply_rotation", "measInplace": "measure_qubit_inplace", "meas": "measure_qubit",
          "cnot": "apply_CNOT", "cphase": "apply_CPHASE"}
PAULI = {"apply_X": "X", "apply_Y": "Y", "apply_Z": "Z"}
ROT_ARGS = ((1, 0, 0), 0.5)
TOL = Fraction(1, 2 ** 54)      # 1 ulp of exp near 1, divided by 4


def bits(f):
    return struct.unpack("<Q", struct.pack("<d", float(f)))[0]


def frombits(n):
    return struct.unpack("<d", struct.pack("<Q", int(n)))[0]


def ulps(a, b):
    """distance in units in the last place between two finite doubles of the same sign"""
    ia, ib = bits(a), bits(b)
    return abs(ia - ib) if (ia >> 63) == (ib >> 63) else ia + ib


def gen(ctx):
    tab = noise_calls.generate(core.REPO, core.LEAN_DIR)
    ctx.noise_table = tab
    return {"obligations": len(tab["ops"]) + 1, "file": noise_calls.OUT,
            "op_methods": [m["name"] for m in tab["ops"]],
            "noise_engine_calls": (tab["noise"] or {}).get("engineCalls")}


# --------------------------------------------------------------------------
# scripted environment
# --------------------------------------------------------------------------

class Clock:
    """stands in for the `time` module inside quantum.py"""

    def __init__(self):
        self.now, self.calls = 0.0, 0

    def time(self):
        self.calls += 1
        return self.now


class Draws:
    """stands in for the `random` module inside quantum.py"""

    def __init__(self):
        self.x, self.calls = 0.0, 0

    def random(self):
        self.calls += 1
        return self.x


class Spy:
    """wraps the register engine; logs every public method call (name, args)"""

    def __init__(self, eng):
        self.__dict__["_eng"] = eng
        self.__dict__["_log"] = []

    def __getattr__(self, name):
        v = getattr(self._eng, name)
        if callable(v) and not name.startswith("_"):
            log = self._log

            def f(*a, **k):
                log.append((name, a))
                return v(*a, **k)
            return f
        return v

    def __setattr__(self, name, value):
        setattr(self._eng, name, value)


class World:
    """the code under test with its environment scripted"""

    def __init__(self):
        core.scratch_repo()
        import numpy as np
        from types import SimpleNamespace
        from simulaqron import settings
        from simulaqron.virtual_node import quantum
        from simulaqron.virtual_node.stabilizer_simulator import stabilizerEngine
        from simulaqron.toolbox import stabilizer_states
        self.np, self.settings, self.quantum, self.SS = np, settings.simulaqron_settings, quantum, stabilizer_states
        self.Engine = stabilizerEngine
        self.node = SimpleNamespace(name="N")
        self.clock, self.draws = Clock(), Draws()
        quantum.time = self.clock
        quantum.random = self.draws
        self.mbit = 0
        stabilizer_states.randint = lambda a, b: self.mbit
        self.np_exp = np.exp

    def engine(self, arr):
        e = self.Engine(self.node, 0, maxQubits=16)
        e.qubitReg = self.SS.StabilizerState(self.np.array(arr, dtype=bool))
        return e

    def qubits(self, spy, n, noisy, T1, created):
        """n simulated qubits on `spy`, created at clock reading `created` through the real settings"""
        self.settings.noisy_qubits = noisy
        self.settings.t1 = T1
        self.clock.now = created
        return [self.quantum.simulatedQubit(self.node, spy, k, k) for k in range(n)]

    def exp_sample(self, t, T1):
        """(arg, value) exactly as line 296 evaluates them, value by the real numpy"""
        arg = -t / T1
        with self.np.errstate(all="ignore"):
            return arg, float(self.np_exp(arg))


def random_state(w, rng, n):
    e = w.Engine(w.node, 0, maxQubits=16)
    for _ in range(n):
        e.add_fresh_qubit()
    for _ in range(3 * n + 2):
        g = rng.choice(["H", "K", "X", "Z", "CNOT", "CPHASE", "H"])
        a = rng.randrange(n)
        if g in ("CNOT", "CPHASE"):
            if n < 2:
                continue
            b = rng.choice([k for k in range(n) if k != a])
            getattr(e, "apply_" + g)(a, b)
        else:
            getattr(e, "apply_" + g)(a)
    return e.qubitReg.to_array().astype(int).tolist()


def call_args(op, num, tgt):
    if op in ("cnot", "cphase"):
        return (num, tgt)
    if op == "rot":
        return (num,) + ROT_ARGS
    return (num,)


def invoke(obj_or_engine, name, op, num, tgt, on_engine):
    """the same operation either through the simulatedQubit method or directly on an engine"""
    if on_engine:
        return getattr(obj_or_engine, ENGINE[op])(*call_args(op, num, tgt))
    m = getattr(obj_or_engine, METHOD[op])
    if op in ("cnot", "cphase"):
        return m(tgt)
    if op == "rot":
        return m(*ROT_ARGS)
    return m()


def fmt_call(name, args):
    ints = [a for a in args if isinstance(a, int) and not isinstance(a, bool)]
    return "%s(%s)" % (name, ",".join(str(a) for a in ints))


def classify(x, th):
    """letter for draw x against three thresholds (Fractions or floats), the statement's intervals"""
    if x < th[0]:
        return "X"
    if x < th[1]:
        return "Y"
    if x < th[2]:
        return "Z"
    return None


def allowed_letters(x, p_h, p_ref):
    """letters the statement permits for draw x: exact intervals from the rate (both the value numpy's exp
    gives and the one math.exp gives), and the doubles 2*p, 3*p the code necessarily compares with"""
    fx = Fraction(x)
    out = set()
    for p in (p_h, p_ref):
        P = Fraction(p)
        out.add(classify(fx, (P, 2 * P, 3 * P)))
        out.add(classify(x, (p, 2 * p, 3 * p)))
    return out


# --------------------------------------------------------------------------
# one operation: run it for real, judge it, build the model query
# --------------------------------------------------------------------------

def execute(w, res, case, qs, spy, i, queries, judge=True):
    """Run case['op'] on simulated qubit qs[i] (already created on `spy`), with the clock, draw and
    measurement bit of the case.  Appends violations to res and (line, expected, case) to queries.
    Returns the list of Pauli letters observed."""
    op, tgt, x, now = case["op"], case.get("tgt"), case["x"], case["now"]
    q = qs[i]
    noisy, T1, last, num = bool(q.noisy), q.T1, q.last_accessed, q.num
    idle_since = case["idle_since"]           # the oracle's own bookkeeping, not q.last_accessed
    t = now - idle_since
    eng = spy._eng
    pre = eng.qubitReg.to_array().astype(int).tolist()
    others_before = [(o.noisy, o.T1, o.last_accessed, o.num) for k, o in enumerate(qs) if k != i]
    del spy._log[:]
    w.clock.now, w.clock.calls = now, 0
    w.draws.x, w.draws.calls = x, 0
    w.mbit = case["mbit"]
    exc, ret = None, None
    try:
        with w.np.errstate(all="ignore"):
            ret = invoke(q, None, op, num, tgt, on_engine=False)
    except Exception as e:                                    # noqa: BLE001 — classified below
        exc = type(e).__name__
    log = list(spy._log)
    post = eng.qubitReg.to_array().astype(int).tolist()
    others_after = [(o.noisy, o.T1, o.last_accessed, o.num) for k, o in enumerate(qs) if k != i]

    rep = {k: case[k] for k in ("op", "tgt", "x", "now", "mbit") if k in case}
    rep.update({"noisy": noisy, "T1": T1, "created_or_last_op": idle_since, "idle_t": t, "num": num, "pre_state": pre,
                "observed_calls": [fmt_call(*c) for c in log], "exception": exc})
    mname = METHOD[op]
    want_req = (ENGINE[op], call_args(op, num, tgt))

    # ---- reference: the same operation straight on an engine holding a copy of the pre-state
    def reference(letter):
        r = w.engine(pre)
        if letter:
            getattr(r, "apply_" + letter)(num)
        w.mbit = case["mbit"]
        rexc, rret = None, None
        try:
            rret = invoke(r, None, op, num, tgt, on_engine=True)
        except Exception as e:                                # noqa: BLE001
            rexc = type(e).__name__
        return r.qubitReg.to_array(standard_form=True).astype(int).tolist(), rret, rexc

    def viol(kind, what):
        res.violation("%s:%s" % (mname, kind), "%s (%s, noisy=%s, idle t=%r, T1=%r, draw=%r)" % (
            what, mname, noisy, t, T1, x), rep)

    in_domain = True
    extra = log[:-1] if log and log[-1] == want_req else log
    letters = [PAULI.get(n) for n, a in extra]
    if judge:
        if not noisy:
            # ---- noise disabled: nothing but the requested call, state as without any idle time
            if log != [want_req]:
                viol("off-extra-calls", "noise disabled but the register received %s instead of just %s" % (
                    [fmt_call(*c) for c in log], fmt_call(*want_req)))
            rstate, rret, rexc = reference(None)
            if eng.qubitReg.to_array(standard_form=True).astype(int).tolist() != rstate or ret != rret or exc != rexc:
                viol("off-state-changed", "noise disabled but state/outcome/exception differ from the same operation "
                     "without idle time (outcome %r vs %r, exception %r vs %r)" % (ret, rret, exc, rexc))
        else:
            in_domain = T1 > 0 and t >= 0
            if T1 == 0:
                res.count("out-of-domain:T1=0")
            else:
                arg, e_np = w.exp_sample(t, T1)
                try:
                    e_ref = math.exp(arg)
                except OverflowError:
                    e_ref = math.inf
                if in_domain and ulps(e_np, e_ref) > 1:
                    viol("exp-1ulp", "np.exp(%r) = %r differs from math.exp by more than 1 ulp (%r)" % (arg, e_np, e_ref))
                p_h, p_ref = (1 - e_np) / 4, (1 - e_ref) / 4
                if in_domain:
                    allowed = allowed_letters(x, p_h, p_ref)
                    if not (0 <= p_ref <= 0.25):      # = 1/4 only when exp underflows to 0
                        viol("rate-range", "rate %r outside [0, 1/4]" % p_ref)
                else:
                    res.count("out-of-domain:" + ("T1<0" if T1 < 0 else "t<0"))
                    # only judged when the documented rate is not positive: then nothing may be applied
                    allowed = {None} if p_ref <= 0 else {None, "X", "Y", "Z"}
                if not log or log[-1] != want_req:
                    viol("on-request-missing", "the requested call %s is not the last engine call: %s" % (
                        fmt_call(*want_req), [fmt_call(*c) for c in log]))
                elif len(extra) > 1:
                    viol("on-more-than-one", "more than one extra engine call before the operation: %s" % (
                        [fmt_call(*c) for c in extra]))
                elif extra and (extra[0][0] not in PAULI):
                    viol("on-not-a-pauli", "extra engine call %s is not a Pauli" % fmt_call(*extra[0]))
                elif extra and tuple(extra[0][1]) != (num,):
                    viol("on-other-qubit", "noise Pauli %s applied at %r, the qubit operated on is at position %d" % (
                        extra[0][0], extra[0][1], num))
                else:
                    got = letters[0] if letters else None
                    if got not in allowed:
                        viol("on-wrong-choice", "draw %r with rate p=%r (thresholds %r, %r, %r) must give %s, code applied %s" % (
                            x, p_ref, p_ref, 2 * p_ref, 3 * p_ref, sorted(map(str, allowed)), got))
                    else:
                        rstate, rret, rexc = reference(got)
                        if eng.qubitReg.to_array(standard_form=True).astype(int).tolist() != rstate or ret != rret \
                                or exc != rexc:
                            viol("on-state", "state/outcome/exception differ from pre-state -> %s -> operation on a "
                                 "reference engine (outcome %r vs %r, exception %r vs %r)" % (got, ret, rret, exc, rexc))
        # the other simulated qubits of the register are not touched by this call (their clocks included)
        if others_before != others_after:
            viol("other-qubit-record", "fields of another simulated qubit changed: %r -> %r" % (others_before, others_after))
        if (q.noisy, q.T1, q.num) != (noisy, T1, num):
            viol("own-record", "noisy/T1/num of the qubit changed: %r -> %r" % ((noisy, T1, num), (q.noisy, q.T1, q.num)))

    # ---- model query (one step from the code's actual pre-state)
    if noisy and T1 != 0:
        arg, e_np = w.exp_sample(now - last, T1)
    else:
        arg, e_np = 0.0, 0.0
    opw = op if tgt is None else "%s %d" % (op, tgt)
    qline = "%d %d %d %d" % (1 if noisy else 0, bits(T1), bits(last), num)
    sline = "%d %d %d %d %s" % (bits(now), bits(x), bits(arg), bits(e_np), opw)
    if exc == "ZeroDivisionError" and not log:
        obs = "ZeroDivisionError"
    else:
        obs = "done " + " ".join(fmt_call(*c) for c in log)
    queries.append(("step %s | %s" % (qline, sline), "%d | %s" % (bits(q.last_accessed), obs), rep))
    case["_model_step"] = (sline, obs)
    # exact instantiation of the decision rule (scaled integers), outside the float rounding window at 3p
    if noisy and T1 != 0 and log and log[-1] == want_req and len(extra) <= 1:
        p_h = (1 - e_np) / 4
        if math.isfinite(p_h):
            fp, fx = Fraction(p_h), Fraction(x)
            exact = classify(fx, (fp, 2 * fp, 3 * fp))
            flt = classify(x, (p_h, 2 * p_h, 3 * p_h))
            scale = 2 ** 1100
            if exact == flt:
                queries.append(("selZ %d %d" % (int(fp * scale), int(fx * scale)), str(letters[0] if letters else None).replace("None", "none"),
                                dict(rep, what="decision rule at exact integers")))
            else:
                res.count("float-rounding-window-at-3p")
    res.count(("on:" if noisy else "off:") + op)
    if letters:
        res.count("pauli:" + str(letters[0]))
    elif noisy:
        res.count("pauli:none")
    return letters, exc


# --------------------------------------------------------------------------
# case generators
# --------------------------------------------------------------------------

def draw_positions(p):
    """draws just below / at / just above the doubles p, 2*p, 3*p, plus interior points and the ends of [0,1)"""
    th = [p, 2 * p, 3 * p]
    xs = [0.0, math.nextafter(1.0, 0.0), 0.5, 0.9]
    for k, t in enumerate(th):
        if not math.isfinite(t):
            continue
        xs += [math.nextafter(t, -math.inf), t, math.nextafter(t, math.inf)]
        lo = th[k - 1] if k else 0.0
        xs.append((lo + t) / 2)
    xs.append((th[2] + 1.0) / 2 if math.isfinite(th[2]) else 0.99)
    seen, out = set(), []
    for x in xs:
        if 0.0 <= x < 1.0 and x not in seen:
            seen.add(x)
            out.append(x)
    return out


def run(ctx):
    w = World()
    res = core.Result()
    rng = ctx.rng
    res.rule = ("single operations: grid of idle time t x T1 x every operation kind x draws just below/at/just above "
                "each of p, 2p, 3p (the doubles the code compares with) plus interior points, noise on and off, on "
                "random stabilizer pre-states of 1-4 qubits; histories of 6-14 operations on 2-4 qubits with "
                "advancing (sometimes equal, sometimes backward) clock; out-of-domain T1 <= 0; "
                "non-trivial = noise on or idle time > 0; distinct by (op, noisy, t, T1, draw, pre-state)")
    queries = []
    pool = {n: [random_state(w, rng, n) for _ in range(ctx.scale(6, 20))] for n in (1, 2, 3, 4)}
    bases = [1000.0, 1727712000.0]

    def single(op, noisy, t, T1, x, base=None, nq=None):
        nq = nq or rng.choice([2, 3, 4] if op in ("cnot", "cphase") else [1, 2, 3, 4])
        pre = rng.choice(pool[nq])
        spy = Spy(w.engine(pre))
        created = rng.choice(bases) if base is None else base
        qs = w.qubits(spy, nq, noisy, T1, created)
        i = rng.randrange(nq)
        tgt = rng.choice([k for k in range(nq) if k != i]) if op in ("cnot", "cphase") else None
        case = {"op": op, "tgt": tgt, "x": x, "now": created + t, "mbit": rng.randrange(2), "idle_since": created}
        execute(w, res, case, qs, spy, i, queries)
        res.case({"op": op, "noisy": noisy, "t": case["now"] - created, "T1": T1, "x": x, "pre": pre, "i": i, "tgt": tgt},
                 nontrivial=bool(noisy) or t > 0)

    if ctx.replay and "method" in ctx.replay.get("input", {}):
        if getattr(ctx, "noise_table", None) is None:
            ctx.noise_table = noise_calls.generate(core.REPO, core.LEAN_DIR)
        search(ctx, res, [])
        res.case(ctx.replay["input"])
    elif ctx.replay:
        inp = ctx.replay.get("input", {})
        spy = Spy(w.engine(inp["pre_state"]))
        nq = len(inp["pre_state"])
        qs = w.qubits(spy, nq, inp["noisy"], inp["T1"], inp["created_or_last_op"])
        case = {"op": inp["op"], "tgt": inp.get("tgt"), "x": inp["x"], "now": inp["now"], "mbit": inp.get("mbit", 0),
                "idle_since": inp["created_or_last_op"]}
        execute(w, res, case, qs, spy, inp["num"], queries)
        res.case(inp)
    else:
        ts = [0.0, 1e-9, 1e-3, 0.1, 1.0, 2.5, 10.0, 1e3, 1e7]
        T1s = [1e-3, 0.5, 1.0, 3.7, 100.0, 1e6]
        if not ctx.thorough:
            ts = [0.0, 1e-3, 0.1, 1.0, 2.5, 1e3]
            T1s = [1e-3, 1.0, 3.7, 1e6]
        ts = ts + [round(rng.uniform(0, 5), 3) for _ in range(ctx.scale(2, 6))]
        T1s = T1s + [round(rng.uniform(0.05, 20), 3) for _ in range(ctx.scale(1, 4))]
        # ---- noise on: thresholds x operation kinds
        for t in ts:
            for T1 in T1s:
                base = rng.choice(bases)
                t_act = (base + t) - base
                _, e = w.exp_sample(t_act, T1)
                xs = draw_positions((1 - e) / 4)
                for x in xs:
                    ops = OPS if ctx.thorough else rng.sample(OPS, 5)
                    for op in ops:
                        single(op, True, t, T1, x, base=base)
        # every operation kind at every threshold position at least once, also in the quick tier
        for op in OPS:
            base = 1000.0
            _, e = w.exp_sample((base + 1.0) - base, 1.0)
            for x in draw_positions((1 - e) / 4):
                single(op, True, 1.0, 1.0, x, base=base)
        # ---- noise off: any idle time, any draw, any T1 (including 0 and negative)
        for t in ts + [1e9]:
            for T1 in [0.0, -1.0, 1e-3, 1.0, 1e6]:
                for op in OPS:
                    single(op, False, t, T1, rng.choice([0.0, 1e-12, 0.1, 0.5, 0.9]))
        # ---- outside the domain: T1 <= 0, clock stepping backwards
        for op in OPS:
            for T1 in (0.0, -1.0, -0.25):
                for t in (0.0, 1.0, 3.0):
                    single(op, True, t, T1, rng.choice([0.0, 0.1, 0.3, 0.7]))
            for t in (-1e-3, -1.0, -50.0):
                for T1 in (1.0, 0.01):
                    single(op, True, t, T1, rng.choice([0.0, 1e-9, 0.2, 0.6]))
        # ---- histories
        for _ in range(ctx.scale(40, 600)):
            history(ctx, w, res, rng, pool, queries)

    if ctx.lean_ok and queries:
        out = core.lean_run("noise", [q[0] for q in queries])
        for got, (line, want, rep) in zip(out, queries):
            res.traces += 1
            if got != want:
                res.tie_break("Noise model vs simulatedQubit", dict(rep, query=line), got, want)
        # libm exp inside Lean vs numpy vs math, informational 1-ulp cross-check on a few arguments
        args = [-1.0, -0.1, -1e-9, -2.5, -700.0, -0.0]
        lo = core.lean_run("noise", ["exp %d" % bits(a) for a in args])
        for a, o in zip(args, lo):
            d = ulps(frombits(int(o)), float(w.np_exp(a)))
            res.count("exp-lean-vs-numpy-ulps:%d" % d)
            if d > 1:
                res.notes.append("libm exp (Lean) and np.exp differ by %d ulp at %r" % (d, a))
    tab = getattr(ctx, "noise_table", None)
    if tab is not None:
        validate_table(res, tab)
    return res


def history(ctx, w, res, rng, pool, queries):
    """several operations on the simulated qubits of one register, clock advancing in between; every step is
    judged and tied one-step, and every qubit's whole history is tied through the model's `run`"""
    nq = rng.choice([2, 3, 4])
    pre = rng.choice(pool[nq])
    spy = Spy(w.engine(pre))
    noisy = rng.random() < 0.8
    T1 = rng.choice([0.05, 0.5, 1.0, 3.0, 40.0])
    created = rng.choice([1000.0, 1727712000.0])
    qs = w.qubits(spy, nq, noisy, T1, created)
    idle_since = [created] * nq
    first = [(q.noisy, q.T1, q.last_accessed, q.num) for q in qs]
    per_qubit = [[] for _ in range(nq)]
    now = created
    alive = nq
    for _ in range(rng.randrange(6, 15)):
        r = rng.random()
        if r < 0.15:
            dt = 0.0
        elif r < 0.22:
            dt = -rng.choice([1e-3, 0.5])       # wall clock stepped backwards
        else:
            dt = rng.choice([1e-6, 0.01, 0.3, 1.0, 2.0, 7.5, 100.0])
        now = now + dt
        i = rng.randrange(alive)
        ops = [o for o in OPS if o != "meas" and (alive >= 2 or o not in ("cnot", "cphase"))]
        if i == alive - 1 and alive > 1 and rng.random() < 0.15:
            op = "meas"                          # destructive measurement of the last position: no renumbering needed
        else:
            op = rng.choice(ops)
        tgt = rng.choice([k for k in range(alive) if k != i]) if op in ("cnot", "cphase") else None
        t = now - idle_since[i]
        if noisy and T1 > 0:
            _, e = w.exp_sample(t, T1)
            p = (1 - e) / 4
            x = rng.choice(draw_positions(p)) if rng.random() < 0.5 else rng.random()
        else:
            x = rng.random()
        case = {"op": op, "tgt": tgt, "x": x, "now": now, "mbit": rng.randrange(2), "idle_since": idle_since[i]}
        execute(w, res, case, qs[:alive], spy, i, queries)
        per_qubit[i].append(case["_model_step"])
        res.case({"history-step": op, "noisy": noisy, "t": t, "T1": T1, "x": x, "i": i, "tgt": tgt, "pre": pre,
                  "k": len(per_qubit[i])}, nontrivial=True)
        if noisy:
            idle_since[i] = now                  # an operation on qubit i (and only i) restarts its idle time
        if op == "meas":
            alive -= 1
    res.count("history")
    for k in range(nq):
        if per_qubit[k]:
            n0, t0, l0, num0 = first[k]
            line = "run %d %d %d %d | %s" % (1 if n0 else 0, bits(t0), bits(l0), num0, " | ".join(s for s, _ in per_qubit[k]))
            want = "%d | %s" % (bits(qs[k].last_accessed), " | ".join(o for _, o in per_qubit[k]))
            queries.append((line, want, {"history of qubit": k, "steps": len(per_qubit[k]), "pre_state": pre}))


def validate_table(res, tab):
    """the translator's table against what was observed: every executed method is in the table"""
    names = {m["name"] for m in tab["ops"]}
    missing = [METHOD[o] for o in OPS if METHOD[o] not in names]
    if missing:
        res.tie_break("Gen/NoiseCalls table vs executed methods", {"missing": missing}, sorted(names), sorted(METHOD.values()))


def search(ctx, res, broken):
    """targeted search when a proof obligation or the correspondence broke: operation methods the regenerated
    table lists but the case generators do not know (a newly added gate) are invoked with noise enabled, a long
    idle time and draw 0.0 — the statement then demands `apply_X(self.num)` before anything else"""
    import inspect
    tab = getattr(ctx, "noise_table", None) or {"ops": []}
    w = World()
    tried = 0
    for m in tab["ops"]:
        name = m["name"]
        if name in METHOD.values():
            continue
        pre = [[0, 0, 1, 0, 0], [0, 0, 0, 1, 0]]          # |00>
        spy = Spy(w.engine(pre))
        qs = w.qubits(spy, 2, True, 1.0, 1000.0)
        fn = getattr(qs[1], name, None)
        if fn is None:
            continue
        try:
            params = [p for p in inspect.signature(fn).parameters.values()
                      if p.default is p.empty and p.kind in (p.POSITIONAL_ONLY, p.POSITIONAL_OR_KEYWORD)]
        except (TypeError, ValueError):
            continue
        w.clock.now, w.draws.x, w.mbit = 1010.0, 0.0, 0
        del spy._log[:]
        exc = None
        try:
            fn(*[0] * len(params))
        except Exception as e:                                # noqa: BLE001
            exc = type(e).__name__
        tried += 1
        log = [fmt_call(*c) for c in spy._log]
        if not log or log[0] != "apply_X(1)":
            res.violation("%s:on-wrong-choice" % name,
                          "%s on a qubit idle for 10 s with T1=1 and draw 0.0 (< p ~ 0.25) must apply X at position 1 "
                          "first; the register received %s (exception %s)" % (name, log, exc),
                          {"method": name, "args": [0] * len(params), "noisy": True, "T1": 1.0, "created": 1000.0,
                           "now": 1010.0, "x": 0.0, "num": 1, "pre_state": pre, "observed_calls": log, "exception": exc})
    res.notes.append("targeted search: the oracle over every generated operation (all kinds, all threshold positions, "
                     "noise on/off, histories) plus %d operation method(s) of the regenerated table unknown to the "
                     "generators" % tried)

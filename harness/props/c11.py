"""C11 — freeing qubits and stopping an application releases everything it held
(simulaqron/netqasm_backend/executioner.py `_clear_phys_qubit_in_memory`, `remove_qubit_id`, `cmd_epr`,
`send_epr_half`, `cmd_epr_recv`; factory.py `qubitList`; netqasm 2.3.0 `Executor.stop_application`).

Cases: 2 nodes (Alice, Bob), 1-5 application generations on the same nodes.  In every generation each node may
run one application: allocations, gates, frees, single `qfree` probes, subroutines that fail (unsupported gate,
unallocated address, more allocations than the node can hold), created and received pair halves (the
create-and-keep / receive path, 1-2 pairs, matching or unmatched, receiver full, creator nearly full, receive
before anything was sent), then StopApp on both nodes in either order; a half delivered to the peer may be
received and measured after the creator has stopped.  Messages are built by hand (Init, OpenEPRSocket,
Subroutine..., StopApp), no Signal(STOP).  30% of the cases also issue MEASURE-DIRECTLY requests (create_epr of type
M for 1-2 pairs, random-basis sets NONE / XZ / XYZ with arbitrary probabilities on either side; the peer receives
the records with the same recv_epr subroutines, alone or mixed with pair halves, or never); the Lean driver has no
type M (`unmodelled`), so these steps are ORACLE-ONLY: both nodes leave the tie at the first such request of a case.
40% of the cases use nodes whose REGISTER limit (1-3) is below the
qubit capacity, so that qalloc (and, rarely, pair creation) is refused by the register limit at any point of an
application; an address the node refused is allocated again later (`retry` steps).
40% of the random cases draw the EPR socket ids of the two nodes afresh (0-2 each) in every generation, so a local
socket id is opened again towards another remote id.  `socket_history` cases (2 nodes, every 4th on 3 nodes) are
directed at that: 2-4 generations, each opening 1-2 links; a link mostly re-uses a LOCAL socket id of an earlier
generation towards another remote socket id / another remote node (identical re-open as control), pairs are created
and kept over every link in one or both directions, received, measured, freed, both applications stop.

Oracle (independent of the Lean model), per node:
  * across one generation (before the node's InitNewApp .. after its StopApp): the factory's qubitList has the
    same size, the StopApp is answered with MsgDone, and  held qubits - unclaimed delivered halves  is unchanged;
  * when both applications of a generation have stopped and no half is waiting: simulated qubits = held qubits
    network-wide and a node without simulated qubits has no register;
  * a single `qfree` removes exactly one held qubit, un-maps exactly that address, keeps every other mapping;
  * after every local subroutine (they are straight-line) the unit module maps exactly the addresses the
    application holds by our own account (qalloc / qfree executed before the failing line; a refused qalloc holds
    nothing), and the used physical addresses are exactly the mapped ones (`alloc-bookkeeping`);
  * an address whose qalloc the node refused can be allocated as soon as the node has room for a qubit and a
    register (`address-not-reusable`);
  * when a measure-directly request has been answered without error, no qubit of it remains at either node (held
    qubits, simulated qubits, registers, qubitList, receive queue as before: `md-pair-leaves-qubits`), and every
    physical address a successful entanglement request reserved is mapped by the unit module or free again
    (`md-physical-address-not-released`); a record waiting in the receive queue is not a qubit;
  * the creator's StopApp changes nothing at the peer (held qubits, receive queue), and a half delivered before
    it is still received and measured afterwards;
  * our own account of the receive queues per (node, local socket id) -- a half goes to the peer and the peer's socket
    named by the creator's LAST OpenEPRSocket for the local id, a receive request takes from its own socket -- equals
    the node's queues after every create / receive subroutine (`half-in-wrong-queue`); a half that waits in a queue
    it was not sent for is not excused as "delivered, not yet received" in the StopApp clause above; a receive request
    on a socket for which a half was sent does not time out empty-handed (`matched-recv-times-out`); OpenEPRSocket is
    answered with MsgDone.
A leak is classed by how it arose: `epr-failure-leaks-temporaries` (F13: a create_epr / recv_epr subroutine that
was answered with an error after it had created or claimed qubits) or `stop-leaves-qubits` (anything else).

Tie: every message of both nodes goes to the Lean driver `nqexec` (one model instance per node; deliveries to the
peer appear as `arrive` inputs), replies / token-level operation trace / unit module / qubitList / held / receive
queue / leaked count compared verbatim.  The model's node has no register limit: a plain qalloc refused by it is
shown to the driver as an instruction that raises without effect (nqcase.Runner._tie_prog; the tie then demands
exact roll-back on every later message); any other register-limit refusal (pair creation, merge of two remote
registers) takes the node out of the tie from that message on, the oracle above still judges it."""
import random

from .. import core
from .. import nqcase

LEAN_TARGETS = ["SqVerif.Props.C11", "SqVerif.Props.C11Node"]
PROPS_FILE = ["SqVerif/Props/C11.lean", "SqVerif/Props/C11Node.lean"]
DRIVE_TARGETS = ["SqVerif.Drive.NqExec"]
TRUSTED = [
    "model NqExec.lean (shared with C09): unit module, used physical ids, qubitList, node = tokens held / "
    "capacity / receive queue; hand-written from netqasm 2.3.0 executor.py:320-339,1406-1481,1491-1662 and "
    "executioner.py:125-149,295-368,376-500,622-666,732-809; tied by differential execution on every run",
    "the quantum content of the node (simulated qubits, registers) is not in the model: that the number of "
    "simulated qubits and registers follows the held qubits is C02's invariant; here it is judged by the oracle only",
    "link-layer records written into the result arrays are inputs of the model (recorded at "
    "Executor._store_ent_info), like measurement outcomes and the peer's answer to each send",
    "netqasm's request bookkeeping after a failed entanglement request is modelled by two observations that are "
    "tied on every message: which (create/recv, remote node, socket) keys still have a request record of a finished "
    "subroutine at the head of _epr_create_requests / _epr_recv_requests (the next request on that key fails at the "
    "hand-over) and whether a response is stuck in _pending_epr_responses (then every later hand-over fails)",
    "harness/nqcase.Runner (wrapper around executioner.call_method, tokens by order of appearance), "
    "harness/nqcase.render_instr, harness/simnet (fake reactor, PB over iosim, virtual time for receive polling)",
]
ASSUMPTIONS = [
    "one application at a time per node; the model refuses (`unmodelled`) a second InitNewApp while one is active",
    "measure-directly requests are judged by the oracle only (NqExec models create-and-keep; it answers `unmodelled` to "
    "type M): from the first such request of a case neither node's messages go to the Lean driver",
    "`held` counts virtual qubits at the node; a half delivered by a peer and not yet received is held by the "
    "node but by no application and is subtracted (receive-queue length) before comparing with the baseline",
    "the virtual address given to a pair is free when the pair is delivered and the result array is long enough "
    "(otherwise netqasm polls forever; explicit `blocked` / `unmodelled` in the model, not generated)",
    "the node's register limit is not in the Lean model (NqExec.Node has `cap` only): refusals by it are judged by "
    "the oracle and enter the tie as an observed failing instruction (plain qalloc) or end the node's tie (other)",
]

NAMES = ["Alice", "Bob"]
F13_KEY = "epr-failure-leaks-temporaries"


def other(n):
    return "Bob" if n == "Alice" else "Alice"


MD_KEY = "md-pair-leaves-qubits"
MD_ADDR_KEY = "md-physical-address-not-released"
RANDOM_BASIS = {0: "NONE", 1: "XZ", 2: "XYZ"}     # RandomBasis values simulaqron can measure in (CHSH is refused)
# positions in the create-request argument array (netqasm.sdk.build_epr.SerializedCreateRequestIndex)
ARG_RB_LOCAL, ARG_RB_REMOTE, ARG_P_LOCAL1, ARG_P_LOCAL2, ARG_P_REMOTE1, ARG_P_REMOTE2 = 2, 3, 10, 11, 12, 13


def epr_create_md_text(npairs, remote, rbl=0, rbr=0, probs=(0, 0, 0, 0), sock=0, base=0):
    """create_epr of type M (measure directly) for `npairs` pairs towards node id `remote`: nqcase.epr_create_text with
    type 1 plus the random-basis sets and the basis probabilities (in 1/256) of the two sides; the arrays are those of a
    create-and-keep request (the address array is not looked at for type M)"""
    lines = nqcase.epr_create_text([0] * npairs, remote, sock=sock, base=base, typ=1).split("\n")
    extra = []
    for idx, val in ((ARG_RB_LOCAL, rbl), (ARG_RB_REMOTE, rbr), (ARG_P_LOCAL1, probs[0]), (ARG_P_LOCAL2, probs[1]),
                     (ARG_P_REMOTE1, probs[2]), (ARG_P_REMOTE2, probs[3])):
        if val:
            extra += ["set R0 %d" % val, "set R1 %d" % idx, "store R0 @%d[R1]" % (base + 2)]
    assert lines[-1].startswith("create_epr") and lines[-6] == "set R0 %d" % remote
    return "\n".join(lines[:-6] + extra + lines[-6:])


WRONG_QUEUE_KEY = "half-in-wrong-queue"
RECV_TIMEOUT_KEY = "matched-recv-times-out"


def k_queues(runner, node):
    """{local EPR socket id: number of pair HALVES waiting in that receive queue of the node} (empty queues left out)"""
    out = {}
    for s_ in runner.nq.nodes[node].qubit_recv_epr:
        k = inbox_entries(runner, node, s_).count("K")
        if k:
            out[s_] = k
    return out


def inbox_entries(runner, node, sock=0):
    """what waits in the node's receive queue, in order: 'K' (a pair half: a qubit at this node) or 'M' (the record of a
    measure-directly pair: no qubit)"""
    q = runner.nq.nodes[node].qubit_recv_epr.get(sock) or []
    return ["M" if e.virt_num is None else "K" for e in q]


def counts(runner, node):
    """nqcase.Runner.counts with `inbox` = delivered pair HALVES not yet received (they are qubits held by the node and
    by no application); records of measure-directly pairs wait in the same queue but are no qubits (`records`)"""
    c = runner.counts(node)
    kinds = [k for s_ in runner.nq.nodes[node].qubit_recv_epr for k in inbox_entries(runner, node, s_)]
    c["inbox"] = kinds.count("K")
    c["records"] = kinds.count("M")
    return c


class Gen:
    """adaptive generator of one generation's steps for both nodes"""

    def __init__(self, rng, runner, cap):
        self.rng, self.r, self.cap = rng, runner, cap
        self.retry = {n: [] for n in NAMES}      # addresses whose qalloc the node refused, free as far as WE know

    def free_addrs(self, node):
        um = self.r.unit_module(node) or []
        return [i for i, p in enumerate(um) if p is None]

    def used_addrs(self, node):
        um = self.r.unit_module(node) or []
        return [i for i, p in enumerate(um) if p is not None]

    def local_body(self, node):
        rng = self.rng
        free, used = self.free_addrs(node), self.used_addrs(node)
        kinds = ["alloc"] * 3 if free else []
        if used:
            kinds += ["gates"] * 2 + ["free"] * 2 + ["free1"] * 2 + ["bad-gate", "bad-addr"]
        if len(free) >= 2:
            kinds += ["overflow"]
        if self.retry[node]:
            kinds += ["retry"] * 4
        if not kinds:
            return None, None
        k = rng.choice(kinds)
        if k == "retry":
            # the address the node refused is allocated again, mostly after a qubit was given back (whether that
            # also gives a register back depends on the gates so far); judged in `do` from the node's room
            v = self.retry[node].pop(rng.randrange(len(self.retry[node])))
            lines = []
            if used and rng.random() < 0.6:
                lines += ["set Q1 %d" % rng.choice(used), "qfree Q1"]
            return k, "\n".join(lines + ["set Q0 %d" % v, "qalloc Q0"])
        if k == "alloc":
            n = rng.randrange(1, min(3, len(free)) + 1)
            vs = rng.sample(free, n)
            lines = []
            for v in vs:
                lines += ["set Q0 %d" % v, "qalloc Q0", "init Q0"] + (["h Q0"] if rng.random() < 0.5 else [])
            return k, "\n".join(lines)
        if k == "gates":
            lines = []
            for _ in range(rng.randrange(1, 4)):
                lines += ["set Q0 %d" % rng.choice(used), "%s Q0" % rng.choice(["x", "h", "k", "z"])]
            if len(used) >= 2:
                a, b = rng.sample(used, 2)
                lines += ["set Q0 %d" % a, "set Q1 %d" % b, "cnot Q0 Q1"]
            lines += ["set Q0 %d" % rng.choice(used), "meas Q0 M0", "ret_reg M0"]
            return k, "\n".join(lines)
        if k == "free":
            vs = rng.sample(used, rng.randrange(1, len(used) + 1))
            lines = []
            for v in vs:
                lines += ["set Q0 %d" % v, "qfree Q0"]
            if rng.random() < 0.4:      # re-allocate one of them at once
                lines += ["set Q0 %d" % vs[0], "qalloc Q0", "init Q0"]
            return k, "\n".join(lines)
        if k == "free1":
            return k, "set Q0 %d\nqfree Q0" % rng.choice(used)
        if k == "bad-gate":
            v = rng.choice(used)
            pre = ["set Q0 %d" % v, "x Q0"] if rng.random() < 0.5 else []
            return k, "\n".join(pre + ["set Q0 %d" % v, rng.choice(["t Q0", "rot_x Q0 1 2"]), "x Q0"])
        if k == "bad-addr":
            lines = ["set Q0 %d" % rng.choice(used), "x Q0"]
            if free:
                lines += ["set Q1 %d" % rng.choice(free), rng.choice(["h Q1", "qfree Q1", "meas Q1 M1"])]
            else:
                lines += ["set Q1 %d" % rng.choice(used), "qalloc Q1"]
            return k, "\n".join(lines)
        if k == "overflow":
            lines = []
            for v in free:                 # more than the node may be able to hold
                lines += ["set Q0 %d" % v, "qalloc Q0"]
            return k, "\n".join(lines)
        return None, None


def track(prog, upto, mine):
    """our own view of which virtual addresses a straight-line LOCAL subroutine leaves allocated: `mine` after the
    first `upto` instructions (all of them succeeded; the next one, if any, raised and must have changed nothing)"""
    regs = {}
    mine = set(mine)
    for i in prog[:upto]:
        m = i.mnemonic
        if m == "set":
            regs[nqcase._reg(i.reg)] = i.imm.value
        elif m == "qalloc":
            mine.add(regs[nqcase._reg(i.reg)])
        elif m == "qfree":
            mine.discard(regs[nqcase._reg(i.reg)])
    return mine, regs


class _Stopped(Exception):
    """the harness had to stop the real execution of a message (nqcase.Runner's guards): the case ends here"""


def run_case(case, gen_rng=None, res=None):
    """case = {seed, cap, maxq, gens: [[step, ...], ...]}; a step is [node, kind, ...].  With gen_rng the steps
    are generated and recorded.  -> (violations [(key, what, (generation, step index))], runner)
    Every subroutine here is straight-line (one instruction executed per line).  netqasm's executor has no step
    bound and runs in this process, so nqcase.Runner stops a message after 50 x as many instructions as the
    subroutine has (at least nqcase.INSN_FLOOR) or nqcase.WALL_LIMIT seconds; that is the violation
    `nonterminating-subroutine` and ends the case."""
    cap = case["cap"]
    NAMES = case.get("names") or globals()["NAMES"]      # (3-node socket histories name their nodes; default Alice, Bob)
    runner = nqcase.Runner(NAMES, cap, random.Random(case["seed"]), max_regs=case.get("regs"),
                           insn_limit=lambda prog: nqcase.insn_limit_for(len(prog) if prog is not None else 0))
    mine = {n: None for n in NAMES}       # addresses the node's application holds, as WE know (None: unknown)
    used0 = {n: set() for n in NAMES}     # physical addresses already marked used when the application started
    # our own account of the EPR sockets (it outlives the applications, like the node's socket table): what the LAST
    # OpenEPRSocket of a node said about a local socket id, and how many pair halves wait for whom on which socket
    table = {n: {} for n in NAMES}        # node -> local socket id -> (peer name, peer's socket id)
    expect = {n: {} for n in NAMES}       # node -> local socket id -> halves delivered for it and not yet received
    epr_failed = {n: False for n in NAMES}    # an entanglement subroutine of the node has failed earlier in this case
    got_half = {n: False for n in NAMES}      # the node's last receive request succeeded and took a pair half

    def legit(n):
        """halves waiting at n in the queue they were sent for (by our own account): held by the node, by no application"""
        act = k_queues(runner, n)
        return sum(min(k, expect[n].get(s_, 0)) for s_, k in act.items())

    def queues_as_expected(where, after):
        for n in NAMES:
            act, want = k_queues(runner, n), {s_: k for s_, k in expect[n].items() if k}
            if act != want:
                add(WRONG_QUEUE_KEY, "%s: pair halves waiting at %s per local EPR socket id: %s; by the OpenEPRSocket messages "
                    "and the create / receive requests so far they should be %s (socket tables as last opened: %s)"
                    % (after, n, act, want, {m: {s_: "%s:%d" % t for s_, t in table[m].items()} for m in NAMES}), where)
                expect[n] = dict(act)        # reported once
    node_id = runner.node_id
    viol = []
    gens_out = []
    g = Gen(gen_rng, runner, cap) if gen_rng is not None else None
    ngens = case["ngens"] if gen_rng is not None else len(case["gens"])

    def add(key, what, where):
        viol.append((key, what, where))

    def send(where, node, kind, **kw):
        rec = runner.send(node, kind, **kw)
        ab = rec["aborted"]
        if ab:
            n = len(rec["prog"]) if rec["prog"] is not None else 0
            how = ("had started %d instructions when the harness stopped it" % ab["insns"] if ab["guard"] == "insn" else
                   "was still busy after %.0f s of wall-clock time (%d instructions started)" % (ab["seconds"], ab["insns"]))
            add(nqcase.NONTERM_KEY, "%s: %s message%s: the real executor %s; operations so far %s; outcomes so far %s"
                % (node, kind, " (straight-line subroutine of %d instructions: %s)" % (n, nqcase.render_prog(rec["prog"])) if n else "",
                   how, [nqcase.show_op(o) for o in rec["ops"][:12]], nqcase.bits(rec["outs"][:24])), where)
            raise _Stopped()
        return rec

    for gi in range(ngens):
        steps = [] if gen_rng is not None else list(case["gens"][gi])
        base = {n: counts(runner, n) for n in NAMES}
        base_legit = {n: legit(n) for n in NAMES}
        f13 = {n: False for n in NAMES}
        active = {n: None for n in NAMES}
        stopped = {n: False for n in NAMES}
        si = 0

        def do(step):
            """execute one step, judge what can be judged locally; returns the record"""
            node, kind = step[0], step[1]
            # steps of socket histories name the local socket id (and, on 3 nodes, the peer):
            #   [node, "open", sock, peer's sock(, peer)]   [node, "sub", "create"|"recv", body, sock(, peer)]
            named = step[4] if kind == "open" and len(step) > 4 else step[5] if kind == "sub" and len(step) > 5 else None
            peer = named or [m for m in NAMES if m != node][0]
            others = [m for m in NAMES if m != node]
            where = (gi, len(steps) if gen_rng is not None else si)
            if kind == "init":
                active[node] = step[2]
                mine[node] = set()
                got_half[node] = False
                rec = send(where, node, "init", app=step[2], maxq=step[3])
                used0[node] = set(runner.executor(node)._used_physical_qubit_addresses)
                if [x[0] for x in rec["replies"]] != ["MsgDoneMessage"]:
                    add("init-reply", "InitNewApp(app %d) on %s answered %s" % (step[2], node, [x[0] for x in rec["replies"]]), where)
                return rec
            if kind == "open":
                sock, rsock = (step[2], step[3]) if len(step) > 3 else (0, 0)
                table[node][sock] = (peer, rsock)
                rec = send(where, node, "open", app=active[node], sock=sock, remote=node_id[peer], remote_sock=rsock)
                if [x[0] for x in rec["replies"]] != ["MsgDoneMessage"]:
                    add("open-reply", "OpenEPRSocket(%d -> %s:%d) on %s answered %s" % (sock, peer, rsock, node, [x[0] for x in rec["replies"]]), where)
                return rec
            if kind == "stop":
                before_peer = {m: counts(runner, m) for m in others}
                rec = send(where, node, "stop", app=active[node])
                stopped[node] = True
                mine[node] = None
                if g is not None:
                    g.retry[node] = []
                after_peer = {m: counts(runner, m) for m in others}
                if [x[0] for x in rec["replies"]] != ["MsgDoneMessage"]:
                    add("stop-reply", "StopApp on %s answered %s (%s)" % (node, [x[0] for x in rec["replies"]],
                                                                       [e[:80] for e in rec["errors"]][:1]), where)
                for m in others:
                    if (before_peer[m]["virt"], before_peer[m]["inbox"]) != (after_peer[m]["virt"], after_peer[m]["inbox"]):
                        add("stop-touches-peer", "StopApp on %s changed %s from %s to %s" % (node, m, before_peer[m], after_peer[m]), where)
                now = counts(runner, node)
                b = base[node]
                # a half that waits in a queue it was not sent for can be received by nobody who asks for it: it is not
                # excused as "delivered, not yet received" (`legit`: our own account of the queues, per socket)
                lg = legit(node)
                if (now["qubitList"] != b["qubitList"] or now["virt"] - now["inbox"] != b["virt"] - b["inbox"]
                        or now["virt"] - lg != b["virt"] - base_legit[node]):
                    key = F13_KEY if f13[node] else "stop-leaves-qubits"
                    add(key, "%s after StopApp: %s, before the application: %s%s" % (
                        node, now, b, "" if lg == now["inbox"] else "; of the %d halves in its receive queues only %d wait on the "
                        "socket they were sent for (queues %s, sent for %s)" % (now["inbox"], lg, k_queues(runner, node),
                                                                               {s_: k for s_, k in expect[node].items() if k})), where)
                return rec
            # subroutines
            app = active[node]
            sub = step[2]
            sock = step[4] if len(step) > 4 else 0
            before = counts(runner, node)
            before_peer = counts(runner, peer)
            inbox_before = inbox_entries(runner, node, sock)
            waiting_before = expect[node].get(sock, 0)
            used_before = set(runner.executor(node)._used_physical_qubit_addresses)
            um_before = list(runner.unit_module(node) or [])
            ql_before = sorted(runner.nq.facs[node].qubitList)
            nd = runner.nq.nodes[node]
            if sub == "create-m":
                # the Lean driver answers `unmodelled` to a measure-directly request (NqExec.lean: typ != 0) and the
                # peer's model would never see the record that arrives: both nodes leave the tie for the rest of the
                # case; the oracle below still judges every message
                for m in NAMES:
                    runner.offmodel[m] = True
            rec = send(where, node, "sub", app=app, body=step[3], note=sub)
            if not rec["quiescent"]:
                add("hang", "%s did not become quiescent after a %s subroutine" % (node, sub), where)
            failed = "ErrorMessage" in [x[0] for x in rec["replies"]]
            if any(o[0] == "new" for o in rec["ops"]):
                runner.created_any = True      # (nodes outside the tie leave no driver lines to read this from)
            if res is not None:
                res.count("sub:%s:%s" % (sub, "error" if failed else "ok"))
                for cause, _ign in rec["refused"]:
                    res.count("new-qubit-refused:%s:%s" % ("pair" if sub in ("create", "create-m", "recv") else "qalloc", cause))
            # ---- our own account of the unit module (local subroutines are straight-line)
            um_now = list(runner.unit_module(node) or [])
            mapped = set(i for i, p in enumerate(um_now) if p is not None)
            if sub in ("create", "create-m", "recv"):
                mine[node] = None if (failed or mine[node] is None) else mapped
            elif mine[node] is not None:
                at = runner.failing_line(rec) if failed else len(rec["prog"])
                if at is None:
                    mine[node] = None
                else:
                    mine[node], regs = track(rec["prog"], at, mine[node])
                    if mapped != mine[node] and not f13[node]:
                        extra = sorted(mapped - mine[node])
                        add("alloc-bookkeeping", "%s after a %s subroutine%s: the unit module maps addresses %s, the "
                            "application holds %s%s" % (node, sub, " that failed at line %d" % at if failed else "",
                                                       sorted(mapped), sorted(mine[node]),
                                                       " (no qubit behind %s: %s not in qubitList)" % (extra, [um_now[v] for v in extra])
                                                       if any(um_now[v] not in runner.nq.facs[node].qubitList for v in extra) else ""), where)
                    used_now = set(runner.executor(node)._used_physical_qubit_addresses)
                    phys = set(p for p in um_now if p is not None)
                    if mapped == mine[node] and used_now != phys | used0[node] and not f13[node]:
                        add("alloc-bookkeeping", "%s after a %s subroutine%s: physical addresses marked used %s, mapped by "
                            "the unit module %s%s" % (node, sub, " that failed at line %d" % at if failed else "",
                                                      sorted(used_now), sorted(phys),
                                                      ", left over from earlier applications (F13) %s" % sorted(used0[node])
                                                      if used0[node] else ""), where)
                    if failed and rec["refused"] and rec["prog"][at].mnemonic == "qalloc" and g is not None:
                        v = regs.get(nqcase._reg(rec["prog"][at].reg))
                        if v is not None and v not in g.retry[node]:
                            g.retry[node].append(v)      # refused by the NODE (qubit or register limit): try again later
            if g is not None and mine[node] is not None:
                g.retry[node] = [v for v in g.retry[node] if v not in mine[node]]
            if sub == "retry" and failed and mine[node] is not None and not f13[node]:
                # a refused qalloc changes nothing at the virtual node, so the node's room now is the room the
                # qalloc found; our own account says the address is free
                at = runner.failing_line(rec)
                now = counts(runner, node)
                v = int(step[3].split("\n")[-2].split()[2])
                if (at == len(rec["prog"]) - 1 and v not in mine[node] and now["virt"] < nd.maxQubits
                        and nd.numRegs < nd.maxRegs):
                    add("address-not-reusable", "%s: qalloc of address %d fails (%s) although the application does not "
                        "hold that address and the node has room (%d of %d qubits, %d of %d registers)"
                        % (node, v, [e[:80] for e in rec["errors"]][:1], now["virt"], nd.maxQubits, nd.numRegs, nd.maxRegs), where)
            if sub in ("create", "create-m", "recv") and failed and any(o[0] in ("new", "claim") for o in rec["ops"]):
                f13[node] = True
            if sub in ("create", "create-m", "recv") and not failed and not f13[node]:
                # netqasm reserves a physical address per pair of a request (_get_unused_physical_qubit); when the request
                # is done, the addresses it reserved are mapped by the unit module or free again
                taken = inbox_before[:len(inbox_before) - len(inbox_entries(runner, node, sock))] if sub == "recv" else []
                used_now = set(runner.executor(node)._used_physical_qubit_addresses)
                stray = (used_now - used_before) - set(p for p in um_now if p is not None)
                if stray:
                    md = sub == "create-m" or "M" in taken
                    add(MD_ADDR_KEY if md else "alloc-bookkeeping",
                        "%s after a %s subroutine%s that was answered without error: physical addresses %s stay marked used "
                        "although the unit module %s maps none of them%s" % (
                            node, sub, " (measure-directly records received)" if sub == "recv" and md else "", sorted(stray), um_now,
                            "; no qfree / StopApp can release them (Executor._used_physical_qubit_addresses only shrinks when a "
                            "mapped address is freed)" if md else ""), where)
                    used0[node] |= stray          # reported once; the local-subroutine clause above would repeat it
            # ---- our own account of the receive queues, per socket: a half goes to the peer and the peer's socket that the
            # creator's LAST OpenEPRSocket for the local socket named; a receive request takes from its own socket's queue
            if sub == "create":
                ent = table[node].get(sock)
                sent = sum(1 for o in rec["ops"] if o[0] == "send" and o[2])
                if ent is not None:
                    expect[ent[0]][ent[1]] = expect[ent[0]].get(ent[1], 0) + sent
                queues_as_expected(where, "after a create subroutine of %s for socket %d (%d halves sent)" % (node, sock, sent))
            if sub == "recv":
                got = inbox_before.count("K") - inbox_entries(runner, node, sock).count("K")
                taken_k = ["K"] * got
                expect[node][sock] = max(0, waiting_before - got)
                queues_as_expected(where, "after a receive subroutine of %s on socket %d (%d halves taken)" % (node, sock, got))
                if (failed and got == 0 and waiting_before > 0 and not epr_failed[node] and not inbox_before[:1] == ["M"]
                        and any("TIMEOUT" in e for e in rec["errors"])):
                    add(RECV_TIMEOUT_KEY, "%s: recv_epr on socket %d timed out without taking a half although %d half(es) "
                        "were sent for that socket and not received yet (queues of %s: %s)"
                        % (node, sock, waiting_before, node, k_queues(runner, node)), where)
            if sub in ("create", "create-m", "recv") and failed:
                epr_failed[node] = True
            if sub == "create-m" and not failed:
                # a measure-directly pair is measured at once: when the request is done no qubit of it remains anywhere
                now, now_peer = counts(runner, node), counts(runner, peer)
                made = sum(1 for o in rec["ops"] if o[0] == "new")
                if res is not None:
                    res.count("md-pairs", made // 2)
                for who, a, b in ((node, before, now), (peer, before_peer, now_peer)):
                    if any(a[k] != b[k] for k in ("virt", "sim", "regs", "qubitList", "inbox")):
                        add(MD_KEY, "%s: a measure-directly request of %s for %d pair(s) was answered without error and "
                            "left qubits at %s: before %s, after %s (the executioner holds no handle to them: qubitList %s)"
                            % (node, node, made // 2, who, a, b, sorted(runner.nq.facs[who].qubitList)), where)
            if sub == "free1" and not failed:
                now = counts(runner, node)
                um_now = list(runner.unit_module(node) or [])
                ql_now = sorted(runner.nq.facs[node].qubitList)
                v = int(step[3].split("\n")[0].split()[2])
                want_um = list(um_before)
                want_um[v] = None
                want_ql = [k for k in ql_before if k != um_before[v]]
                if now["virt"] != before["virt"] - 1 or um_now != want_um or ql_now != want_ql:
                    add("free-removes-one", "%s: qfree of address %d: held %d -> %d, unit module %s -> %s, qubitList "
                        "%s -> %s" % (node, v, before["virt"], now["virt"], um_before, um_now, ql_before, ql_now), where)
            if sub == "recv":
                got_half[node] = (not failed) and "K" in taken_k
            if sub == "use-half" and failed and got_half[node]:
                # (judged only when the node's last receive request was answered without error and took a half)
                add("delivered-half-lost", "%s could not measure the half it received (%s)" % (node, [e[:80] for e in rec["errors"]][:1]), where)
            return rec

        halted = False
        try:
            if gen_rng is None:
                for si, step in enumerate(steps):
                    do(step)
            else:
                rng = gen_rng
                plan_nodes = [n for n in NAMES if rng.random() < 0.85] or [rng.choice(NAMES)]
                maxq = {n: rng.randrange(2, 5) for n in NAMES}
                app_id = {n: rng.randrange(3) for n in NAMES}
                pending = {n: 0 for n in NAMES}            # halves delivered to n and not yet received (this generation)
                # EPR socket ids of this generation: Alice's local id sk[Alice] is paired with Bob's sk[Bob].  `socks`
                # cases draw them afresh per generation, so a local id is re-opened towards another (or the same) remote id
                sk = {n: (rng.randrange(3) if case.get("socks") else 0) for n in NAMES}

                def step(*s):
                    s = list(s)
                    try:
                        rec = do(s)
                    finally:
                        steps.append(s)       # also when the harness stopped it: the replay needs the step
                    return rec
                for n in plan_nodes:
                    step(n, "init", app_id[n], maxq[n])
                    if case.get("socks"):
                        step(n, "open", sk[n], sk[other(n)])
                    else:
                        step(n, "open")
                live = list(plan_nodes)
                budget = rng.randrange(2, 9)
                while live:
                    n = rng.choice(live)
                    peer = other(n)
                    choices = ["local"] * 4
                    if budget <= 0:
                        choices = ["stop"]
                    else:
                        choices += ["stop"]
                        free = g.free_addrs(n)
                        if free:
                            room = (counts(runner, n)["virt"] + 2 <= cap) and (counts(runner, peer)["virt"] + 1 <= cap)
                            room = room and runner.nq.nodes[n].numRegs + 2 <= runner.nq.nodes[n].maxRegs   # two fresh qubits
                            if room or rng.random() < 0.12:   # mostly when both ends have room (else: F13 class)
                                choices += ["create"] * 3
                            if pending[n] > 0:
                                choices += ["recv"] * 5
                            elif rng.random() < 0.08:
                                choices += ["recv"]          # nothing was sent: time-out
                        if case.get("md"):
                            room = counts(runner, n)["virt"] + 2 <= cap and runner.nq.nodes[n].numRegs + 2 <= runner.nq.nodes[n].maxRegs
                            if room or rng.random() < 0.1:    # without room for the two temporary qubits: F13 class
                                choices += ["create-m"] * 3
                    c = rng.choice(choices)
                    budget -= 1
                    if c == "stop":
                        step(n, "stop")
                        live.remove(n)
                    elif c == "local":
                        k, body = g.local_body(n)
                        if body:
                            step(n, "sub", k, body)
                    elif c == "create":
                        free = g.free_addrs(n)
                        npairs = 1 if len(free) < 2 or rng.random() < 0.7 else 2
                        vs = rng.sample(free, npairs)
                        if rng.random() < 0.08:
                            vs[0] = maxq[n] + 1               # address outside the unit module: hand-over fails
                        rec = step(n, "sub", "create", nqcase.epr_create_text(vs, node_id[peer], sock=sk[n]), sk[n])
                        pending[peer] += sum(1 for o in rec["ops"] if o[0] == "send" and o[2])
                    elif c == "create-m":
                        npairs = 1 if rng.random() < 0.6 else 2
                        rbl, rbr = rng.randrange(3), rng.randrange(3)
                        pl = [rng.randrange(0, 129), rng.randrange(0, 129)]        # 1/256; p1 + p2 <= 256 for XYZ
                        pr = [rng.randrange(0, 129), rng.randrange(0, 129)]
                        before_in = len(inbox_entries(runner, peer, sk[peer]))
                        step(n, "sub", "create-m", epr_create_md_text(npairs, node_id[peer], rbl, rbr, pl + pr, sock=sk[n]), sk[n])
                        pending[peer] += len(inbox_entries(runner, peer, sk[peer])) - before_in
                    elif c == "recv":
                        free = g.free_addrs(n)
                        npairs = 1 if pending[n] < 2 or len(free) < 2 or rng.random() < 0.6 else 2
                        vs = rng.sample(free, npairs)
                        taken = inbox_entries(runner, n, sk[n])[:npairs]      # the i-th pair of the request gets the i-th entry
                        rec = step(n, "sub", "recv", nqcase.epr_recv_text(vs, node_id[peer], sock=sk[n]), sk[n])
                        got = sum(1 for o in rec["ops"] if o[0] == "claim")
                        pending[n] -= got
                        ok = "ErrorMessage" not in [x[0] for x in rec["replies"]]
                        if ok and "K" in taken:
                            step(n, "sub", "use-half", "set Q0 %d\nmeas Q0 M0\nret_reg M0" % vs[taken.index("K")])
        except _Stopped:
            halted = True
        gens_out.append(steps)
        if halted:
            break              # no consistency checks on a network the harness interfered with
        # ---- network-wide consistency once everything of this generation is over
        tot = {k: sum(counts(runner, n)[k] for n in NAMES) for k in ("virt", "sim", "inbox")}
        if tot["virt"] != tot["sim"]:
            add("sim-held-mismatch", "after generation %d: %d held qubits, %d simulated qubits" % (gi, tot["virt"], tot["sim"]), (gi, -1))
        for n in NAMES:
            c = counts(runner, n)
            if c["sim"] == 0 and c["regs"] != 0:
                add("register-left", "%s has no simulated qubit but %d registers" % (n, c["regs"]), (gi, -1))
        if not runner.nq.all_locks_free():
            add("locks-held", "a lock is still held after generation %d" % gi, (gi, -1))
    if gen_rng is not None:
        case["gens"] = gens_out
    return viol, runner


def shrink(case, key):
    def shows(c):
        try:
            v, _ = run_case(c)
        except Exception:
            return False
        return any(k == key for k, _w, _i in v)

    best = {k: v for k, v in case.items() if k != "ngens"}
    v, _ = run_case(best)
    hit = [w for k, _w, w in v if k == key]
    if hit:
        best["gens"] = best["gens"][:hit[0][0] + 1]
    # drop whole generations, then single subroutine steps
    changed = True
    while changed:
        changed = False
        for i in range(len(best["gens"]) - 1):
            c = dict(best, gens=best["gens"][:i] + best["gens"][i + 1:])
            if shows(c):
                best, changed = c, True
                break
    # a node's whole application (init .. stop) of one generation
    for gi in range(len(best["gens"])):
        for n in (best.get("names") or NAMES):
            gens = [list(x) for x in best["gens"]]
            gens[gi] = [s for s in gens[gi] if s[0] != n]
            if gens[gi] and len(gens[gi]) < len(best["gens"][gi]):
                c = dict(best, gens=gens)
                if shows(c):
                    best = c
    changed = True
    while changed:
        changed = False
        for gi, steps in enumerate(best["gens"]):
            for si, s in enumerate(steps):
                if s[1] != "sub":
                    continue
                gens = [list(x) for x in best["gens"]]
                del gens[gi][si]
                c = dict(best, gens=gens)
                if shows(c):
                    best, changed = c, True
                    break
            if changed:
                break
    return best


def socket_history(rng, three=False):
    """A directed case (explicit steps, as in a replay): 2-4 application generations whose EPR sockets vary.  Each
    generation opens 1-2 links (node a's local socket sa <-> node b's local socket sb, OpenEPRSocket on both sides);
    a link mostly RE-USES a local socket id of an earlier generation towards another remote socket id (or, on three
    nodes, another remote node), sometimes re-opens an earlier link unchanged (control) or is fresh.  Over every link
    1-2 pairs are created and kept in one or both directions, received, measured and freed by the receiver; the
    creator frees its halves or leaves them to StopApp; the applications stop in any order.  Nothing is left over by
    a generation, so every clause of the oracle applies with an empty receive queue as the baseline."""
    names = ["Alice", "Bob", "Charlie"] if three else list(NAMES)
    nid = {n: i for i, n in enumerate(sorted(names))}
    cap, maxq = 6, 4
    last = {n: {} for n in names}          # node -> local socket -> (peer, peer's socket) as last opened
    gens = []
    for _gi in range(rng.randrange(2, 5)):
        links, busy = [], set()
        for _l in range(rng.choice([1, 1, 2])):
            for _try in range(8):
                mode = rng.choice(["reuse", "reuse", "reuse", "same", "fresh"])
                known = [(a, sa) for a in names for sa in sorted(last[a])]
                if mode != "fresh" and known:
                    a, sa = rng.choice(known)
                    b0, sb0 = last[a][sa]
                    if mode == "same":
                        b, sb = b0, sb0
                    else:
                        b = rng.choice([m for m in names if m != a])
                        sb = rng.choice([x for x in range(3) if (b, x) != (b0, sb0)])
                else:
                    a, b = rng.sample(names, 2)
                    sa, sb = rng.randrange(3), rng.randrange(3)
                if (a, sa) in busy or (b, sb) in busy:
                    continue
                busy |= {(a, sa), (b, sb)}
                links.append((a, sa, b, sb))
                break
        if not links:
            continue
        nodes = sorted(set(n for (a, _sa, b, _sb) in links for n in (a, b)))
        rng.shuffle(nodes)
        steps = [[n, "init", rng.randrange(3), maxq] for n in nodes]
        opens = []
        for (a, sa, b, sb) in links:
            opens += [[a, "open", sa, sb, b], [b, "open", sb, sa, a]]
            last[a][sa], last[b][sb] = (b, sb), (a, sa)
        rng.shuffle(opens)
        steps += opens
        free = {n: list(range(maxq)) for n in nodes}
        creates, recvs = [], []
        for (a, sa, b, sb) in links:
            dirs = rng.choice([[(a, sa, b, sb)], [(b, sb, a, sa)], [(a, sa, b, sb), (b, sb, a, sa)]])
            for (c, sc, r, sr) in dirs:
                k = 1 if rng.random() < 0.7 else 2
                if len(free[c]) < k or len(free[r]) < k:
                    continue
                vc = [free[c].pop(rng.randrange(len(free[c]))) for _ in range(k)]
                vr = [free[r].pop(rng.randrange(len(free[r]))) for _ in range(k)]
                creates.append([[c, "sub", "create", nqcase.epr_create_text(vc, nid[r], sock=sc), sc, r]])
                after = [[r, "sub", "recv", nqcase.epr_recv_text(vr, nid[c], sock=sr), sr, c]]
                for v in vr:
                    after.append([r, "sub", "use-half", "set Q0 %d\nmeas Q0 M0\nret_reg M0" % v])
                    after.append([r, "sub", "free1", "set Q0 %d\nqfree Q0" % v])
                for v in vc:
                    if rng.random() < 0.6:
                        after.append([c, "sub", "free1", "set Q0 %d\nqfree Q0" % v])
                recvs.append(after)
        if rng.random() < 0.5:                 # all requests first, then all receives; else link by link
            blocks = creates + recvs
        else:
            blocks = [x for pair in zip(creates, recvs) for x in pair]
        for blk in blocks:
            steps += blk
        stops = [[n, "stop"] for n in nodes]
        rng.shuffle(stops)
        gens.append(steps + stops)
    case = {"seed": rng.randrange(1 << 30), "cap": cap, "gens": gens}
    if three:
        case["names"] = names
    return case


def f13_witness(cap=2):
    """[fill the receiver; create_keep 1; stop]: the counter-history of `stop_restores_baseline_counterexample`"""
    fill = "\n".join("set Q0 %d\nqalloc Q0" % v for v in range(cap))
    return {"seed": 13, "cap": cap, "gens": [[
        ["Bob", "init", 0, cap], ["Bob", "sub", "alloc", fill],
        ["Alice", "init", 0, cap], ["Alice", "open"],
        ["Alice", "sub", "create", nqcase.epr_create_text([0], 1)],
        ["Alice", "stop"], ["Bob", "stop"]]]}


FIXED = [
    # a delivered half survives the creator's stop and is measured afterwards; next generation sees full capacity
    {"seed": 1, "cap": 2, "gens": [
        [["Alice", "init", 0, 2], ["Alice", "open"], ["Bob", "init", 0, 2], ["Bob", "open"],
         ["Alice", "sub", "create", nqcase.epr_create_text([1], 1)], ["Alice", "stop"],
         ["Bob", "sub", "recv", nqcase.epr_recv_text([0], 0)], ["Bob", "sub", "use-half", "set Q0 0\nmeas Q0 M0\nret_reg M0"],
         ["Bob", "stop"]],
        [["Alice", "init", 0, 2], ["Alice", "sub", "alloc", "set Q0 0\nqalloc Q0\nset Q0 1\nqalloc Q0"], ["Alice", "stop"],
         ["Bob", "init", 1, 2], ["Bob", "sub", "alloc", "set Q0 0\nqalloc Q0\nset Q0 1\nqalloc Q0"], ["Bob", "stop"]]]},
    # more allocations than the node holds, in an order that puts the failing address first in the unit module
    {"seed": 2, "cap": 2, "gens": [
        [["Alice", "init", 0, 4], ["Alice", "sub", "overflow", "set Q0 2\nqalloc Q0\nset Q0 3\nqalloc Q0\nset Q0 0\nqalloc Q0"],
         ["Alice", "sub", "free1", "set Q0 3\nqfree Q0"], ["Alice", "stop"]],
        [["Alice", "init", 0, 2], ["Alice", "sub", "alloc", "set Q0 0\nqalloc Q0\nset Q0 1\nqalloc Q0"], ["Alice", "stop"]]]},
    # register limit 1 below the qubit capacity 3: the second qalloc is refused by the REGISTER limit; the refused
    # address is allocated after the first qubit was given back; stop with a refusal as the last thing; next generation
    {"seed": 3, "cap": 3, "regs": 1, "gens": [
        [["Alice", "init", 0, 3], ["Alice", "sub", "overflow", "set Q0 0\nqalloc Q0\nset Q0 1\nqalloc Q0"],
         ["Alice", "sub", "retry", "set Q1 0\nqfree Q1\nset Q0 1\nqalloc Q0"],
         ["Alice", "sub", "overflow", "set Q0 2\nqalloc Q0"], ["Alice", "stop"]],
        [["Alice", "init", 1, 2], ["Alice", "sub", "alloc", "set Q0 1\nqalloc Q0\ninit Q0"], ["Alice", "sub", "free1", "set Q0 1\nqfree Q0"],
         ["Alice", "sub", "alloc", "set Q0 0\nqalloc Q0"], ["Alice", "stop"]]]},
    # measure-directly pairs (2, bases XZ / XYZ) while the creator also holds a qubit; the records are received; a
    # second request is never received; the next generation uses the full capacity of both nodes
    {"seed": 4, "cap": 3, "md": True, "gens": [
        [["Alice", "init", 0, 3], ["Alice", "open"], ["Bob", "init", 0, 3], ["Bob", "open"],
         ["Alice", "sub", "alloc", "set Q0 2\nqalloc Q0\ninit Q0\nh Q0"],
         ["Alice", "sub", "create-m", epr_create_md_text(2, 1, 1, 2, (128, 0, 64, 64))],
         ["Bob", "sub", "recv", nqcase.epr_recv_text([0, 1], 0)],
         ["Bob", "sub", "create-m", epr_create_md_text(1, 0, 0, 0)],
         ["Alice", "stop"], ["Bob", "stop"]],
        [["Alice", "init", 1, 3], ["Alice", "sub", "alloc", "set Q0 0\nqalloc Q0\nset Q0 1\nqalloc Q0\nset Q0 2\nqalloc Q0"], ["Alice", "stop"],
         ["Bob", "init", 0, 3], ["Bob", "sub", "alloc", "set Q0 0\nqalloc Q0\nset Q0 1\nqalloc Q0\nset Q0 2\nqalloc Q0"], ["Bob", "stop"]]]},
]


def run(ctx):
    core.scratch_repo()
    res = core.Result()
    res.rule = ("one case = fresh 2-node network (capacity 2-5 per node), 1-5 generations; per generation each node "
                "runs one application of 2-8 random steps (local alloc/gates/free/failing subroutines, create / receive "
                "of 1-2 pairs incl. unmatched, receiver full, bad address, receive time-out), stops in any order; "
                "30% of the cases with measure-directly requests (1-2 pairs, bases NONE/XZ/XYZ, records received or not; "
                "oracle only: both nodes leave the tie at the first one); "
                "40% of the cases with EPR socket ids (0-2 on either side) drawn afresh per generation; "
                "socket histories (2 nodes, every 4th on 3 nodes): 2-4 generations of 1-2 links each that re-use a local "
                "socket id towards another remote socket id / node (or the same: control), 1-2 kept pairs per link in one "
                "or both directions, received, measured, freed, StopApp in any order; "
                "40% of the cases on nodes with register limit 1-3 below the qubit capacity (qalloc / pair creation "
                "refused by the register limit at any point, later re-allocation of the refused address, StopApp); "
                "the Lean model's node has no register limit: a plain qalloc refused by it is shown to the driver as an "
                "instruction that raises without effect (the tie then demands exact roll-back on every later message), "
                "any other register-limit refusal (pair creation, merge) takes the node out of the tie from that "
                "message on -- oracle only (every message answered, counts back to baseline, unit module = the "
                "addresses the application holds, refused address re-usable); "
                "plus the fixed F13 witness; non-trivial = some qubit was created; distinct by step list")
    rng = ctx.rng
    all_lines = []
    found = {}

    def handle(case, viol, runner):
        made = getattr(runner, "created_any", False) or any("new:" in w for n in runner.names for (_l, w, _d) in runner.lines[n])
        res.case({k: case[k] for k in ("cap", "regs", "md", "names", "gens") if k in case}, nontrivial=made)
        res.count("cases")
        if case.get("regs") is not None:
            res.count("cases:register-limit")
        if any(s_[1] == "sub" and s_[2] == "create-m" for g_ in case["gens"] for s_ in g_):
            res.count("cases:measure-directly")
        res.count("tie:refusal-shown-as-failing-instruction", runner.substituted)
        res.count("tie:messages-oracle-only", sum(runner.untied.values()))
        res.count("generations", len(case["gens"]))
        res.count("messages", sum(len(s) for s in case["gens"]))
        for key, what, _w in viol:
            if key not in found:
                found[key] = (case, what)
        for n in runner.names:
            all_lines.extend(runner.lines[n])

    if ctx.replay:
        case = ctx.replay["input"]
        viol, runner = run_case(case)
        handle(case, viol, runner)
    else:
        w = f13_witness()
        viol, runner = run_case(w)
        handle(w, viol, runner)
        if not any(k == F13_KEY for k, _w, _i in viol):
            res.notes.append("the F13 witness [fill receiver; create_keep 1; stop] no longer leaks: finding %s is stale" % F13_KEY)
        for case in FIXED:
            case = dict(case)
            viol, runner = run_case(case, res=res)
            handle(case, viol, runner)
        n = ctx.scale(450, 6000)
        for _ in range(n):
            case = {"seed": rng.randrange(1 << 30), "cap": rng.choice([2, 3, 3, 4, 5]), "ngens": rng.randrange(1, 6)}
            if rng.random() < 0.4:
                case["regs"] = rng.randrange(1, min(3, case["cap"] - 1) + 1)
            if rng.random() < 0.3:
                case["md"] = True          # measure-directly requests among the steps: oracle only from the first one on
            if rng.random() < 0.4:
                case["socks"] = True       # EPR socket ids drawn afresh (0-2 on either side) in every generation
            viol, runner = run_case(case, gen_rng=random.Random(rng.randrange(1 << 30)), res=res)
            case.pop("ngens", None)
            case.pop("socks", None)
            if any(s_[1] == "open" and len(s_) > 2 for g_ in case["gens"] for s_ in g_):
                res.count("cases:socket-ids-vary")
            handle(case, viol, runner)
        # socket histories: generations that re-open a local EPR socket id towards another remote socket id / node
        srng = random.Random(rng.randrange(1 << 30))
        for i in range(ctx.scale(90, 1500)):
            case = socket_history(srng, three=(i % 4 == 3))
            if not case["gens"]:
                continue
            viol, runner = run_case(case, res=res)
            res.count("cases:socket-history:%d-nodes" % len(runner.names))
            reopened = set()
            seen = {}
            for g_ in case["gens"]:
                for s_ in g_:
                    if s_[1] == "open":
                        k_ = (s_[0], s_[2])
                        if k_ in seen:
                            reopened.add("same" if seen[k_] == (s_[4], s_[3]) else "other-socket" if seen[k_][0] == s_[4] else "other-node")
                        seen[k_] = (s_[4], s_[3])
            for r_ in reopened:
                res.count("socket-history:local-id-reopened:%s" % r_)
            handle(case, viol, runner)

    for key, (case, what) in sorted(found.items()):
        if key == F13_KEY and not ctx.replay:
            small = f13_witness()
        else:
            small = shrink(case, key)
        v, _ = run_case(small)
        ws = [x for k, x, _i in v if k == key]
        res.violation(key, ws[0] if ws else what, small)

    if ctx.lean_ok and all_lines:
        out = core.lean_run("nqexec", [l for l, _w, _d in all_lines])
        for got, (line, want, desc) in zip(out, all_lines):
            res.traces += 1
            if got != want:
                res.tie_break("NqExec model vs QNodeOS/executioner", {"line": line, **desc}, got, want)
                if len(res.tie_breaks) > 20:
                    break
    return res


def search(ctx, res, broken):
    res.notes.append("targeted search = the count oracle over all generated histories plus the fixed F13 witness")

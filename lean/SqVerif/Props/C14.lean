import SqVerif.StabMeasureGauss
import SqVerif.Props.C13Gates
/-
C14 — Stabilizer measurement follows the Born rule and collapses correctly.

"Measuring any qubit of any stabilizer state returns an outcome of non-zero
probability (the certain one when the qubit is in a Z eigenstate, either one
otherwise, and both occur), leaves exactly the projected state when done in
place or its restriction to the remaining qubits in their original order when
destructive, and re-measuring in place repeats the outcome."

Model: `SqVerif/Stab.lean` `measure` (mirrors `stabilizer_states.py` 703-772
`measure` and 774-784 `_is_first_qubit_in_zero`); `coin` stands for
`randint(0, 1)` (its uniformity is Python's, assumed).
Specification vocabulary (`SqVerif/StabSpec.lean`, `StabMeasureLemmas.lean`):
`InGroup n g p` (p is an element of the stabilizer group, sign exact),
`zAt n j neg` = `(-1)^neg Z_j`, `Collapsed n g j o` = `⟨(-1)^o Z_j⟩ · {q ∈ G | q
commutes with Z_j}` (the stabilizer group of the projected state),
`restrictOp j o q` (erase qubit j from q, a Z there contributing `(-1)^o`),
`ValidMax n g` (n independent commuting generators of a maximal commuting
group — i.e. g describes a stabilizer *state*).
Born rule for a stabilizer state: outcome `o` on qubit `j` has probability 0 iff
`(-1)^(o+1) Z_j ∈ G`, 1 iff `(-1)^o Z_j ∈ G`, 1/2 otherwise.

Proof layers: `StabMeasureLemmas` (qubit permutation, group algebra, collapse),
`StabMeasureFront` (measurement of the first qubit of an eliminated tableau),
`StabMeasureModel` (the executable `measure` unfolded; theorems relative to an
interface for the elimination), `StabMeasureGauss` (the interface holds, from
`StabGaussLemmas` / `StabGaussUnique`).  All hypotheses `ValidMax` are
dischargeable for every state the engine can produce: `reachable_validMax`.
-/
set_option linter.unusedSimpArgs false
namespace SqVerif.C14
open SqVerif.Stab SqVerif.Stab.Meas

/-- the elimination interface for the tableau used by `measure` -/
theorem iface {m : Nat} {rows : List Row} {j : Nat} (hv : ValidMax (m + 1) rows) (hj : j < m + 1) :
    GaussIface (m + 1) (rows.map (Row.toFront j)) (gauss (m + 1) (rows.map (Row.toFront j))) :=
  gaussIface hv hj

/-- T14.0  `measure` raises `ValueError` exactly for a position outside `[0, n)`. -/
theorem measure_rejects (s : St) (j : Nat) (ip coin : Bool) : Stab.measure s j ip coin = none ↔ ¬ j < s.n := by
  unfold Stab.measure
  by_cases hj : j < s.n
  · simp only [hj, not_true_eq_false, if_false, iff_false]
    intro h
    split at h <;> split at h <;> cases h
  · simp [hj]

theorem measure_some_lt {s : St} {j : Nat} {ip coin o : Bool} {s' : St}
    (hm : Stab.measure s j ip coin = some (o, s')) : j < s.n := by
  apply Classical.byContradiction
  intro h
  rw [(measure_rejects s j ip coin).mpr h] at hm
  cases hm

/-- T14.1  the reported outcome has non-zero Born probability: `(-1)^(o+1) Z_j ∉ G`. -/
theorem measure_outcome_possible (s : St) (j : Nat) (ip coin o : Bool) (s' : St)
    (hv : ValidMax s.n s.rows) (hj : j < s.n) (hm : Stab.measure s j ip coin = some (o, s')) :
    ¬ InGroup s.n s.rows (zAt s.n j (!o)) := by
  rcases s with ⟨n, rows⟩
  cases n with
  | zero => exact absurd hj (by simp)
  | succ m => exact m_outcome_possible hv hj rfl (iface hv hj) hm

/-- T14.2  if some generator has X/Y on qubit `j` the outcome is the coin (so both outcomes
occur as the coin varies) and neither `+Z_j` nor `-Z_j` is in the group (probability 1/2 each). -/
theorem measure_random_both (s : St) (j : Nat) (ip coin o : Bool) (s' : St)
    (hv : ValidMax s.n s.rows) (hj : j < s.n) (hm : Stab.measure s j ip coin = some (o, s'))
    (hex : ∃ r, r ∈ s.rows ∧ r.x j = true) :
    o = coin ∧ ¬ InGroup s.n s.rows (zAt s.n j false) ∧ ¬ InGroup s.n s.rows (zAt s.n j true) := by
  rcases s with ⟨n, rows⟩
  cases n with
  | zero => exact absurd hj (by simp)
  | succ m => exact m_random_both hv hj rfl (iface hv hj) hm hex

/-- T14.2'  … and indeed both outcomes occur: for either coin the measurement succeeds with that outcome. -/
theorem measure_random_both_occur (s : St) (j : Nat) (ip : Bool)
    (hv : ValidMax s.n s.rows) (hj : j < s.n) (hex : ∃ r, r ∈ s.rows ∧ r.x j = true) (c : Bool) :
    ∃ s', Stab.measure s j ip c = some (c, s') := by
  cases hm : Stab.measure s j ip c with
  | none => exact absurd hj ((measure_rejects s j ip c).mp hm)
  | some res =>
    rcases res with ⟨o, s'⟩
    have := (measure_random_both s j ip c o s' hv hj hm hex).1
    subst this
    exact ⟨s', rfl⟩

/-- T14.3  if no generator has X/Y on qubit `j` the outcome is certain: `(-1)^o Z_j ∈ G`
(probability 1) and every measurement of `j` (any mode, any coin) reports the same `o`. -/
theorem measure_deterministic (s : St) (j : Nat) (ip coin o : Bool) (s' : St)
    (hv : ValidMax s.n s.rows) (hj : j < s.n) (hm : Stab.measure s j ip coin = some (o, s'))
    (hno : ∀ r, r ∈ s.rows → r.x j = false) :
    InGroup s.n s.rows (zAt s.n j o) ∧
      ∀ ip' coin' o' s'', Stab.measure s j ip' coin' = some (o', s'') → o' = o := by
  have hnot := measure_outcome_possible s j ip coin o s' hv hj hm
  have hmax := hv.maximal (zAt s.n j false) (zAt_psl _ _ _) (zAt_herm _ _ _) (by
    intro r hr
    rw [antiL_comm, antiL_zAt s.n j hj _ _ (hv.width r hr)]
    exact hno r hr)
  have hin : InGroup s.n s.rows (zAt s.n j o) := by
    cases o with
    | false =>
      rcases hmax with h | h
      · exact h
      · exact absurd (inGroup_congr (zAt_neg _ _) h) hnot
    | true =>
      rcases hmax with h | h
      · exact absurd h hnot
      · exact inGroup_congr (zAt_neg _ _) h
  refine ⟨hin, ?_⟩
  intro ip' coin' o' s'' hm'
  have hnot' := measure_outcome_possible s j ip' coin' o' s'' hv hj hm'
  cases o <;> cases o' <;> first | rfl | exact absurd hin hnot'

/-- T14.4  in place: the post-measurement group is exactly the projected state
`⟨(-1)^o Z_j⟩ · Comm_j(G)`, qubits in place. -/
theorem measure_inplace_group (s : St) (j : Nat) (ip coin o : Bool) (s' : St)
    (hv : ValidMax s.n s.rows) (hj : j < s.n) (hm : Stab.measure s j ip coin = some (o, s')) (hip : ip = true) :
    s'.n = s.n ∧ ∀ p, InGroup s.n s'.rows p ↔ Collapsed s.n s.rows j o p := by
  rcases s with ⟨n, rows⟩
  cases n with
  | zero => exact absurd hj (by simp)
  | succ m =>
    have := m_inplace hv hj rfl (iface hv hj) hm hip
    exact ⟨this.1, this.2.2⟩

/-- T14.4'  … and it is again a maximal independent commuting generator list. -/
theorem measure_inplace_validMax (s : St) (j : Nat) (ip coin o : Bool) (s' : St)
    (hv : ValidMax s.n s.rows) (hj : j < s.n) (hm : Stab.measure s j ip coin = some (o, s')) (hip : ip = true) :
    ValidMax s'.n s'.rows := by
  rcases s with ⟨n, rows⟩
  cases n with
  | zero => exact absurd hj (by simp)
  | succ m =>
    have := m_inplace hv hj rfl (iface hv hj) hm hip
    rw [this.1]; exact this.2.1

/-- T14.5  destructive: the post-measurement group is the restriction of the projected state to
the remaining qubits, in their original order. -/
theorem measure_destructive_group (s : St) (j : Nat) (ip coin o : Bool) (s' : St)
    (hv : ValidMax s.n s.rows) (hj : j < s.n) (hm : Stab.measure s j ip coin = some (o, s')) (hip : ip = false) :
    s'.n = s.n - 1 ∧ ∀ p, InGroup (s.n - 1) s'.rows p ↔
      ∃ q, Collapsed s.n s.rows j o q ∧ (getP q.ps j).1 = false ∧ p ≈ₚ restrictOp j o q := by
  rcases s with ⟨n, rows⟩
  cases n with
  | zero => exact absurd hj (by simp)
  | succ m =>
    have := m_destructive hv hj rfl (iface hv hj) hm hip
    exact ⟨this.1, this.2.2⟩

/-- T14.5'  … and it is a maximal independent commuting generator list on `n - 1` qubits. -/
theorem measure_destructive_validMax (s : St) (j : Nat) (ip coin o : Bool) (s' : St)
    (hv : ValidMax s.n s.rows) (hj : j < s.n) (hm : Stab.measure s j ip coin = some (o, s')) (hip : ip = false) :
    ValidMax s'.n s'.rows := by
  rcases s with ⟨n, rows⟩
  cases n with
  | zero => exact absurd hj (by simp)
  | succ m =>
    have := m_destructive hv hj rfl (iface hv hj) hm hip
    rw [this.1]; exact this.2.1

/-- T14.6  measuring the same qubit in place again repeats the outcome (for either coin) and
leaves the group unchanged. -/
theorem remeasure_repeats (s : St) (j : Nat) (ip coin o : Bool) (s' : St)
    (hv : ValidMax s.n s.rows) (hj : j < s.n) (hm : Stab.measure s j ip coin = some (o, s')) (hip : ip = true) :
    ∀ coin2 o2 s2, Stab.measure s' j true coin2 = some (o2, s2) → o2 = o ∧ SameGroup s.n s2.rows s'.rows := by
  intro coin2 o2 s2 hm2
  obtain ⟨hn, hgrp⟩ := measure_inplace_group s j ip coin o s' hv hj hm hip
  have hv' := measure_inplace_validMax s j ip coin o s' hv hj hm hip
  rcases s' with ⟨n', rows'⟩
  simp only at hn hgrp hv'
  subst hn
  have hz : InGroup s.n rows' (zAt s.n j o) := (hgrp _).mpr (collapsed_z _ _ _ _)
  have hnot := measure_outcome_possible ⟨s.n, rows'⟩ j true coin2 o2 s2 hv' hj hm2
  have ho : o2 = o := by
    cases o <;> cases o2 <;> first | rfl | exact absurd hz hnot
  subst ho
  refine ⟨rfl, ?_⟩
  obtain ⟨_, hgrp2⟩ := measure_inplace_group ⟨s.n, rows'⟩ j true coin2 o2 s2 hv' hj hm2 rfl
  intro p
  rw [hgrp2 p]
  exact collapsed_iff_of_z_mem hv'.toCommuting hz p

/-- T14.7  every state the engine can produce (from `empty`/`|0>` by tensoring, gates, measurements
in either mode with any coin, re-normalisation) is a maximal independent commuting generator list;
so the hypothesis `ValidMax` of the theorems above holds along every execution. -/
theorem reachable_validMax (s : St) (h : Reachable s) : ValidMax s.n s.rows := by
  induction h with
  | empty => exact C13.empty_validMax
  | zero1 => exact C13.zero1_validMax
  | tensor _ _ iha ihb =>
    have := C13.tensor_validMax _ _ iha ihb
    rw [this.1]; exact this.2
  | gate1 g j _ hg ih =>
    have := C13.gate1_validMax g j _ _ ih hg
    exact this.2
  | gate2 g c t _ hg ih =>
    have := C13.gate2_validMax g c t _ _ ih hg
    exact this.2
  | measure j ip coin o _ hm ih =>
    have hj := measure_some_lt hm
    cases ip with
    | true => exact measure_inplace_validMax _ j true coin o _ ih hj hm rfl
    | false => exact measure_destructive_validMax _ j false coin o _ ih hj hm rfl
  | regauss _ ih => exact gauss_validMax _ _ ih

/-! ## non-vacuity: concrete states, hypotheses satisfiable, outcomes by evaluation of the model -/

/-- |+0> : generators XI, IZ -/
def plus0 : St := ⟨2, [⟨[(true, false), (false, false)], false⟩, ⟨[(false, false), (false, true)], false⟩]⟩
/-- Bell pair: generators XX, ZZ -/
def bell : St := ⟨2, [⟨[(true, false), (true, false)], false⟩, ⟨[(false, true), (false, true)], false⟩]⟩

theorem plus0_reachable : Reachable plus0 :=
  .gate1 .H 0 (.tensor .zero1 .zero1) (by decide)
theorem bell_reachable : Reachable bell :=
  .gate2 .CNOT 0 1 plus0_reachable (by decide)
theorem plus0_validMax : ValidMax 2 plus0.rows := reachable_validMax plus0 plus0_reachable
theorem bell_validMax : ValidMax 2 bell.rows := reachable_validMax bell bell_reachable

/-- |+0>, qubit 0 (random branch): the hypothesis of `measure_random_both` holds, the outcome is the
coin, the state collapses to |00> resp. |10> (generators ±ZI, IZ); destructively |0> remains. -/
example : ∃ r, r ∈ plus0.rows ∧ r.x 0 = true := ⟨_, List.mem_cons_self, rfl⟩
example : Stab.measure plus0 0 true false =
    some (false, ⟨2, [⟨[(false, true), (false, false)], false⟩, ⟨[(false, false), (false, true)], false⟩]⟩) := by decide
example : Stab.measure plus0 0 true true =
    some (true, ⟨2, [⟨[(false, true), (false, false)], true⟩, ⟨[(false, false), (false, true)], false⟩]⟩) := by decide
example : Stab.measure plus0 0 false false = some (false, ⟨1, [⟨[(false, true)], false⟩]⟩) := by decide
example : Stab.measure plus0 0 false true = some (true, ⟨1, [⟨[(false, true)], false⟩]⟩) := by decide
/-- |+0>, qubit 1 (deterministic branch): the hypothesis of `measure_deterministic` holds, outcome 0
for either coin, state unchanged; destructively |+> remains. -/
example : ∀ r, r ∈ plus0.rows → r.x 1 = false := by decide
example : Stab.measure plus0 1 true false = some (false, plus0) := by decide
example : Stab.measure plus0 1 true true = some (false, plus0) := by decide
example : Stab.measure plus0 1 false true = some (false, ⟨1, [⟨[(true, false)], false⟩]⟩) := by decide
/-- the theorems instantiated on |+0> -/
example : ¬ InGroup 2 plus0.rows (zAt 2 0 false) ∧ ¬ InGroup 2 plus0.rows (zAt 2 0 true) :=
  (measure_random_both plus0 0 true false false
    ⟨2, [⟨[(false, true), (false, false)], false⟩, ⟨[(false, false), (false, true)], false⟩]⟩
    plus0_validMax (by decide) (by decide) ⟨_, List.mem_cons_self, rfl⟩).2
example : InGroup 2 plus0.rows (zAt 2 1 false) :=
  (measure_deterministic plus0 1 true true false plus0 plus0_validMax (by decide) (by decide) (by decide)).1

/-- Bell pair, both qubits, both modes, both coins: outcome = coin, the partner collapses with it. -/
example : Stab.measure bell 0 true false =
    some (false, ⟨2, [⟨[(false, true), (false, false)], false⟩, ⟨[(false, false), (false, true)], false⟩]⟩) := by decide
example : Stab.measure bell 0 true true =
    some (true, ⟨2, [⟨[(false, true), (false, false)], true⟩, ⟨[(false, false), (false, true)], true⟩]⟩) := by decide
example : Stab.measure bell 0 false false = some (false, ⟨1, [⟨[(false, true)], false⟩]⟩) := by decide
example : Stab.measure bell 0 false true = some (true, ⟨1, [⟨[(false, true)], true⟩]⟩) := by decide
example : Stab.measure bell 1 true true =
    some (true, ⟨2, [⟨[(false, false), (false, true)], true⟩, ⟨[(false, true), (false, false)], true⟩]⟩) := by decide
example : Stab.measure bell 1 false false = some (false, ⟨1, [⟨[(false, true)], false⟩]⟩) := by decide
example : Stab.measure bell 1 false true = some (true, ⟨1, [⟨[(false, true)], true⟩]⟩) := by decide
/-- re-measuring the collapsed Bell pair in place repeats the outcome for either coin -/
example : ∀ coin2 o2 s2,
    Stab.measure ⟨2, [⟨[(false, true), (false, false)], true⟩, ⟨[(false, false), (false, true)], true⟩]⟩ 0 true coin2
      = some (o2, s2) → o2 = true :=
  fun c o2 s2 h => (remeasure_repeats bell 0 true true true
    ⟨2, [⟨[(false, true), (false, false)], true⟩, ⟨[(false, false), (false, true)], true⟩]⟩
    bell_validMax (by decide) (by decide) rfl c o2 s2 h).1
/-- `measure_inplace_group` / `measure_destructive_group` instantiated on the Bell pair, outcome 1:
`-Z_0` is in the in-place post-group, and the destructive post-group on the partner qubit is exactly
the restriction of the collapsed group -/
example : InGroup 2 [⟨[(false, true), (false, false)], true⟩, ⟨[(false, false), (false, true)], true⟩] (zAt 2 0 true) :=
  ((measure_inplace_group bell 0 true true true
    ⟨2, [⟨[(false, true), (false, false)], true⟩, ⟨[(false, false), (false, true)], true⟩]⟩
    bell_validMax (by decide) (by decide) rfl).2 _).mpr (collapsed_z _ _ _ _)
example (p : POp) : InGroup 1 [⟨[(false, true)], true⟩] p ↔
    ∃ q, Collapsed 2 bell.rows 0 true q ∧ (getP q.ps 0).1 = false ∧ p ≈ₚ restrictOp 0 true q :=
  (measure_destructive_group bell 0 false true true ⟨1, [⟨[(false, true)], true⟩]⟩
    bell_validMax (by decide) (by decide) rfl).2 p
/-- a position outside the state is refused -/
example : Stab.measure bell 2 true false = none := by decide

/-- asymmetric 3-qubit state +XYI, −ZZI, +IIY (built by gates in `C13Gates`): qubit 0 is random
(the −ZZI correlation makes qubit 1 collapse to the opposite value), qubit 2 (in a Y eigenstate) is
random and uncorrelated: the same 2-qubit state remains for either outcome. -/
example : ValidMax 3 C13.asym.rows := C13.asym_validMax
example : Stab.measure C13.asym 0 true false = some (false, ⟨3,
    [⟨[(false, true), (false, false), (false, false)], false⟩,
     ⟨[(false, false), (false, false), (true, true)], false⟩,
     ⟨[(false, false), (false, true), (false, false)], true⟩]⟩) := by decide
example : Stab.measure C13.asym 0 false true = some (true, ⟨2,
    [⟨[(false, false), (true, true)], false⟩, ⟨[(false, true), (false, false)], false⟩]⟩) := by decide
example : Stab.measure C13.asym 2 false false = some (false, ⟨2,
    [⟨[(true, false), (true, true)], false⟩, ⟨[(false, true), (false, true)], true⟩]⟩) := by decide
example : Stab.measure C13.asym 2 false true = some (true, ⟨2,
    [⟨[(true, false), (true, true)], false⟩, ⟨[(false, true), (false, true)], true⟩]⟩) := by decide
/-- `measure_destructive_group` on it: −Z on the remaining qubit 1 (now qubit 0) is in the post-group -/
example : InGroup 2 [⟨[(false, false), (true, true)], false⟩, ⟨[(false, true), (false, false)], true⟩]
    ⟨2, [(false, true), (false, false)]⟩ :=
  ⟨[false, true], rfl, by decide, by decide⟩

end SqVerif.C14

import SqVerif.NqVNetLemmasStep
import SqVerif.Props.C02X
/-
L5 over L2x — the receive queues: a NetQASM hand-over of a pair half appends the token to the
receiver's socket queue (`sockInbox_send`), a poll takes the head (`sockInbox_poll`).
-/
namespace SqVerif.NqVNet

open SqVerif.VNet SqVerif.VNetX

/-- the entry a queue record stands for, read in base state `s` at node `b` -/
def recEntry (s : Net) (b : Nat) (r : QRec) : Option (Nat × Nat) :=
  match r.ghost with
  | some g => if g ∈ heldAt s b then (tokOf s g).map fun t => (r.frm, t) else none
  | none => none

theorem sockInbox_eq (s : NetX) (b sock : Nat) :
    sockInbox s b sock = (queueOf s b .epr sock).filterMap (recEntry s.base b) := rfl

theorem ext_get_of_lt {s : NetX} {b : Nat} (hb : b < s.ext.length) : s.ext[b]? = some (extOf s b) := by
  simp [extOf, List.getElem?_eq_getElem hb]

/-- the records already queued at `b` read the same after a send from another node to `b` -/
theorem recEntry_send {s : NetX} (w : WFX s) {a b h nn : Nat} {sock : Nat} (hh : h ∈ heldAt s.base a) (hab : a ≠ b)
    (hb : b < s.ext.length) (hr : (step s.base (.send h b)).2.1 = .num nn) (r : QRec)
    (hmem : r ∈ queueOf s b .epr sock) :
    recEntry (step s.base (.send h b)).1 b r = recEntry s.base b r := by
  unfold recEntry
  cases hg : r.ghost with
  | none => rfl
  | some g =>
    dsimp only
    obtain ⟨vqg, hvg, _, _⟩ := w.queues b _ .epr sock r g (ext_get_of_lt hb) hmem hg
    have hglt : g < s.base.vqs.length := WFP.lt_length_of_getElem? hvg
    obtain ⟨vq, hv, _, _, hheld⟩ := heldAt_send w.base hr
    obtain ⟨vq', hv', _, hvn, _⟩ := heldAt_info w.base hh
    rw [hv] at hv'; cases hv'
    have hb' : heldAt (step s.base (.send h b)).1 b = heldAt s.base b ++ [s.base.vqs.length] := by
      rw [hheld b, if_neg (by rw [hvn]; exact fun e => hab e.symm), if_pos rfl]
    have hiff : g ∈ heldAt (step s.base (.send h b)).1 b ↔ g ∈ heldAt s.base b := by
      rw [hb', List.mem_append]
      constructor
      · rintro (h1 | h1)
        · exact h1
        · simp at h1; omega
      · exact Or.inl
    by_cases hgb : g ∈ heldAt s.base b
    · rw [if_pos hgb, if_pos (hiff.2 hgb)]
      obtain ⟨_, _, _, _, _, _, _, _, _, _, hkeep, _⟩ := C01.send_moves_holder w.base hr
      have hne : g ≠ h := by
        rintro rfl
        obtain ⟨_, hv2, _, hvn2, _⟩ := heldAt_info w.base hgb
        rw [hv] at hv2; cases hv2
        exact hab (hvn.symm.trans hvn2)
      rw [(hkeep g (C01.heldAt_mem_allHeld hgb) hne).2]
    · rw [if_neg hgb, if_neg (fun e => hgb (hiff.1 e))]

/-- the handle a successful send creates at the receiver, and its token -/
theorem send_new_handle {s : Net} (hwf : WF s) {a b h nn : Nat} (hh : h ∈ heldAt s a)
    (hr : (step s (.send h b)).2.1 = .num nn) :
    a ≠ b ∧ b < s.nodes.length ∧ s.vqs.length ∈ heldAt (step s (.send h b)).1 b ∧
    tokOf (step s (.send h b)).1 s.vqs.length = tokOf s h := by
  obtain ⟨vq, hv, _, hne, hheld⟩ := heldAt_send hwf hr
  obtain ⟨vq', hv', _, hvn, _⟩ := heldAt_info hwf hh
  rw [hv] at hv'; cases hv'
  have hab : a ≠ b := by rw [← hvn]; exact fun e => hne e.symm
  have hb' : heldAt (step s (.send h b)).1 b = heldAt s b ++ [s.vqs.length] := by
    rw [hheld b, if_neg hne, if_pos rfl]
  have hmem : s.vqs.length ∈ heldAt (step s (.send h b)).1 b := by rw [hb']; simp
  obtain ⟨_, nb, _, _, _, hnb, _⟩ := (C01.send_succeeds_iff s h b).1 ⟨nn, hr⟩
  refine ⟨hab, WFP.lt_length_of_getElem? hnb, hmem, ?_⟩
  obtain ⟨h', _, hnot, htok, _, _, _, _, _, _, _, hcase⟩ := C01.send_moves_holder hwf hr
  rcases hcase _ (C01.heldAt_mem_allHeld hmem) with e | ⟨e, _⟩
  · rw [e]; exact htok
  · have := hwf.toP.held_lt e
    omega

end SqVerif.NqVNet

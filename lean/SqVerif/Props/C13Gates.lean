import SqVerif.StabMatrix
import SqVerif.StabGateGroup
/-
C13 (gate part) — Stabilizer gate algebra is exact.

For every generator list and every supported Clifford operation of
`simulaqron/toolbox/stabilizer_states.py` (apply_X … apply_CZ, tensor_product,
add_qubit) the resulting stabilizer group is exactly the conjugated group,
signs included, and remains a set of n independent commuting generators.

Layers:
* T13.0  the letter-wise conjugation tables `conj1`, `conj2` (and the product
         table `iexp`) ARE matrix conjugation / matrix product over Z[i];
* T13.1  every row of the model is mapped to its conjugate, sign included;
* T13.2  string-level conjugation is a phase-exact bijective homomorphism
         preserving the commutation character;
* T13.3  the generated group after a gate is exactly the conjugated group;
* T13.4  `Valid` (n independent commuting generators) and `ValidMax` are
         preserved; bad positions are refused and nothing else is;
* T13.5  tensor product / add_qubit give the product group, first factor first.

A row denotes `(-1)^neg · P_1 ⊗ … ⊗ P_n` (`Row.den`); operators are compared
with `≈ₚ` (same letters, phase exponent of i equal mod 4); `InGroup n g p`
says that p is an ordered product of a sub-selection of the generators g.
-/
namespace SqVerif.C13
open SqVerif.Stab SqVerif.Stab.Gate

/-! ## T13.0 the tables are matrix conjugation -/

/-- `U_g · M(a) · U_g† = scale_g · i^ph · M(a')`, `(ph, a') = conj1 g a`; scale 2 for
the √2-multiplied H and K, 1 otherwise. -/
theorem conj1_is_matrix_conjugation (g : Gate1) (a : P1) :
    Mat.conjBy 2 (Mat.gate1Mx g) (Mat.pauli a) =
      Mat.smul (Mat.GI.ofInt (Mat.gate1Scale g))
        (Mat.smul (Mat.GI.ipow (conj1 g a).1) (Mat.pauli (conj1 g a).2)) :=
  Mat.conj1_is_matrix_conjugation g a

/-- `U_g · (M(a) ⊗ M(b)) · U_g† = i^ph · (M(a') ⊗ M(b'))`, `(ph, a', b') = conj2 g a b`,
control = first tensor factor. -/
theorem conj2_is_matrix_conjugation (g : Gate2) (a b : P1) :
    Mat.conjBy 4 (Mat.gate2Mx g) (Mat.kron (Mat.pauli a) (Mat.pauli b)) =
      Mat.smul (Mat.GI.ipow (conj2 g a b).1)
        (Mat.kron (Mat.pauli (conj2 g a b).2.1) (Mat.pauli (conj2 g a b).2.2)) :=
  Mat.conj2_is_matrix_conjugation g a b

/-- a conjugated Hermitian letter has phase ±1 -/
theorem conj1_hermitian (g : Gate1) (a : P1) : (conj1 g a).1 = 0 ∨ (conj1 g a).1 = 2 :=
  Mat.conj1_hermitian g a
theorem conj2_hermitian (g : Gate2) (a b : P1) : (conj2 g a b).1 = 0 ∨ (conj2 g a b).1 = 2 :=
  Mat.conj2_hermitian g a b

/-- the gate matrices are unitary (H, K carried with their factor √2: `U U† = 2·1`) -/
theorem gate1_unitary (g : Gate1) :
    Mat.mmul 2 (Mat.gate1Mx g) (Mat.dagger 2 (Mat.gate1Mx g)) =
      Mat.smul (Mat.GI.ofInt (Mat.gate1Scale g)) (Mat.pauli (false, false)) :=
  Mat.gate1_unitary g
theorem gate2_unitary (g : Gate2) :
    Mat.mmul 4 (Mat.gate2Mx g) (Mat.dagger 4 (Mat.gate2Mx g)) =
      Mat.kron (Mat.pauli (false, false)) (Mat.pauli (false, false)) :=
  Mat.gate2_unitary g

/-- the letter product table of `Pauli.lean` is the matrix product -/
theorem iexp_is_matrix_product (a b : P1) :
    Mat.mmul 2 (Mat.pauli a) (Mat.pauli b) = Mat.smul (Mat.GI.ipow (iexp a b)) (Mat.pauli (mul1 a b)) :=
  Mat.iexp_is_matrix_product a b

/-- letters anticommute exactly when `anti1` says so -/
theorem anti1_is_matrix_anticommutation (a b : P1) :
    Mat.mmul 2 (Mat.pauli a) (Mat.pauli b) =
      Mat.smul (if anti1 a b then Mat.GI.neg Mat.GI.one else Mat.GI.one)
        (Mat.mmul 2 (Mat.pauli b) (Mat.pauli a)) :=
  Mat.anti1_is_matrix_anticommutation a b

/-- the Pauli matrices are Hermitian (Y is the Hermitian Y) -/
theorem pauli_hermitian (a : P1) : Mat.dagger 2 (Mat.pauli a) = Mat.pauli a := Mat.pauli_hermitian a

/-- (A⊗B)(C⊗D) = AC⊗BD on Pauli letters: letter-wise products are products of the operators -/
theorem kron_mul (a b c d : P1) :
    Mat.mmul 4 (Mat.kron (Mat.pauli a) (Mat.pauli b)) (Mat.kron (Mat.pauli c) (Mat.pauli d)) =
      Mat.kron (Mat.mmul 2 (Mat.pauli a) (Mat.pauli c)) (Mat.mmul 2 (Mat.pauli b) (Mat.pauli d)) :=
  Mat.kron_mul a b c d

example : conj1 .K (true, false) = (2, (true, false)) := rfl   -- K X K† = -X
example : conj1 .S (true, true) = (2, (true, false)) := rfl    -- S Y S† = -X
example : conj2 .CNOT (true, true) (true, true) = (2, (true, false), (false, true)) := rfl -- Y⊗Y ↦ -X⊗Z

/-! ## T13.1 rows -/

/-- every row is mapped to its conjugate, sign included -/
theorem gate1_row (g : Gate1) (j : Nat) (r : Row) (_hj : j < r.ps.length) :
    (g.row j r).den ≈ₚ conjAt1 g j r.den :=
  gate1_row_den g j r

theorem gate2_row (g : Gate2) (c t : Nat) (r : Row) (_hc : c < r.ps.length) (_ht : t < r.ps.length)
    (_hne : c ≠ t) : (g.row c t r).den ≈ₚ conjAt2 g c t r.den :=
  gate2_row_den g c t r

/-! ## T13.2 conjugation of strings -/

theorem conjAt1_congr (g : Gate1) (j : Nat) (p q : POp) (h : p ≈ₚ q) : conjAt1 g j p ≈ₚ conjAt1 g j q :=
  Gate.conjAt1_congr g j h

theorem conjAt1_len (g : Gate1) (j : Nat) (p : POp) : (conjAt1 g j p).ps.length = p.ps.length :=
  Gate.conjAt1_len g j p

/-- phase-exact homomorphism -/
theorem conjAt1_mul (g : Gate1) (j : Nat) (p q : POp) (hl : p.ps.length = q.ps.length) (hj : j < p.ps.length) :
    conjAt1 g j (p ⋆ q) ≈ₚ conjAt1 g j p ⋆ conjAt1 g j q :=
  Gate.conjAt1_mul g j p q hj (hl ▸ hj)

/-- (anti)commutation is preserved -/
theorem conjAt1_anti (g : Gate1) (j : Nat) (p q : POp) (hl : p.ps.length = q.ps.length) (hj : j < p.ps.length) :
    antiL (conjAt1 g j p).ps (conjAt1 g j q).ps = antiL p.ps q.ps :=
  Gate.conjAt1_anti g j p q hj (hl ▸ hj)

theorem conjAt1_one (g : Gate1) (j n : Nat) : conjAt1 g j (one n) = one n :=
  Gate.conjAt1_one g j n

/-- injective up to `≈ₚ` -/
theorem conjAt1_inj (g : Gate1) (j : Nat) (p q : POp) (hp : j < p.ps.length) (hq : j < q.ps.length)
    (h : conjAt1 g j p ≈ₚ conjAt1 g j q) : p ≈ₚ q :=
  eqv_trans (eqv_symm (unconjAt1_conjAt1 g j p hp))
    (eqv_trans (unconjAt1_congr g j h) (unconjAt1_conjAt1 g j q hq))

/-- surjective, with the explicit preimage `unconjAt1 g j p` (conjugation by `U†`) -/
theorem conjAt1_surj (g : Gate1) (j : Nat) (p : POp) (hp : j < p.ps.length) :
    (unconjAt1 g j p).ps.length = p.ps.length ∧ conjAt1 g j (unconjAt1 g j p) ≈ₚ p :=
  ⟨unconjAt1_len g j p, conjAt1_unconjAt1 g j p hp⟩

theorem conjAt2_congr (g : Gate2) (c t : Nat) (p q : POp) (h : p ≈ₚ q) :
    conjAt2 g c t p ≈ₚ conjAt2 g c t q :=
  Gate.conjAt2_congr g c t h

theorem conjAt2_len (g : Gate2) (c t : Nat) (p : POp) : (conjAt2 g c t p).ps.length = p.ps.length :=
  Gate.conjAt2_len g c t p

theorem conjAt2_mul (g : Gate2) (c t : Nat) (p q : POp) (hl : p.ps.length = q.ps.length)
    (hc : c < p.ps.length) (ht : t < p.ps.length) (hne : c ≠ t) :
    conjAt2 g c t (p ⋆ q) ≈ₚ conjAt2 g c t p ⋆ conjAt2 g c t q :=
  Gate.conjAt2_mul g c t p q hc (hl ▸ hc) ht (hl ▸ ht) hne

theorem conjAt2_anti (g : Gate2) (c t : Nat) (p q : POp) (hl : p.ps.length = q.ps.length)
    (hc : c < p.ps.length) (ht : t < p.ps.length) (hne : c ≠ t) :
    antiL (conjAt2 g c t p).ps (conjAt2 g c t q).ps = antiL p.ps q.ps :=
  Gate.conjAt2_anti g c t p q hc (hl ▸ hc) ht (hl ▸ ht) hne

theorem conjAt2_one (g : Gate2) (c t n : Nat) : conjAt2 g c t (one n) = one n :=
  Gate.conjAt2_one g c t n

theorem conjAt2_inj (g : Gate2) (c t : Nat) (p q : POp) (hcp : c < p.ps.length) (htp : t < p.ps.length)
    (hcq : c < q.ps.length) (htq : t < q.ps.length) (hne : c ≠ t)
    (h : conjAt2 g c t p ≈ₚ conjAt2 g c t q) : p ≈ₚ q :=
  eqv_trans (eqv_symm (conjAt2_conjAt2 g c t p hcp htp hne))
    (eqv_trans (Gate.conjAt2_congr g c t h) (conjAt2_conjAt2 g c t q hcq htq hne))

/-- CNOT and CZ are involutions, so the preimage of `p` is `conjAt2 g c t p` -/
theorem conjAt2_surj (g : Gate2) (c t : Nat) (p : POp) (hc : c < p.ps.length) (ht : t < p.ps.length)
    (hne : c ≠ t) :
    (conjAt2 g c t p).ps.length = p.ps.length ∧ conjAt2 g c t (conjAt2 g c t p) ≈ₚ p :=
  ⟨Gate.conjAt2_len g c t p, conjAt2_conjAt2 g c t p hc ht hne⟩

/-! ## T13.4a refusals -/

theorem gate1_refused_iff (g : Gate1) (j : Nat) (s : St) : applyGate1 g j s = none ↔ ¬ j < s.n := by
  unfold applyGate1; split <;> simp_all

theorem gate2_refused_iff (g : Gate2) (c t : Nat) (s : St) :
    applyGate2 g c t s = none ↔ ¬ (c < s.n ∧ t < s.n ∧ c ≠ t) := by
  unfold applyGate2; split <;> simp_all

theorem gate1_some (g : Gate1) (j : Nat) (s s' : St) (h : applyGate1 g j s = some s') :
    j < s.n ∧ s' = { s with rows := s.rows.map (g.row j) } := by
  unfold applyGate1 at h
  split at h
  · next hj => exact ⟨hj, (Option.some.inj h).symm⟩
  · cases h

theorem gate2_some (g : Gate2) (c t : Nat) (s s' : St) (h : applyGate2 g c t s = some s') :
    (c < s.n ∧ t < s.n ∧ c ≠ t) ∧ s' = { s with rows := s.rows.map (g.row c t) } := by
  unfold applyGate2 at h
  split at h
  · next hj => exact ⟨hj, (Option.some.inj h).symm⟩
  · cases h

/-! ## T13.3 the resulting group is exactly the conjugated group -/

theorem gate1_group (n : Nat) (s s' : St) (g : Gate1) (j : Nat) (hc : Commuting n s.rows) (hn : s.n = n)
    (h : applyGate1 g j s = some s') (p : POp) :
    InGroup n s'.rows p ↔ ∃ q, InGroup n s.rows q ∧ p ≈ₚ conjAt1 g j q := by
  obtain ⟨hj, rfl⟩ := gate1_some g j s s' h
  exact (act1 n g j (hn ▸ hj)).group s.rows hc.width p

theorem gate2_group (n : Nat) (s s' : St) (g : Gate2) (c t : Nat) (hc : Commuting n s.rows) (hn : s.n = n)
    (h : applyGate2 g c t s = some s') (p : POp) :
    InGroup n s'.rows p ↔ ∃ q, InGroup n s.rows q ∧ p ≈ₚ conjAt2 g c t q := by
  obtain ⟨⟨h1, h2, h3⟩, rfl⟩ := gate2_some g c t s s' h
  exact (act2 n g c t (hn ▸ h1) (hn ▸ h2) h3).group s.rows hc.width p

/-! ## T13.4b invariants -/

/-- after a one-qubit gate: still n independent commuting generators on the same n qubits -/
theorem gate1_valid (g : Gate1) (j : Nat) (s s' : St) (hv : Valid s.n s.rows)
    (h : applyGate1 g j s = some s') : s'.n = s.n ∧ Valid s'.n s'.rows := by
  obtain ⟨hj, rfl⟩ := gate1_some g j s s' h
  exact ⟨rfl, (act1 s.n g j hj).valid s.rows hv⟩

theorem gate2_valid (g : Gate2) (c t : Nat) (s s' : St) (hv : Valid s.n s.rows)
    (h : applyGate2 g c t s = some s') : s'.n = s.n ∧ Valid s'.n s'.rows := by
  obtain ⟨⟨h1, h2, h3⟩, rfl⟩ := gate2_some g c t s s' h
  exact ⟨rfl, (act2 s.n g c t h1 h2 h3).valid s.rows hv⟩

/-- maximality is preserved: conjugation is a bijection preserving commutation and hermiticity -/
theorem gate1_validMax (g : Gate1) (j : Nat) (s s' : St) (hv : ValidMax s.n s.rows)
    (h : applyGate1 g j s = some s') : s'.n = s.n ∧ ValidMax s'.n s'.rows := by
  obtain ⟨hj, rfl⟩ := gate1_some g j s s' h
  exact ⟨rfl, (act1 s.n g j hj).validMax s.rows hv⟩

theorem gate2_validMax (g : Gate2) (c t : Nat) (s s' : St) (hv : ValidMax s.n s.rows)
    (h : applyGate2 g c t s = some s') : s'.n = s.n ∧ ValidMax s'.n s'.rows := by
  obtain ⟨⟨h1, h2, h3⟩, rfl⟩ := gate2_some g c t s s' h
  exact ⟨rfl, (act2 s.n g c t h1 h2 h3).validMax s.rows hv⟩

/-! ## T13.5 tensor product, add_qubit -/

theorem tensor_n (a b : St) (ha : a.rows.length = a.n) (hb : b.rows.length = b.n) :
    (tensor a b).n = a.n + b.n := by rw [tensor_eq a b ha hb]

/-- the group of `a ⊗ b` is the product group, a's qubits first, order preserved
(including the special cases `a.n = 0`, `b.n = 0` of `tensor_product`) -/
theorem tensor_group (a b : St) (hca : Commuting a.n a.rows) (hcb : Commuting b.n b.rows)
    (ha : a.rows.length = a.n) (hb : b.rows.length = b.n) (p : POp) :
    InGroup (a.n + b.n) (tensor a b).rows p ↔
      ∃ q r, InGroup a.n a.rows q ∧ InGroup b.n b.rows r ∧ p ≈ₚ q.tensor r := by
  rw [tensor_eq a b ha hb]
  exact tensorRows_group a.n b.n a.rows b.rows hca.width hcb.width p

theorem tensor_valid (a b : St) (hva : Valid a.n a.rows) (hvb : Valid b.n b.rows) :
    (tensor a b).n = a.n + b.n ∧ Valid (a.n + b.n) (tensor a b).rows := by
  rw [tensor_eq a b hva.count hvb.count]
  exact ⟨rfl, tensorRows_valid a.n b.n a.rows b.rows hva hvb⟩

theorem tensor_validMax (a b : St) (hva : ValidMax a.n a.rows) (hvb : ValidMax b.n b.rows) :
    (tensor a b).n = a.n + b.n ∧ ValidMax (a.n + b.n) (tensor a b).rows := by
  rw [tensor_eq a b hva.count hvb.count]
  exact ⟨rfl, { toValid := tensorRows_valid a.n b.n a.rows b.rows hva.toValid hvb.toValid,
                maximal := tensorRows_maximal a.n b.n a.rows b.rows hva.width hvb.width
                  hva.maximal hvb.maximal }⟩

theorem zero1_validMax : ValidMax 1 zero1.rows := zero1_validMax'
theorem empty_validMax : ValidMax 0 empty.rows := empty_validMax'

/-- the group of |0> is {I, Z} -/
theorem zero1_group (r : POp) :
    InGroup 1 zero1.rows r ↔ ∃ b : Bool, r ≈ₚ ⟨0, [(false, b)]⟩ := by
  have hT : prodSel 1 [true] (dens zero1.rows) = ⟨0, [(false, true)]⟩ := rfl
  have hF : prodSel 1 [false] (dens zero1.rows) = ⟨0, [(false, false)]⟩ := rfl
  constructor
  · rintro ⟨c, hc, hr⟩
    match c, hc with
    | [b], _ =>
      refine ⟨b, eqv_symm ?_⟩
      cases b
      · rw [← hF]; exact hr
      · rw [← hT]; exact hr
  · rintro ⟨b, hb⟩
    refine ⟨[b], rfl, eqv_symm ?_⟩
    cases b
    · rw [hF]; exact hb
    · rw [hT]; exact hb

/-- `add_qubit`: the new qubit is last and in |0>: group = G ⊗ ⟨Z⟩ (corollary of `tensor_group`) -/
theorem addQubit_group (s : St) (hc : Commuting s.n s.rows) (hl : s.rows.length = s.n) (p : POp) :
    InGroup (s.n + 1) (addQubit s).rows p ↔
      ∃ q r, InGroup s.n s.rows q ∧ InGroup 1 zero1.rows r ∧ p ≈ₚ q.tensor r :=
  tensor_group s zero1 hc zero1_validMax.toCommuting hl rfl p

/-- the same, with the last factor spelled out: `p = q ⊗ I` or `p = q ⊗ Z`, `q` in the old group -/
theorem addQubit_group_explicit (s : St) (hc : Commuting s.n s.rows) (hl : s.rows.length = s.n) (p : POp) :
    InGroup (s.n + 1) (addQubit s).rows p ↔
      ∃ q, InGroup s.n s.rows q ∧ ∃ b : Bool, p ≈ₚ ⟨q.ph, q.ps ++ [(false, b)]⟩ := by
  rw [addQubit_group s hc hl p]
  constructor
  · rintro ⟨q, r, hq, hr, hp⟩
    obtain ⟨b, hb⟩ := (zero1_group r).mp hr
    exact ⟨q, hq, b, eqv_trans hp (eqv_trans (tensor_congr (eqv_refl q) hb) ⟨rfl, rfl⟩)⟩
  · rintro ⟨q, hq, b, hp⟩
    exact ⟨q, ⟨0, [(false, b)]⟩, hq, (zero1_group _).mpr ⟨b, eqv_refl _⟩, eqv_trans hp ⟨rfl, rfl⟩⟩

theorem addQubit_validMax (s : St) (hv : ValidMax s.n s.rows) :
    (addQubit s).n = s.n + 1 ∧ ValidMax (s.n + 1) (addQubit s).rows :=
  tensor_validMax s zero1 hv zero1_validMax

/-! ## every state built by the gate layer is a stabilizer state -/

/-- states built from the empty state / |0> by tensoring and gates (no measurement) -/
inductive GateBuilt : St → Prop where
  | empty : GateBuilt empty
  | zero1 : GateBuilt zero1
  | tensor {a b} : GateBuilt a → GateBuilt b → GateBuilt (tensor a b)
  | gate1 {s s'} (g : Gate1) (j : Nat) : GateBuilt s → applyGate1 g j s = some s' → GateBuilt s'
  | gate2 {s s'} (g : Gate2) (c t : Nat) : GateBuilt s → applyGate2 g c t s = some s' → GateBuilt s'

theorem gateBuilt_validMax (s : St) (h : GateBuilt s) : ValidMax s.n s.rows := by
  induction h with
  | empty => exact empty_validMax
  | zero1 => exact zero1_validMax
  | tensor _ _ iha ihb =>
    obtain ⟨hn, hv⟩ := tensor_validMax _ _ iha ihb
    rw [hn]; exact hv
  | gate1 g j _ happ ih => exact (gate1_validMax g j _ _ ih happ).2
  | gate2 g c t _ happ ih => exact (gate2_validMax g c t _ _ ih happ).2

/-! ## non-vacuity -/

/-- Bell pair generators XX, ZZ -/
def gtBell : St := ⟨2, [⟨[(true, false), (true, false)], false⟩, ⟨[(false, true), (false, true)], false⟩]⟩

example : Valid 2 gtBell.rows := validB_sound 2 gtBell.rows (by decide)

/-- an asymmetric 3-qubit state: generators +XYI, −ZZI, +IIY -/
def asym : St :=
  ⟨3, [⟨[(true, false), (true, true), (false, false)], false⟩,
       ⟨[(false, true), (false, true), (false, false)], true⟩,
       ⟨[(false, false), (false, false), (true, true)], false⟩]⟩

def gtS000 : St := addQubit (addQubit (addQubit empty))

/-- `asym` = X₀ · S₁ · K₂ · CNOT₀₁ · H₀ |000> -/
theorem asym_built :
    (do let s ← applyGate1 .H 0 gtS000
        let s ← applyGate2 .CNOT 0 1 s
        let s ← applyGate1 .K 2 s
        let s ← applyGate1 .S 1 s
        applyGate1 .X 0 s) = some asym := by decide

theorem asym_valid : Valid 3 asym.rows := validB_sound 3 asym.rows (by decide)

theorem asym_gateBuilt : GateBuilt asym := by
  have h0 : GateBuilt gtS000 :=
    .tensor (.tensor (.tensor .empty .zero1) .zero1) .zero1
  have e1 : applyGate1 .H 0 gtS000 = some ⟨3, gtS000.rows.map (Gate1.row .H 0)⟩ := by decide
  have h1 := GateBuilt.gate1 .H 0 h0 e1
  have e2 : applyGate2 .CNOT 0 1 ⟨3, gtS000.rows.map (Gate1.row .H 0)⟩ =
      some ⟨3, (gtS000.rows.map (Gate1.row .H 0)).map (Gate2.row .CNOT 0 1)⟩ := by decide
  have h2 := GateBuilt.gate2 .CNOT 0 1 h1 e2
  have e3 : applyGate1 .K 2 ⟨3, (gtS000.rows.map (Gate1.row .H 0)).map (Gate2.row .CNOT 0 1)⟩ =
      some ⟨3, ((gtS000.rows.map (Gate1.row .H 0)).map (Gate2.row .CNOT 0 1)).map (Gate1.row .K 2)⟩ := by decide
  have h3 := GateBuilt.gate1 .K 2 h2 e3
  have e4 : applyGate1 .S 1 ⟨3, ((gtS000.rows.map (Gate1.row .H 0)).map (Gate2.row .CNOT 0 1)).map (Gate1.row .K 2)⟩ =
      some ⟨3, (((gtS000.rows.map (Gate1.row .H 0)).map (Gate2.row .CNOT 0 1)).map (Gate1.row .K 2)).map
        (Gate1.row .S 1)⟩ := by decide
  have h4 := GateBuilt.gate1 .S 1 h3 e4
  have e5 : applyGate1 .X 0 ⟨3, (((gtS000.rows.map (Gate1.row .H 0)).map (Gate2.row .CNOT 0 1)).map
      (Gate1.row .K 2)).map (Gate1.row .S 1)⟩ = some asym := by decide
  exact GateBuilt.gate1 .X 0 h4 e5

theorem asym_validMax : ValidMax 3 asym.rows := gateBuilt_validMax asym asym_gateBuilt

/-- the product of all three generators is −Y⊗X⊗Y … -/
example : InGroup 3 asym.rows ⟨2, [(true, true), (true, false), (true, true)]⟩ :=
  ⟨[true, true, true], rfl, ⟨by decide, by decide⟩⟩
/-- … and CNOT(control 2, target 0) maps it to +Z⊗X⊗X, sign included -/
example : conjAt2 .CNOT 2 0 ⟨2, [(true, true), (true, false), (true, true)]⟩
    ≈ₚ ⟨0, [(false, true), (true, false), (true, false)]⟩ := ⟨by decide, by decide⟩

/-- the row theorems on the asymmetric state: S on qubit 1 maps +XYI to −XXI -/
example : (Gate1.row .S 1 ⟨[(true, false), (true, true), (false, false)], false⟩) =
    ⟨[(true, false), (true, false), (false, false)], true⟩ := by decide
example : (Gate1.row .S 1 ⟨[(true, false), (true, true), (false, false)], false⟩).den ≈ₚ
    conjAt1 .S 1 (Row.den ⟨[(true, false), (true, true), (false, false)], false⟩) :=
  gate1_row .S 1 _ (by decide)
example : (Gate2.row .CNOT 2 0 ⟨[(false, true), (false, true), (false, false)], true⟩).den ≈ₚ
    conjAt2 .CNOT 2 0 (Row.den ⟨[(false, true), (false, true), (false, false)], true⟩) :=
  gate2_row .CNOT 2 0 _ (by decide) (by decide) (by decide)

/-- each gate theorem instantiated on the asymmetric state -/
example : ∃ s', applyGate1 .S 1 asym = some s' ∧ s'.n = 3 ∧ ValidMax 3 s'.rows ∧
    ∀ p, InGroup 3 s'.rows p ↔ ∃ q, InGroup 3 asym.rows q ∧ p ≈ₚ conjAt1 .S 1 q := by
  refine ⟨_, rfl, rfl, ?_, ?_⟩
  · exact (gate1_validMax .S 1 asym _ asym_validMax rfl).2
  · exact gate1_group 3 asym _ .S 1 asym_valid.toCommuting rfl rfl

example : ∃ s', applyGate2 .CNOT 2 0 asym = some s' ∧ s'.n = 3 ∧ ValidMax 3 s'.rows ∧
    ∀ p, InGroup 3 s'.rows p ↔ ∃ q, InGroup 3 asym.rows q ∧ p ≈ₚ conjAt2 .CNOT 2 0 q := by
  refine ⟨_, rfl, rfl, ?_, ?_⟩
  · exact (gate2_validMax .CNOT 2 0 asym _ asym_validMax rfl).2
  · exact gate2_group 3 asym _ .CNOT 2 0 asym_valid.toCommuting rfl rfl

example : ∀ g : Gate1, ∀ j, j < 3 → ∃ s', applyGate1 g j asym = some s' ∧ Valid s'.n s'.rows := by
  intro g j hj
  have : applyGate1 g j asym = some { asym with rows := asym.rows.map (g.row j) } := by
    unfold applyGate1; rw [if_pos (by exact hj)]
  exact ⟨_, this, (gate1_valid g j asym _ asym_valid this).2⟩

example : ∀ g : Gate2, ∃ s', applyGate2 g 1 2 asym = some s' ∧ Valid s'.n s'.rows := by
  intro g
  have : applyGate2 g 1 2 asym = some { asym with rows := asym.rows.map (g.row 1 2) } := by
    unfold applyGate2; rw [if_pos (by decide)]
  exact ⟨_, this, (gate2_valid g 1 2 asym _ asym_valid this).2⟩

example : applyGate1 .H 3 asym = none := (gate1_refused_iff .H 3 asym).mpr (by decide)
example : applyGate2 .CZ 1 1 asym = none := (gate2_refused_iff .CZ 1 1 asym).mpr (by decide)

/-- tensor / add_qubit on the examples -/
example : Valid 5 (tensor asym gtBell).rows := (tensor_valid asym gtBell asym_valid (validB_sound 2 gtBell.rows (by decide))).2
example : ValidMax 4 (addQubit asym).rows := (addQubit_validMax asym asym_validMax).2
example : InGroup 4 (addQubit asym).rows ⟨2, [(true, true), (true, false), (true, true), (false, true)]⟩ :=
  (addQubit_group_explicit asym asym_valid.toCommuting rfl _).mpr
    ⟨⟨2, [(true, true), (true, false), (true, true)]⟩,
     ⟨[true, true, true], rfl, ⟨by decide, by decide⟩⟩, true, ⟨rfl, rfl⟩⟩

end SqVerif.C13

/-
L0, Tie B — the (hand-written, fixed) vocabulary of the file that
`harness/gen/stabgates.py` regenerates from `simulaqron/toolbox/stabilizer_states.py`
on every run (`Gen/StabGates.lean`).  Core Lean only.

* `Tr α`: the result of translating one Python method.  `ok a` = the method lies
  in the idiom set and denotes `a`; `unrecognised reason` = some statement or
  expression of it does not, so NOTHING is claimed about it: every obligation of
  `Props/C13Gen.lean` is an equation `… = .ok …` and is false of it.
* `GTerm` / `GCond` / `Guard`: the `if <cond>: raise <exc>(…)` prefix of a gate
  method as data; `cond` is the Python test, over the integer arguments
  `arg 0, arg 1` of the method and `n = self.num_qubits`.
-/
namespace SqVerif.StabGen

inductive Tr (α : Type) where
  | ok (a : α)
  | unrecognised (reason : String)
  deriving DecidableEq, Repr

def Tr.bind {α β : Type} : Tr α → (α → Tr β) → Tr β
  | .ok a, f => f a
  | .unrecognised r, _ => .unrecognised r

def Tr.map {α β : Type} (f : α → β) : Tr α → Tr β
  | .ok a => .ok (f a)
  | .unrecognised r => .unrecognised r

def Tr.isOk {α : Type} : Tr α → Bool
  | .ok _ => true
  | .unrecognised _ => false

/-- `acc = False; for … : acc |= m_i; return acc` -/
def Tr.orAll : List (Tr Bool) → Tr Bool
  | [] => .ok false
  | m :: ms => m.bind fun b => (Tr.orAll ms).bind fun c => .ok (b || c)

/-- integer-valued operand of a guard test -/
inductive GTerm where
  | arg (i : Nat)          -- the i-th argument of the method after `self`
  | n                      -- `self.num_qubits` (= `_nr_rows`)
  | lit (k : Int)
  | add (a b : GTerm)
  | sub (a b : GTerm)
  deriving DecidableEq, Repr

/-- the test of an `if … : raise …` statement -/
inductive GCond where
  | lt (a b : GTerm)
  | le (a b : GTerm)
  | eq (a b : GTerm)
  | ne (a b : GTerm)
  | and (p q : GCond)
  | or (p q : GCond)
  | not (p : GCond)
  | unrecognised (reason : String)
  deriving DecidableEq, Repr

structure Guard where
  line : Nat
  cond : GCond
  /-- the class raised when `cond` holds -/
  exc : String
  deriving DecidableEq, Repr

def GTerm.eval (args : List Int) (n : Int) : GTerm → Int
  | .arg i => args.getD i 0
  | .n => n
  | .lit k => k
  | .add a b => a.eval args n + b.eval args n
  | .sub a b => a.eval args n - b.eval args n

/-- truth of the Python test; a test the translator could not read counts as "raises" -/
def GCond.eval (args : List Int) (n : Int) : GCond → Bool
  | .lt a b => decide (a.eval args n < b.eval args n)
  | .le a b => decide (a.eval args n ≤ b.eval args n)
  | .eq a b => decide (a.eval args n = b.eval args n)
  | .ne a b => decide (a.eval args n ≠ b.eval args n)
  | .and p q => p.eval args n && q.eval args n
  | .or p q => p.eval args n || q.eval args n
  | .not p => !p.eval args n
  | .unrecognised _ => true

/-- some guard of the list fires on these arguments -/
def raises (gs : List Guard) (args : List Int) (n : Int) : Bool := gs.any fun g => g.cond.eval args n

end SqVerif.StabGen

"""C01 -- location transparency: the distributed simulation equals one ideal register
(simulaqron/virtual_node/virtual.py, quantum.py).

Thin module: program generation, execution of the REAL virtual-node code on
harness/simnet.py, the tie against the Lean model `VNet` (driver `vnet`:
result, engine-call trace and object-graph snapshot after EVERY op) and all
oracles live in harness/vnetcase.py.  This check owns the oracle
"reference register (state vector over all live logical qubits)";
failures of the other L2 oracles (owned by C01/C02/C05/C06/C07) are listed as
notes in the evidence."""
from .. import vnetcase

LEAN_TARGETS = ["SqVerif.Props.C01", "SqVerif.Props.C01Run", "SqVerif.Props.C01Engine", "SqVerif.Props.C01Joint"]
PROPS_FILE = ["SqVerif/Props/C01.lean", "SqVerif/Props/C01Run.lean", "SqVerif/Props/C01Engine.lean", "SqVerif/Props/C01Joint.lean"]
DRIVE_TARGETS = ["SqVerif.Drive.VNet"]
TRUSTED = [
    "model VNet.lean hand-written from virtual.py / quantum.py (after the repairs F1 F2 F3); tied by differential execution "
    "after every op: result, engine-call trace, object-graph snapshot (this check)",
    "harness/simnet.py: real virtualNode objects over real Perspective Broker on in-memory pipes, FIFO delivery, fake clock",
    "creation-order identities and the engine-call trace are taken by wrapping constructors / engine methods of the scratch "
    "copy from outside",
    "NumPy state-vector reference (complex128, tolerance 1e-8) and the conventions qubit 0 = leftmost factor, "
    "K = [[1,-i],[i,-1]]/sqrt2 (validated against the stabilizer code by C13/C14)",
]
ASSUMPTIONS = [
    "operations are issued one after the other, each to completion (interleavings are C03/C04)",
    "stabilizer backend, noise off; two-qubit gates only between handles held by the same node (the API cannot express more)",
    "no send addressed to the issuing node (deadlocks: known finding under C04)",
]


def run(ctx):
    return vnetcase.run_check(ctx, "C01")


def search(ctx, res, broken):
    return vnetcase.search(ctx, res, broken, "C01")

import SqVerif.TwoPLDyn
import SqVerif.TwoPLDynDrop
/-!
# C03 — T03.1′: two-phase locking with STATE-DEPENDENT guards ⇒ serializable

`Props/C03Skel.lean` (T03.1) and `Props/C03Bridge.lean` work with a static guard map `Res → Lock`; the bridge
lists "state-dependent guards" under `NotCovered`.  This file closes that item at the protocol level:

* `dyn_serializable` (T03.1′), `dyn_serial_equiv`, `dyn_results`, `dyn_conflicts_ordered`
                       every legal schedule of two-phase transactions under the dynamic discipline — an effect
                       holds the guard each resource of its footprint has NOW and the guard it has AFTERWARDS; an
                       effect leaves guards outside its footprint alone — has the same effect as the schedule
                       stably sorted by lock point: same final state (on every initial state), same
                       per-transaction results, every transaction's own order kept, conflicting steps keep their
                       order, serial when every transaction locks something.
* `dyn_weak_serializable`  the same modulo aborted lock attempts (optimistic "acquire, re-validate, else release
                       and retry"): premise `WeakTP` per transaction, conclusion about `dropAb [] s`.
* `pointer_serializable`   the pointer form: `guard σ r = if isPtr r then lockOf (σ r) else g r`; the guard frame
                       condition follows from locality of the effects.
* `static_is_special_case` `TwoPL.twoPL_serializable` is T03.1′ at `guard := fun _ => g`;
  `legalD_static_iff`  and for such a guard the dynamic legality IS the static one.
* `dyn_legal_of_lockExcl`   where `LegalD` comes from: exclusivity of the lock objects + each transaction's own
                       account of what it holds at each effect.
* `validated_pointer_stays_valid`  after a validated read, until the reader releases, nobody else touches the
                       pointer: the re-validation result can be trusted for the rest of the critical section.
* instance (`exDyn`)   two nodes, one pointer, `gate1` retrying once around a `merge`, a second `gate1` before
                       it, truly interleaved; all premises by `decide`/executable checkers; the serial order is
                       `gate1(3); merge(2); gate1(1)`; no static guard makes the schedule legal
                       (`exDyn_no_static_guard`).
* negative (`exBad`)   a re-pointing write that holds only the OLD lock: legal under "hold the current guard"
                       (`legalOldB`), two-phase, local — but not `LegalD`, and its final state differs from that
                       of BOTH serial orders (`old_lock_only_counterexample`).

All of it is FULL (no `_partial`): the sorting argument is generalised as it stands, for any number of pointer
resources per footprint and any number of re-pointings between two conflicting steps.

## Relation of the hypotheses to `virtual.py`   (line numbers: /repo/simulaqron/virtual_node/virtual.py)

**The pointer.**  `virtualQubit.simNode` / `.simQubit` (l.1253/1256) of a handle.  `lockOf v` = the global lock
(`virtualNode._lock`) of the node `v` that `simNode` names.  Per-node data (registers, `simQubits`) is guarded
statically by its node's lock.  This is `ptrGuard`.

**Readers** (hold the lock of the node the pointer names, then RE-VALIDATE):
* `_lock_simulating_node` (l.1746): `curr_sim_node = self.simNode` (unlocked read), `get_global_lock` on it,
  `if curr_sim_node != self.simNode:` release and recurse, else return.  Used by `_single_gate` (l.1268, and all
  `remote_apply_*`), `remote_measure` (l.1354), `remote_send_qubit` (l.673).
* `_lock_nodes` (l.1389): the same for control and target pointer at once (`control_sim_node != self.simNode or
  target_sim_node != target.simNode` ⇒ release all, recurse).  Used by `_two_qubit_gate` (l.1502).
  In the model: the failed attempts are `acq`/`rel` with no effect in between (`WeakTP`, removed by `dropAb`);
  the successful comparison `curr_sim_node == self.simNode` is the transaction's first effect: an effect with
  the pointer in its footprint, legal because the transaction holds `lockOf (σ ptr)`.
  NOT effects of the model: the initial unlocked read `curr_sim_node = self.simNode` and the FAILED comparison.
  They are dirty reads whose value only decides which lock is tried next; nothing computed from them survives
  the retry.  (Same treatment as the `check`s of the skeleton translation, which produce no step.)
* after the validation the code keeps using `self.simNode`/`self.simQubit` and asserts
  `locked_node == self.simNode` before releasing (l.1291, l.1383): `validated_pointer_stays_valid` is the reason this
  holds — provided EVERY writer obeys the discipline.

**The writer.**  `remote_merge_from` (l.959) → `remote_update_virtual_merge` (l.1027, `q.simNode = newSimNode;
q.simQubit = newD[givenNum]`, l.1078-1079), run inside `_two_qubit_gate` between `_lock_nodes` and the releases
in its `finally`.  The gate's transaction holds the locks of `virtNode`, old and new simulator (`ALL`); the merge
target asserts `self._lock.locked` (the NEW lock) and the caller holds the OLD one.  In the model: one
transaction whose re-pointing effect has the pointer in its footprint and holds `lockOf old` and `lockOf new`.

**What the skeleton obligations establish, and what they do not.**
* `merge_from_guarded_given_old` (`Props/C03Skel.lean`): inside `remote_merge_from`, GIVEN that the caller
  holds `OLD` and with `SELF` (= the new simulator) locked by contract (`requires SELF`), every call on the old
  simulator and every mutation of the new one — including the inlined re-pointing of the new simulator's own
  handles — is guarded.  Together with `two_qubit_gate_well_formed` (the caller holds `ALL` ⊇ old, new) this is
  the writer premise "holds old and new" for handles that live at the new simulator.
  It says nothing about WHICH lock guards the pointer: the skeleton files `q.simNode` as state of the handle's
  node (`mutate SELF "q.simNode"`), a static classification under which the readers above would be unguarded
  (they never take `virtNode`'s lock for a one-qubit gate).  The dynamic discipline proved sufficient here is
  the one the readers actually follow.
* readers: `ops_well_formed` / `ops_bridge_premises` + the alias `CUR = SIM c` give: every call on the simulated
  qubit happens while holding the lock acquired as `CUR`, and the alias event is emitted only on the branch
  where the comparison succeeded.  That is `LegalD` for the validated read and (statically) for the data
  effects.  That the alias stays true until the release was an ASSUMPTION of the bridge
  (`OpRun.Env.alias`, `NotCovered.StaticAssignment`); here it is the theorem `validated_pointer_stays_valid`.
* third nodes: `remote_update_virtual_merge` executed at a node that is neither old nor new re-points that
  node's handles.  As its own transaction it holds no lock (`update_virtual_merge_unguarded`), so it is NOT
  `LegalD`.  It is legal only when attributed to the calling gate's transaction (a synchronous nested call:
  `yield call_method(nb.root, "update_virtual_merge", …)` inside the critical section), which holds old and
  new.  That attribution is by reading, not a checked obligation.  And even then the iteration over the third
  node's `virtQubits` across a `yield` (F12; `measure_virtlist_unguarded`) is a violation of the STATIC guard of
  that list (the third node's own lock, held by nobody involved) — not repaired by T03.1′.  `exBad` below shows
  in the small what a write that misses one of the required locks does to serializability.
* still hypotheses, as in the bridge: exclusivity of the lock objects, locality of effects, program order, no
  lock time-out (`NotCovered.lockTimeout`), the unlocked `active` pre-tests (`NotCovered.activePretests`).
-/
namespace SqVerif.C03
open SqVerif.TwoPL SqVerif.SkelTwoPL SqVerif.TwoPLDyn

section Protocol
variable {V : Type}

/-- **T03.1′**: a schedule that is legal under the dynamic discipline from SOME lock table and data state, whose
    effects are local (`AllWF`) and leave the guards outside their footprint alone (`AllGF`), and whose
    transactions are two-phase, has the same effect on EVERY state as the schedule stably sorted by lock point. -/
theorem dyn_serializable (guard : DGuard V) (s : Sched V) (tbl : Tbl) (σ0 : St V)
    (hwf : AllWF s) (hgf : AllGF guard s) (h2p : AllTwoPhase s) (hleg : LegalD guard tbl σ0 s) (st : St V) :
    exec (sortR (rankOf s) s) st = exec s st :=
  twoPLDyn_serializable guard s tbl σ0 hwf hgf h2p hleg st

/-- packaged: a serial schedule with the same steps, every transaction's own order kept, same final state -/
theorem dyn_serial_equiv (guard : DGuard V) (s : Sched V) (tbl : Tbl) (σ0 : St V)
    (hwf : AllWF s) (hgf : AllGF guard s) (h2p : AllTwoPhase s) (hleg : LegalD guard tbl σ0 s) (hlock : AllLock s) :
    ∃ s' : Sched V, s'.Perm s ∧ (∀ t, proj t s' = proj t s) ∧ Serial s' ∧ ∀ st, exec s' st = exec s st :=
  twoPLDyn_serial_equiv guard s tbl σ0 hwf hgf h2p hleg hlock

/-- per-transaction results (a result is a resource) agree with the serial execution -/
theorem dyn_results (guard : DGuard V) (s : Sched V) (tbl : Tbl) (σ0 : St V)
    (hwf : AllWF s) (hgf : AllGF guard s) (h2p : AllTwoPhase s) (hleg : LegalD guard tbl σ0 s)
    (st : St V) (res : Tid → Res) (t : Tid) :
    exec (sortR (rankOf s) s) st (res t) = exec s st (res t) :=
  twoPLDyn_results guard s tbl σ0 hwf hgf h2p hleg st res t

/-- conflict equivalence: two steps of different transactions that share a resource — however often it was
    re-pointed in between — have strictly increasing lock points, so the sort never reorders them -/
theorem dyn_conflicts_ordered (guard : DGuard V) (s : Sched V) (tbl : Tbl) (σ0 : St V)
    (hgf : AllGF guard s) (h2p : AllTwoPhase s) (hleg : LegalD guard tbl σ0 s)
    (pre : Sched V) (x : Step V) (a : Sched V) (y : Step V) (b : Sched V) (hs : s = pre ++ x :: a ++ y :: b)
    (r : Res) (hx : r ∈ x.act.fp) (hy : r ∈ y.act.fp) (hne : x.tid ≠ y.tid) :
    rankOf s x.tid < rankOf s y.tid ∧
    ∀ p y' m x' q, sortR (rankOf s) s = p ++ y' :: m ++ x' :: q → y'.tid = y.tid → x'.tid ≠ x.tid :=
  conflict_order_kept guard s tbl σ0 hgf h2p hleg pre x a y b hs r hx hy hne

/-- T03.1′ modulo aborted attempts: with `WeakTP` per transaction instead of strict two-phase, `dropAb [] s`
    (all effects kept, in order) satisfies the premises of `dyn_serializable` and its sorted version has the
    effect of `s` -/
theorem dyn_weak_serializable (guard : DGuard V) (s : Sched V) (tbl : Tbl) (σ0 : St V)
    (hwf : AllWF s) (hgf : AllGF guard s) (h2p : ∀ t, WeakTP (acts t s)) (hleg : LegalD guard tbl σ0 s) :
    AllWF (dropAb [] s) ∧ AllGF guard (dropAb [] s) ∧ AllTwoPhase (dropAb [] s) ∧
    LegalD guard (pruneTbl [] s tbl) σ0 (dropAb [] s) ∧
    (dropAb [] s).filter (fun x => isEffA x.act) = s.filter (fun x => isEffA x.act) ∧
    ∀ st, exec (sortR (rankOf (dropAb [] s)) (dropAb [] s)) st = exec s st := by
  obtain ⟨h1, h2, h3, h4, h5⟩ := weak2plDyn_serializable guard s tbl σ0 hwf hgf h2p hleg
  exact ⟨h1, h2, h3, h4, dropAb_effs s [], h5⟩

/-- the pointer form: pointers are guarded by the lock their current value names, everything else statically;
    the frame condition is a consequence of locality -/
theorem pointer_serializable (isPtr : Res → Bool) (lockOf : V → Lock) (g : Res → Lock)
    (s : Sched V) (tbl : Tbl) (σ0 : St V)
    (hwf : AllWF s) (h2p : AllTwoPhase s) (hleg : LegalD (ptrGuard isPtr lockOf g) tbl σ0 s) (st : St V) :
    exec (sortR (rankOf s) s) st = exec s st :=
  twoPLDyn_serializable _ s tbl σ0 hwf
    (allGF_of_selfRead _ (ptrGuard_selfRead isPtr lockOf g) s hwf) h2p hleg st

/-- the static theorem T03.1 is the special case of a guard that does not depend on the state -/
theorem static_is_special_case (g : Res → Lock) (s : Sched V) (tbl : Tbl)
    (hwf : AllWF s) (h2p : AllTwoPhase s) (hleg : Legal g tbl s) (st : St V) :
    exec (sortR (rankOf s) s) st = exec s st :=
  twoPL_static_special_case g s tbl hwf h2p hleg st

/-- … and for such a guard the dynamic legality is the static one -/
theorem legalD_static_iff (g : Res → Lock) (s : Sched V) (tbl : Tbl) (σ : St V) :
    LegalD (fun _ => g) tbl σ s ↔ Legal g tbl s :=
  legalD_const g s tbl σ

/-- a validated pointer stays valid: `t` holds the guard `r` currently has and releases nothing during `a`;
    then no other transaction touches `r` during `a`, and afterwards `t` still holds the guard of `r` -/
theorem validated_pointer_stays_valid (guard : DGuard V) (r : Res) (t : Tid) (a rest : Sched V) (tbl : Tbl) (σ : St V)
    (hleg : LegalD guard tbl σ (a ++ rest)) (hgf : AllGF guard a)
    (hheld : tbl (guard σ r) = some t) (hnr : ∀ z, z ∈ a → isRelBy t z = false) :
    (∀ z, z ∈ a → z.tid ≠ t → r ∉ z.act.fp) ∧
    ∃ tbl', LegalD guard tbl' (exec a σ) rest ∧ tbl' (guard (exec a σ) r) = some t :=
  validated_pointer_stable guard r t a tbl σ rest hleg hgf hheld hnr

/-- where `LegalD` comes from: exclusivity of the lock objects (environment) + every transaction holds, by its
    own account, at each of its effects the locks the dynamic discipline asks for in the state in which the
    effect ran (`frozenActs` = the transaction's trace annotated with exactly those locks) -/
theorem dyn_legal_of_lockExcl (guard : DGuard V) (s : Sched V) (tbl : Tbl) (σ : St V) (hle : LockExcl tbl s)
    (hg : ∀ t, selfGuarded idGuard (frozenActs guard σ t s)) : LegalD guard tbl σ s :=
  legalD_of_lockExcl guard s tbl σ hle hg

end Protocol

/-! ### the instance: two nodes, one pointer, `gate1` retrying once around a `merge`

Nodes `0`, `1`; lock of node `n` is `10 + n`.  Resources: `0` = the pointer (value = node id), `1` = data of
node 0, `2` = data of node 1, `3` = the result of transaction 1 (private lock `13`). -/

def ptr : Res := 0

/-- the pointer is guarded by the lock of the node it names; node data by its node; everything else privately -/
def exGuardD : DGuard Nat :=
  ptrGuard (fun r => r == ptr) (fun v => 10 + v) (fun r => if r = 1 then 10 else if r = 2 then 11 else 10 + r)

/-- the re-validation `curr_sim_node == self.simNode`: reads the pointer, changes nothing -/
def rdPtr : St Nat → St Nat := mkEff 0 [0] (fun s => s)
/-- a one-qubit gate on the data of node 0 -/
def gateA : St Nat → St Nat := mkEff 0 [1] (fun s r => s r * 2 + 1)
/-- a one-qubit gate on the data of node 1, recording what it saw -/
def gateB : St Nat → St Nat := mkEff 0 [2, 3] (fun s r => if r = 2 then s 2 * 2 + 1 else s 2)
/-- the merge: node 1 absorbs node 0's data, the pointer is re-pointed from node 0 to node 1 -/
def mergeE : St Nat → St Nat := mkEff 0 [0, 1, 2] (fun s r => if r = 0 then 1 else if r = 1 then 0 else s 2 * 3 + s 1)

/-- transaction 3 = `gate1(ptr)` before the merge; 2 = `merge(ptr: 0 → 1)`; 1 = `gate1(ptr)` that read `ptr = 0`
    without a lock, obtains node 0's lock only after the merge, finds the pointer stale, releases, retries -/
def exDyn : Sched Nat :=
  [⟨1, .acq 13⟩,                    -- 1: its private result lock
   ⟨2, .acq 11⟩,                    -- 2: `_lock_nodes` gets the new simulator's lock …
   ⟨3, .acq 10⟩,                    -- 3: `_lock_simulating_node`: ptr names 0
   ⟨3, .eff [0] rdPtr⟩,             -- 3: re-validation, under lock 10 = lockOf ptr
   ⟨3, .eff [1] gateA⟩,             -- 3: the gate, on node 0's data
   ⟨3, .rel 10⟩,
   ⟨2, .acq 10⟩,                    -- 2: … and the old simulator's
   ⟨2, .eff [0] rdPtr⟩,             -- 2: re-validation of `_lock_nodes`
   ⟨2, .eff [0, 1, 2] mergeE⟩,      -- 2: `remote_merge_from` + `update_virtual_merge`: holds 10 (old) and 11 (new)
   ⟨2, .rel 10⟩,
   ⟨1, .acq 10⟩,                    -- 1: gets the lock of the node it read before the merge
   ⟨1, .rel 10⟩,                    -- 1: `curr_sim_node != self.simNode`: release, retry (no effect in between)
   ⟨2, .rel 11⟩,
   ⟨1, .acq 11⟩,                    -- 1: ptr names 1 now
   ⟨1, .eff [0] rdPtr⟩,             -- 1: re-validation succeeds
   ⟨1, .eff [2, 3] gateB⟩,          -- 1: the gate, on node 1's data
   ⟨1, .rel 11⟩,
   ⟨1, .rel 13⟩]

/-- initially the pointer names node 0; data 5 and 7 -/
def exσ0 : St Nat := fun r => if r = 1 then 5 else if r = 2 then 7 else 0

theorem exDyn_wf : AllWF exDyn := by
  intro x hx
  simp only [exDyn, List.mem_cons, List.not_mem_nil, or_false] at hx
  rcases hx with rfl | rfl | rfl | rfl | rfl | rfl | rfl | rfl | rfl | rfl | rfl | rfl | rfl | rfl | rfl | rfl |
    rfl | rfl <;> first | trivial | exact mkEff_local _ _ _

theorem exDyn_gf : AllGF exGuardD exDyn :=
  allGF_of_selfRead _ (ptrGuard_selfRead _ _ _) _ exDyn_wf

theorem exDyn_weakTP : ∀ t, WeakTP (acts t exDyn) := allWeakTPB_sound _ (by decide)

theorem exDyn_legal : LegalD exGuardD (fun _ => none) exσ0 exDyn := legalDB_sound _ _ _ _ (by decide)

-- `dyn_legal_of_lockExcl` on the instance: the lock steps are exclusive, and e.g. transaction 2's frozen trace
-- shows the merge needing locks 10 (old) and 11 (new), both acquired before and not yet released
example : LockExcl (fun _ => none) exDyn := lockExclB_sound _ _ (by decide)
example : (frozenActs exGuardD exσ0 2 exDyn).map (fun a => (isAcqA a, isRelA a, a.fp)) =
    [(true, false, []), (true, false, []), (false, false, [10, 10]), (false, false, [10, 10, 11, 11, 10, 11]),
     (false, true, []), (false, true, [])] := by decide
example : selfGuarded idGuard (frozenActs exGuardD exσ0 2 exDyn) := by
  simp [selfGuarded, frozenActs, acts, proj, freeze, frzStep, exDyn, selfGuardedFrom, holdStep, Act.fp, needLocks,
    idGuard, exGuardD, ptrGuard, ptr, rdPtr, gateA, mergeE, mkEff, exσ0, Act.run]

/-- the schedule without the aborted attempt of transaction 1 -/
def exDynC : Sched Nat := dropAb [] exDyn

/-- the instance satisfies every premise of `dyn_weak_serializable`; hence: -/
theorem exDyn_serializable :
    AllWF exDynC ∧ AllGF exGuardD exDynC ∧ AllTwoPhase exDynC ∧
    LegalD exGuardD (pruneTbl [] exDyn (fun _ => none)) exσ0 exDynC ∧
    exDynC.filter (fun x => isEffA x.act) = exDyn.filter (fun x => isEffA x.act) ∧
    ∀ st, exec (sortR (rankOf exDynC) exDynC) st = exec exDyn st :=
  dyn_weak_serializable exGuardD exDyn (fun _ => none) exσ0 exDyn_wf exDyn_gf exDyn_weakTP exDyn_legal

-- the raw schedule is not two-phase in the strict sense (the retry); the committed one is, and it is 2 steps shorter
example : allTwoPhaseB exDyn = false ∧ allTwoPhaseB exDynC = true ∧ exDyn.length = 18 ∧ exDynC.length = 16 := by
  decide
-- the serial order: gate1 (3), merge (2), gate1 (1) — although 1 started first
example : (sortR (rankOf exDynC) exDynC).map (·.tid) = [3, 3, 3, 3, 2, 2, 2, 2, 2, 2, 1, 1, 1, 1, 1, 1] := by decide
-- every transaction locks something, so the sorted schedule is serial
example : Serial (sortR (rankOf exDynC) exDynC) :=
  sortR_serial _ _ (fun x y hx _ h => rankOf_inj_of_acq _ x.tid y.tid
    (by
      have : exDynC.all (fun x => rankOf exDynC x.tid != 0) = true := by decide
      simpa using (List.all_eq_true.1 this) x hx) h)
-- concretely: ptr ends at node 1, node 0's data is gone, node 1 has 2·(3·7 + (2·5+1)) + 1 = 65, 1's result is 32
example : exec exDyn exσ0 0 = 1 ∧ exec exDyn exσ0 1 = 0 ∧ exec exDyn exσ0 2 = 65 ∧ exec exDyn exσ0 3 = 32 ∧
    exec (sortR (rankOf exDynC) exDynC) exσ0 2 = 65 ∧ exec (sortR (rankOf exDynC) exDynC) exσ0 3 = 32 := by decide
-- the pointer was read under lock 10 by transaction 3 and under lock 11 by transaction 1:
example : exGuardD exσ0 ptr = 10 ∧ exGuardD (exec exDyn exσ0) ptr = 11 := by decide
-- `dyn_serializable` / `dyn_results` directly on the committed schedule (strictly two-phase)
example : ∀ st, exec (sortR (rankOf exDynC) exDynC) st = exec exDynC st :=
  fun st => dyn_serializable exGuardD exDynC _ exσ0 exDyn_serializable.1 exDyn_serializable.2.1
    exDyn_serializable.2.2.1 exDyn_serializable.2.2.2.1 st
example : exec (sortR (rankOf exDynC) exDynC) exσ0 3 = exec exDynC exσ0 3 :=
  dyn_results exGuardD exDynC _ exσ0 exDyn_serializable.1 exDyn_serializable.2.1
    exDyn_serializable.2.2.1 exDyn_serializable.2.2.2.1 exσ0 (fun _ => 3) 1
-- `dyn_conflicts_ordered`: 3's read of the pointer (position 3) and 1's read (position 12) conflict across the
-- re-pointing: lock point of 3 (= 3) < lock point of 1 (= 12)
example : rankOf exDynC 3 < rankOf exDynC 1 :=
  (dyn_conflicts_ordered exGuardD exDynC _ exσ0 exDyn_serializable.2.1 exDyn_serializable.2.2.1
    exDyn_serializable.2.2.2.1 (exDynC.take 3) ⟨3, .eff [0] rdPtr⟩ ((exDynC.drop 4).take 8) ⟨1, .eff [0] rdPtr⟩
    (exDynC.drop 13) rfl ptr (by decide) (by decide) (by decide)).1
example : rankOf exDynC 3 = 3 ∧ rankOf exDynC 2 = 7 ∧ rankOf exDynC 1 = 12 := by decide
-- `validated_pointer_stays_valid`: from 3's validated read (position 3) up to, excluding, its release (position 5)
-- nobody else touches the pointer, and 3 still holds its guard
example : (∀ z, z ∈ (exDyn.drop 3).take 2 → z.tid ≠ 3 → ptr ∉ z.act.fp) ∧
    ∃ tbl', LegalD exGuardD tbl' (exec ((exDyn.drop 3).take 2) (exec (exDyn.take 3) exσ0)) (exDyn.drop 5) ∧
      tbl' (exGuardD (exec ((exDyn.drop 3).take 2) (exec (exDyn.take 3) exσ0)) ptr) = some 3 :=
  validated_pointer_stays_valid exGuardD ptr 3 ((exDyn.drop 3).take 2) (exDyn.drop 5)
    (upd (upd (upd (fun _ => none) 13 (some 1)) 11 (some 2)) 10 (some 3)) (exec (exDyn.take 3) exσ0)
    (legalDB_sound _ _ _ _ (by decide))
    (fun x hx => exDyn_gf x (List.mem_of_mem_drop (List.mem_of_mem_take hx)))
    (by decide) (by decide)
-- `static_is_special_case` / `legalD_static_iff`: a schedule that never touches the pointer is legal for the
-- static guard "pointer under lock 10" iff it is legal dynamically for that constant guard
example : Legal (exGuardD exσ0) (fun _ => none) (exDyn.take 6) ∧
    LegalD (fun _ => exGuardD exσ0) (fun _ => none) exσ0 (exDyn.take 6) :=
  ⟨legalB_sound _ _ _ (by decide), (legalD_static_iff _ _ _ _).2 (legalB_sound _ _ _ (by decide))⟩

/-- **the static theorem cannot express this schedule**: no static guard map makes it `Legal` — transaction 3
    reads the pointer holding only lock 10 (so the pointer's guard would have to be lock 10), and transaction 1
    reads it at a moment when lock 10 is free -/
theorem exDyn_no_static_guard (g : Res → Lock) : ¬ Legal g (fun _ => none) exDyn := by
  intro h
  -- transaction 3's read (position 3) forces `g ptr = 10`
  have hg : g 0 = 10 := by
    obtain ⟨tb, hrun, hstep⟩ := legal_prefix g (exDyn.take 3) (fun _ => none) ⟨3, .eff [0] rdPtr⟩ (exDyn.drop 4) h
    have hA : lockRun (fun _ => none) (exDyn.take 3) =
        some (upd (upd (upd (fun _ => none) 13 (some 1)) 11 (some 2)) 10 (some 3)) := rfl
    rw [hA] at hrun
    simp only [Option.some.injEq] at hrun
    subst hrun
    have := stepTbl_eff_needs g _ ⟨3, .eff [0] rdPtr⟩ [0] rdPtr rfl hstep 0 (by simp)
    by_cases e10 : g 0 = 10
    · exact e10
    · by_cases e11 : g 0 = 11 <;> by_cases e13 : g 0 = 13 <;> simp [upd, e10, e11, e13] at this
  -- transaction 1's read (position 14) needs lock `g ptr = 10`, which nobody holds then
  obtain ⟨tb, hrun, hstep⟩ := legal_prefix g (exDyn.take 14) (fun _ => none) ⟨1, .eff [0] rdPtr⟩ (exDyn.drop 15) h
  have := stepTbl_eff_needs g _ ⟨1, .eff [0] rdPtr⟩ [0] rdPtr rfl hstep 0 (by simp)
  rw [hg] at this
  have hB : (lockRun (fun _ => none) (exDyn.take 14)).map (fun t => t 10) = some none := by decide
  rw [hrun] at hB
  simp only [Option.map_some, Option.some.injEq] at hB
  rw [hB] at this
  cases this

/-! ### the negative example: a re-pointing write that holds only the OLD lock

Transaction 2 re-points the pointer from node 0 to node 1 holding only node 0's lock — at that moment it holds
"the guard of everything it touches" in the naive sense (`legalOldB`).  Transaction 1 holds node 1's lock, so
its validated read of the pointer (now naming node 1) is legal too.  The result: 1 sees 2's pointer write, 2
sees 1's data write — a conflict cycle.  In the same spirit as F12, where `remote_update_virtual_merge` /
`remote_measure` change a third node's `virtQubits` without that node's lock: ONE lock missing at a write. -/

/-- re-point: node 0 → node 1 -/
def repoint : St Nat → St Nat := mkEff 0 [0] (fun _ _ => 1)
/-- validated read of the pointer, used in a gate on node 1's data -/
def gateP : St Nat → St Nat := mkEff 0 [0, 2] (fun s r => if r = 2 then s 2 * 10 + s 0 else s r)
/-- the writer's second step, on node 1's data -/
def add5 : St Nat → St Nat := mkEff 0 [2] (fun s r => s r + 5)

def exBad : Sched Nat :=
  [⟨2, .acq 10⟩,
   ⟨1, .acq 11⟩,
   ⟨2, .eff [0] repoint⟩,          -- holds 10 = lockOf (old ptr); the new guard, 11, is held by transaction 1
   ⟨1, .eff [0, 2] gateP⟩,         -- holds 11 = lockOf (current ptr): legal under either discipline
   ⟨1, .rel 11⟩,
   ⟨2, .acq 11⟩,
   ⟨2, .eff [2] add5⟩,
   ⟨2, .rel 10⟩,
   ⟨2, .rel 11⟩]

/-- the two serial executions of the same two transactions -/
def exBadSerial21 : Sched Nat := proj 2 exBad ++ proj 1 exBad
def exBadSerial12 : Sched Nat := proj 1 exBad ++ proj 2 exBad

theorem exBad_wf : AllWF exBad := by
  intro x hx
  simp only [exBad, List.mem_cons, List.not_mem_nil, or_false] at hx
  rcases hx with rfl | rfl | rfl | rfl | rfl | rfl | rfl | rfl | rfl <;> first | trivial | exact mkEff_local _ _ _

/-- **"hold the old lock only" is not enough.**  `exBad` has local, guard-framed effects, is two-phase, and every
    effect holds the guard that each resource of its footprint has when the effect starts — yet it is not
    `LegalD` (the premise of T03.1′ fails exactly at the re-pointing write), its final state differs from the
    final state of both serial executions, and sorting by lock point changes its effect. -/
theorem old_lock_only_counterexample :
    AllWF exBad ∧ AllGF exGuardD exBad ∧ AllTwoPhase exBad ∧
    legalOldB exGuardD (fun _ => none) (fun _ => 0) exBad = true ∧
    ¬ LegalD exGuardD (fun _ => none) (fun _ => 0) exBad ∧
    ¬ LegalD exGuardD (fun _ => none) (fun _ => 0) (exBad.take 3) ∧
    LegalD exGuardD (fun _ => none) (fun _ => 0) (exBad.take 2) ∧
    exec exBad (fun _ => 0) ≠ exec exBadSerial21 (fun _ => 0) ∧
    exec exBad (fun _ => 0) ≠ exec exBadSerial12 (fun _ => 0) ∧
    exec (sortR (rankOf exBad) exBad) (fun _ => 0) ≠ exec exBad (fun _ => 0) := by
  refine ⟨exBad_wf, allGF_of_selfRead _ (ptrGuard_selfRead _ _ _) _ exBad_wf, allTwoPhaseB_sound _ (by decide),
    by decide, ?_, ?_, legalDB_sound _ _ _ _ (by decide), ?_, ?_, ?_⟩
  · intro h
    have := legalDB_complete _ _ _ _ h
    revert this; decide
  · intro h
    have := legalDB_complete _ _ _ _ h
    revert this; decide
  · intro h
    have : exec exBad (fun _ => 0) 2 = exec exBadSerial21 (fun _ => 0) 2 := by rw [h]
    revert this; decide
  · intro h
    have : exec exBad (fun _ => 0) 2 = exec exBadSerial12 (fun _ => 0) 2 := by rw [h]
    revert this; decide
  · intro h
    have : exec (sortR (rankOf exBad) exBad) (fun _ => 0) 2 = exec exBad (fun _ => 0) 2 := by rw [h]
    revert this; decide

-- node 1's data: interleaved 6; serial "2 then 1" 51; serial "1 then 2" 5
example : exec exBad (fun _ => 0) 2 = 6 ∧ exec exBadSerial21 (fun _ => 0) 2 = 51 ∧
    exec exBadSerial12 (fun _ => 0) 2 = 5 := by decide
-- with the missing lock taken before the write the same transactions cannot interleave like this: the writer's
-- `acq 11` is refused while transaction 1 holds it
example : legalDB exGuardD (fun _ => none) (fun _ => 0)
    [⟨2, .acq 10⟩, ⟨1, .acq 11⟩, ⟨2, .acq 11⟩] = false := by decide

end SqVerif.C03

import SqVerif.SkelLemmas
/-!
# Paths of skeletons: pruning the time-out branches keeps genuine paths; builders for concrete paths

* `noTimeout_paths`  every path of `noTimeout s` is a path of `s` (the one on which no lock timer fires first), so
  a statement about "all paths of `noTimeout s`" is a statement about genuine paths of the method.
* `Sem.*` builders   to exhibit a concrete path of a concrete skeleton (used for the non-vacuity examples).
-/
namespace SqVerif.Skel

theorem iter_mono {B B' : Rel} (h : ∀ φ tr e φ', B φ tr e φ' → B' φ tr e φ') {φ : Flags} {tr : List Ev} {e : Exit}
    {φ' : Flags} (hi : Iter B φ tr e φ') : Iter B' φ tr e φ' := by
  induction hi with
  | done hb hne => exact Iter.done (h _ _ _ _ hb) hne
  | again hb _ ih => exact Iter.again (h _ _ _ _ hb) ih

theorem noTimeout_sem : ∀ (s : Stmt) (φ : Flags) (tr : List Ev) (e : Exit) (φ' : Flags),
    Sem (noTimeout s) φ tr e φ' → Sem s φ tr e φ' := by
  intro s
  induction s with
  | ite c a b iha ihb =>
    intro φ tr e φ' h
    cases c with
    | timeout =>
      simp only [noTimeout] at h
      exact Or.inr ⟨rfl, ihb _ _ _ _ h⟩
    | any =>
      simp only [noTimeout] at h
      rcases h with ⟨hc, h⟩ | ⟨hc, h⟩
      · exact Or.inl ⟨hc, iha _ _ _ _ h⟩
      · exact Or.inr ⟨hc, ihb _ _ _ _ h⟩
    | isSet i =>
      simp only [noTimeout] at h
      rcases h with ⟨hc, h⟩ | ⟨hc, h⟩
      · exact Or.inl ⟨hc, iha _ _ _ _ h⟩
      · exact Or.inr ⟨hc, ihb _ _ _ _ h⟩
    | notSet i =>
      simp only [noTimeout] at h
      rcases h with ⟨hc, h⟩ | ⟨hc, h⟩
      · exact Or.inl ⟨hc, iha _ _ _ _ h⟩
      · exact Or.inr ⟨hc, ihb _ _ _ _ h⟩
  | seq a b iha ihb =>
    intro φ tr e φ' h
    simp only [noTimeout] at h
    rcases h with ⟨h, hne⟩ | ⟨tr1, φ1, tr2, h1, h2, rfl⟩
    · exact Or.inl ⟨iha _ _ _ _ h, hne⟩
    · exact Or.inr ⟨tr1, φ1, tr2, iha _ _ _ _ h1, ihb _ _ _ _ h2, rfl⟩
  | loop b ih =>
    intro φ tr e φ' h
    simp only [noTimeout] at h
    obtain ⟨e0, hit, rfl⟩ := h
    exact ⟨e0, iter_mono ih hit, rfl⟩
  | scope b ih =>
    intro φ tr e φ' h
    simp only [noTimeout] at h
    obtain ⟨e0, hs, rfl⟩ := h
    exact ⟨e0, ih _ _ _ _ hs, rfl⟩
  | tryFinally b f ihb ihf =>
    intro φ tr e φ' h
    simp only [noTimeout] at h
    obtain ⟨tr1, e1, φ1, tr2, e2, hb, hf, rfl, rfl⟩ := h
    exact ⟨tr1, e1, φ1, tr2, e2, ihb _ _ _ _ hb, ihf _ _ _ _ hf, rfl, rfl⟩
  | tryExcept b hd ihb ihh =>
    intro φ tr e φ' h
    simp only [noTimeout] at h
    rcases h with h | ⟨tr1, φ1, tr2, h1, h2, rfl⟩
    · exact Or.inl (ihb _ _ _ _ h)
    · exact Or.inr ⟨tr1, φ1, tr2, ihb _ _ _ _ h1, ihh _ _ _ _ h2, rfl⟩
  | tryCatch b hd ihb ihh =>
    intro φ tr e φ' h
    simp only [noTimeout] at h
    rcases h with ⟨h, hne⟩ | ⟨tr1, φ1, tr2, h1, h2, rfl⟩
    · exact Or.inl ⟨ihb _ _ _ _ h, hne⟩
    · exact Or.inr ⟨tr1, φ1, tr2, ihb _ _ _ _ h1, ihh _ _ _ _ h2, rfl⟩
  | skip => intro φ tr e φ' h; exact h
  | acquire l b => intro φ tr e φ' h; exact h
  | release l => intro φ tr e φ' h; exact h
  | qlock q => intro φ tr e φ' h; exact h
  | qunlock q => intro φ tr e φ' h; exact h
  | cancel l => intro φ tr e φ' h; exact h
  | alias x y => intro φ tr e φ' h; exact h
  | requires l => intro φ tr e φ' h; exact h
  | call r m q => intro φ tr e φ' h; exact h
  | mutate r f => intro φ tr e φ' h; exact h
  | check k => intro φ tr e φ' h; exact h
  | raise k => intro φ tr e φ' h; exact h
  | ret => intro φ tr e φ' h; exact h
  | brk => intro φ tr e φ' h; exact h
  | cont => intro φ tr e φ' h; exact h
  | setFlag i v => intro φ tr e φ' h; exact h
  | «opaque» w => intro φ tr e φ' h; trivial

/-- the paths that remain after pruning the time-out branches are genuine paths of the method: those on which
    no lock timer fires before the lock is granted -/
theorem noTimeout_paths (s : Stmt) (tr : List Ev) (e : Exit) (h : paths (noTimeout s) tr e) : paths s tr e := by
  obtain ⟨φ', hs⟩ := h
  exact ⟨φ', noTimeout_sem s _ _ _ _ hs⟩

/-! ### builders -/

theorem Sem.seqN {a b : Stmt} {φ φ1 φ2 : Flags} {t1 t2 : List Ev} {e : Exit}
    (h1 : Sem a φ t1 .norm φ1) (h2 : Sem b φ1 t2 e φ2) : Sem (.seq a b) φ (t1 ++ t2) e φ2 :=
  Or.inr ⟨t1, φ1, t2, h1, h2, rfl⟩

theorem Sem.seqStop {a b : Stmt} {φ φ1 : Flags} {t1 : List Ev} {e : Exit}
    (h1 : Sem a φ t1 e φ1) (hne : e ≠ .norm) : Sem (.seq a b) φ t1 e φ1 :=
  Or.inl ⟨h1, hne⟩

theorem Sem.iteThen {c : Cond} {a b : Stmt} {φ φ1 : Flags} {t : List Ev} {e : Exit}
    (hc : c.canThen φ = true) (h : Sem a φ t e φ1) : Sem (.ite c a b) φ t e φ1 := Or.inl ⟨hc, h⟩

theorem Sem.iteElse {c : Cond} {a b : Stmt} {φ φ1 : Flags} {t : List Ev} {e : Exit}
    (hc : c.canElse φ = true) (h : Sem b φ t e φ1) : Sem (.ite c a b) φ t e φ1 := Or.inr ⟨hc, h⟩

theorem Sem.scopeOf {b : Stmt} {φ φ1 : Flags} {t : List Ev} {e0 : Exit}
    (h : Sem b φ t e0 φ1) : Sem (.scope b) φ t e0.unscope φ1 := ⟨e0, h, rfl⟩

theorem Sem.finallyOf {b f : Stmt} {φ φ1 φ2 : Flags} {t1 t2 : List Ev} {e1 : Exit}
    (hb : Sem b φ t1 e1 φ1) (hf : Sem f φ1 t2 .norm φ2) : Sem (.tryFinally b f) φ (t1 ++ t2) e1 φ2 :=
  ⟨t1, e1, φ1, t2, .norm, hb, hf, rfl, rfl⟩

theorem Sem.tryOk {b h : Stmt} {φ φ1 : Flags} {t : List Ev} {e : Exit}
    (hb : Sem b φ t e φ1) : Sem (.tryExcept b h) φ t e φ1 := Or.inl hb

theorem Sem.loopDone {b : Stmt} {φ φ1 : Flags} {t : List Ev} {e0 : Exit}
    (h : Sem b φ t e0 φ1) (hne : e0 ≠ .cont) : Sem (.loop b) φ t e0.unloop φ1 :=
  ⟨e0, Iter.done h hne, rfl⟩

theorem Sem.loopAgain {b : Stmt} {φ φ1 φ2 : Flags} {t1 t2 : List Ev} {e : Exit}
    (h1 : Sem b φ t1 .cont φ1) (h2 : Sem (.loop b) φ1 t2 e φ2) : Sem (.loop b) φ (t1 ++ t2) e φ2 := by
  obtain ⟨e0, hit, he⟩ := h2
  exact ⟨e0, Iter.again h1 hit, he⟩

end SqVerif.Skel

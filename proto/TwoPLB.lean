import TwoPL
namespace TwoPL
variable {V : Type}

abbrev Tbl := Lock → Option Tid
def upd (tbl : Tbl) (l : Lock) (v : Option Tid) : Tbl := fun l' => if l' = l then v else tbl l'

/-- one step of the lock table; `none` = illegal -/
def stepTbl (guard : Res → Lock) (tbl : Tbl) (x : Step V) : Option Tbl :=
  match x.act with
  | .acq l => if tbl l = none then some (upd tbl l (some x.tid)) else none
  | .rel l => if tbl l = some x.tid then some (upd tbl l none) else none
  | .eff fp _ => if fp.all (fun r => tbl (guard r) == some x.tid) then some tbl else none

def Legal (guard : Res → Lock) : Tbl → Sched V → Prop
  | _, [] => True
  | tbl, x :: xs => ∃ tbl', stepTbl guard tbl x = some tbl' ∧ Legal guard tbl' xs

def isAcqBy (t : Tid) (x : Step V) : Bool := match x.act with | .acq _ => x.tid == t | _ => false
def isRelBy (t : Tid) (x : Step V) : Bool := match x.act with | .rel _ => x.tid == t | _ => false

/-- lock point of `t`: 1 + index of its last acquire (0 if none), list starting at offset `i` -/
def lp (t : Tid) : Nat → Sched V → Nat
  | _, [] => 0
  | i, x :: xs => if isAcqBy t x then max (i+1) (lp t (i+1) xs) else lp t (i+1) xs

/-- no acquire of `t` after a release of `t` -/
def TwoPhase (t : Tid) (s : Sched V) : Prop :=
  ∀ pre mid post r a, s = pre ++ r :: mid ++ a :: post → isRelBy t r = true → isAcqBy t a = false

theorem lp_append (t : Tid) (i : Nat) (l1 l2 : Sched V) :
    lp t i (l1 ++ l2) = max (lp t i l1) (lp t (i + l1.length) l2) := by
  induction l1 generalizing i with
  | nil => simp [lp]
  | cons x xs ih =>
    simp only [List.cons_append, lp, List.length_cons]
    rw [ih (i+1)]
    have : i + 1 + xs.length = i + (xs.length + 1) := by omega
    rw [this]
    split <;> omega

theorem lp_le (t : Tid) (i : Nat) (l : Sched V) : lp t i l ≤ i + l.length := by
  induction l generalizing i with
  | nil => simp [lp]
  | cons x xs ih =>
    simp only [lp, List.length_cons]
    have := ih (i+1)
    split <;> omega

theorem lp_noacq (t : Tid) (i : Nat) (l : Sched V) (h : ∀ x, x ∈ l → isAcqBy t x = false) : lp t i l = 0 := by
  induction l generalizing i with
  | nil => rfl
  | cons x xs ih =>
    simp only [lp]
    rw [h x (by simp)]
    simp
    exact ih (i+1) (fun y hy => h y (by simp [hy]))

theorem lp_ge (t : Tid) (i : Nat) (x : Step V) (l : Sched V) (h : isAcqBy t x = true) : i + 1 ≤ lp t i (x :: l) := by
  simp only [lp, h]; simp; omega

/-- hand-off: if `t1` holds `l` and later a step of `t2 ≠ t1` is legal that needs `l`,
    then in between `t1` releases `l` and afterwards `t2` acquires it -/
theorem handoff (guard : Res → Lock) (l : Lock) (t1 t2 : Tid) (hne : t1 ≠ t2)
    (a : Sched V) (y : Step V) (b : Sched V) (tbl : Tbl)
    (hheld : tbl l = some t1)
    (hleg : Legal guard tbl (a ++ y :: b))
    (hy : ∀ tbl', stepTbl guard tbl' y ≠ none → tbl' l = some t2) :
    ∃ a1 r a2 c a3, a = a1 ++ r :: a2 ++ c :: a3 ∧ isRelBy t1 r = true ∧ isAcqBy t2 c = true := by
  -- generalised: either still held by t1, or free-after-release, tracked by induction on `a`
  suffices H : ∀ (a : Sched V) (tbl : Tbl), Legal guard tbl (a ++ y :: b) →
      (tbl l = some t1 → ∃ a1 r a2 c a3, a = a1 ++ r :: a2 ++ c :: a3 ∧ isRelBy t1 r = true ∧ isAcqBy t2 c = true) ∧
      (tbl l ≠ some t2 → ∃ a2 c a3, a = a2 ++ c :: a3 ∧ isAcqBy t2 c = true) from (H a tbl hleg).1 hheld
  intro a
  induction a with
  | nil =>
    intro tbl hleg
    obtain ⟨tbl', hs, _⟩ := hleg
    have := hy tbl (by rw [hs]; simp)
    constructor
    · intro h; rw [h] at this; simp at this; exact absurd this hne
    · intro h; exact absurd this h
  | cons x xs ih =>
    intro tbl hleg
    obtain ⟨tbl', hs, hrest⟩ := hleg
    have IH := ih tbl' hrest
    -- what did x do to lock l ?
    constructor
    · intro hh
      by_cases hrel : isRelBy t1 x = true
      · -- x releases something as t1; whatever it is, afterwards look for acq by t2
        by_cases h2 : tbl' l = some t2
        · -- impossible: a release step cannot make t2 the holder
          exfalso
          unfold isRelBy at hrel
          unfold stepTbl at hs
          split at hrel
          · rename_i l' hact
            rw [hact] at hs
            simp only at hs
            split at hs
            · simp at hs; subst hs
              unfold upd at h2
              split at h2
              · simp at h2
              · rw [hh] at h2; simp at h2; exact hne h2
            · simp at hs
          · simp at hrel
        · obtain ⟨a2, c, a3, he, hc⟩ := IH.2 h2
          exact ⟨[], x, a2, c, a3, by simp [he], hrel, hc⟩
      · -- x is not a release by t1, so t1 still holds l afterwards
        have hstill : tbl' l = some t1 := by
          unfold stepTbl at hs
          split at hs
          · rename_i l' hact
            split at hs
            · rename_i hfree
              simp at hs; subst hs
              unfold upd
              split
              · rename_i heq; subst heq; rw [hh] at hfree; simp at hfree
              · exact hh
            · simp at hs
          · rename_i l' hact
            split at hs
            · rename_i hown
              simp at hs; subst hs
              unfold upd
              split
              · rename_i heq; subst heq
                rw [hh] at hown; simp at hown
                exfalso; apply hrel
                unfold isRelBy; rw [hact]; simp [hown]
              · exact hh
            · simp at hs
          · split at hs
            · simp at hs; subst hs; exact hh
            · simp at hs
        obtain ⟨a1, r, a2, c, a3, he, hr, hc⟩ := IH.1 hstill
        exact ⟨x :: a1, r, a2, c, a3, by simp [he], hr, hc⟩
    · intro hn2
      by_cases hacq : isAcqBy t2 x = true
      · exact ⟨[], x, xs, by simp, hacq⟩
      · have hn2' : tbl' l ≠ some t2 := by
          unfold stepTbl at hs
          split at hs
          · rename_i l' hact
            split at hs
            · simp at hs; subst hs
              unfold upd
              split
              · rename_i heq; subst heq
                intro h; simp at h
                apply hacq; unfold isAcqBy; rw [hact]; simp [h]
              · exact hn2
            · simp at hs
          · rename_i l' hact
            split at hs
            · simp at hs; subst hs
              unfold upd
              split
              · simp
              · exact hn2
            · simp at hs
          · split at hs
            · simp at hs; subst hs; exact hn2
            · simp at hs
        obtain ⟨a2, c, a3, he, hc⟩ := IH.2 hn2'
        exact ⟨x :: a2, c, a3, by simp [he], hc⟩

end TwoPL

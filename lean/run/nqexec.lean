import SqVerif.Drive.NqExec
/- `lake env lean --run run/nqexec.lean`: one message per input line, one canonical observation per output line. -/
def main : IO Unit :=
  SqVerif.Drive.loopState (SqVerif.NqExec.St.fresh 0 []) SqVerif.Drive.NqExec.stepLine

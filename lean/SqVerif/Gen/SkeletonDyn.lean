/- GENERATED on every run by harness/gen/skeldyn.py from simulaqron/virtual_node/virtual.py — do not edit.
   Pointer skeletons (who reads / re-points a handle's `simNode` / `simQubit`, under which node lock) of every method
   that accesses such a pointer, found by walking the AST, and of every method that reaches one through calls.
   The obligations over them are in Props/C03DynBridge.lean.

   trusted identifications used:
     <handle>.virtNode => self
     virtualNode: self => self
     virtualNode: self.myID => self
   field reads set aside (objects of another class): remote_new_qubit_inreg: reg.simNode
-/
import SqVerif.SkelDyn
namespace SqVerif.GenDyn
open SqVerif.Skel (Handle)
open SqVerif.Skel.Handle
open SqVerif.SkelDyn SqVerif.SkelDyn.DStmt
open SqVerif.SkelDyn.DStmt hiding ite raise

/-- the translator ran to completion -/
def translatorOK : Bool := true

/-- `virtualNode.remote_netqasm_send_qubit` (line 514) -/
def N_remote_netqasm_send_qubit : DStmt :=
  dblock [
    mayRaise,
    -- inlined virtualNode.remote_send_qubit  [self.remote_send_qubit]
    scope
      (dblock [
        DStmt.ite .any
          (ret)
          (skip),
        mayRaise,
        ev (.acq [.self] false),
        mayRaise,
        tryFinally
          (dblock [
            DStmt.ite .any
              (dblock [
                ev (.reval .c .self true),
                tryExcept
                  (dblock [
                    ev (.use .c),
                    mayRaise
                  ])
                  (mayRaise)
              ])
              (dblock [
                ev (.reval .c .self false),
                -- inlined virtualQubit._lock_simulating_node  [qubit._lock_simulating_node]
                scope
                  (loop
                    (dblock [
                      ev (.readPtr .c 1),
                      DStmt.ite .any
                        (ret)
                        (skip),
                      mayRaise,
                      ev (.acq [(.cap 1)] false),
                      mayRaise,
                      DStmt.ite .any
                        (dblock [
                          ev (.reval .c (.cap 1) false),
                          ev (.rel [(.cap 1)]),
                          mayRaise,
                          cont
                        ])
                        (dblock [
                          ev (.reval .c (.cap 1) true),
                          ret
                        ])
                    ])),
                tryFinally
                  (dblock [
                    tryExcept
                      (dblock [
                        ev (.use .c),
                        mayRaise
                      ])
                      (mayRaise),
                    tryExcept
                      (dblock [
                        ev (.use .c),
                        mayRaise
                      ])
                      (mayRaise)
                  ])
                  (DStmt.ite .any
                    (dblock [
                      ev (.rel [(.cap 1)]),
                      mayRaise
                    ])
                    (skip))
              ]),
            mayRaise
          ])
          (dblock [
            ev (.rel [.self]),
            mayRaise
          ]),
        ret
      ]),
    mayRaise
  ]

/-- `virtualNode.remote_netqasm_send_epr_half` (line 592) -/
def N_remote_netqasm_send_epr_half : DStmt :=
  dblock [
    DStmt.ite .any
      (skip)
      (dblock [
        mayRaise,
        -- inlined virtualNode.remote_send_qubit  [self.remote_send_qubit]
        scope
          (dblock [
            DStmt.ite .any
              (ret)
              (skip),
            mayRaise,
            ev (.acq [.self] false),
            mayRaise,
            tryFinally
              (dblock [
                DStmt.ite .any
                  (dblock [
                    ev (.reval .c .self true),
                    tryExcept
                      (dblock [
                        ev (.use .c),
                        mayRaise
                      ])
                      (mayRaise)
                  ])
                  (dblock [
                    ev (.reval .c .self false),
                    -- inlined virtualQubit._lock_simulating_node  [qubit._lock_simulating_node]
                    scope
                      (loop
                        (dblock [
                          ev (.readPtr .c 1),
                          DStmt.ite .any
                            (ret)
                            (skip),
                          mayRaise,
                          ev (.acq [(.cap 1)] false),
                          mayRaise,
                          DStmt.ite .any
                            (dblock [
                              ev (.reval .c (.cap 1) false),
                              ev (.rel [(.cap 1)]),
                              mayRaise,
                              cont
                            ])
                            (dblock [
                              ev (.reval .c (.cap 1) true),
                              ret
                            ])
                        ])),
                    tryFinally
                      (dblock [
                        tryExcept
                          (dblock [
                            ev (.use .c),
                            mayRaise
                          ])
                          (mayRaise),
                        tryExcept
                          (dblock [
                            ev (.use .c),
                            mayRaise
                          ])
                          (mayRaise)
                      ])
                      (DStmt.ite .any
                        (dblock [
                          ev (.rel [(.cap 1)]),
                          mayRaise
                        ])
                        (skip))
                  ]),
                mayRaise
              ])
              (dblock [
                ev (.rel [.self]),
                mayRaise
              ]),
            ret
          ])
      ]),
    mayRaise
  ]

/-- `virtualNode.remote_send_qubit` (line 678) -/
def N_remote_send_qubit : DStmt :=
  dblock [
    DStmt.ite .any
      (ret)
      (skip),
    mayRaise,
    ev (.acq [.self] false),
    mayRaise,
    tryFinally
      (dblock [
        DStmt.ite .any
          (dblock [
            ev (.reval .c .self true),
            tryExcept
              (dblock [
                ev (.use .c),
                mayRaise
              ])
              (mayRaise)
          ])
          (dblock [
            ev (.reval .c .self false),
            -- inlined virtualQubit._lock_simulating_node  [qubit._lock_simulating_node]
            scope
              (loop
                (dblock [
                  ev (.readPtr .c 1),
                  DStmt.ite .any
                    (ret)
                    (skip),
                  mayRaise,
                  ev (.acq [(.cap 1)] false),
                  mayRaise,
                  DStmt.ite .any
                    (dblock [
                      ev (.reval .c (.cap 1) false),
                      ev (.rel [(.cap 1)]),
                      mayRaise,
                      cont
                    ])
                    (dblock [
                      ev (.reval .c (.cap 1) true),
                      ret
                    ])
                ])),
            tryFinally
              (dblock [
                tryExcept
                  (dblock [
                    ev (.use .c),
                    mayRaise
                  ])
                  (mayRaise),
                tryExcept
                  (dblock [
                    ev (.use .c),
                    mayRaise
                  ])
                  (mayRaise)
              ])
              (DStmt.ite .any
                (dblock [
                  ev (.rel [(.cap 1)]),
                  mayRaise
                ])
                (skip))
          ]),
        mayRaise
      ])
      (dblock [
        ev (.rel [.self]),
        mayRaise
      ]),
    ret
  ]

/-- `virtualNode.remote_merge_from` (line 964) -/
def N_remote_merge_from : DStmt :=
  dblock [
    ev (.requires .self),
    mayRaise,
    loop
      (DStmt.ite .any
        (dblock [
          mayRaise,
          cont
        ])
        (skip)),
    loop
      (DStmt.ite .any
        (dblock [
          DStmt.ite .any
            (dblock [
              mayRaise,
              tryExcept
                -- inlined virtualNode.remote_update_virtual_merge  [call_method(nb.root, 'update_virtual_merge')]
                (scope
                  (dblock [
                    mayRaise,
                    ev (.iter .peer),
                    loop
                      (DStmt.ite .any
                        (dblock [
                          ev (.bind .q),
                          DStmt.ite .any
                            (dblock [
                              ev (.reval .q .peer true),
                              ev (.reval .q (.arg "simNodeName") true),
                              ev (.use .q),
                              ev (.use .q)
                            ])
                            (dblock [
                              ev (.reval .q .peer false),
                              ev (.reval .q (.arg "simNodeName") false),
                              DStmt.ite .any
                                (dblock [
                                  ev (.reval .q (.arg "simNodeName") true),
                                  tryExcept
                                    (dblock [
                                      ev (.use .q),
                                      mayRaise
                                    ])
                                    (mayRaise)
                                ])
                                (ev (.reval .q (.arg "simNodeName") false))
                            ]),
                          DStmt.ite .any
                            (dblock [
                              ev (.reval .q (.arg "simNodeName") true),
                              ev (.repoint .q .self)
                            ])
                            (ev (.reval .q (.arg "simNodeName") false)),
                          cont
                        ])
                        (skip)),
                    ev (.bind .q)
                  ]))
                (mayRaise)
            ])
            (skip),
          cont
        ])
        (skip)),
    -- inlined virtualNode.remote_update_virtual_merge  [self.remote_update_virtual_merge]
    scope
      (dblock [
        mayRaise,
        ev (.iter .self),
        loop
          (DStmt.ite .any
            (dblock [
              ev (.bind .q),
              DStmt.ite .any
                (dblock [
                  ev (.reval .q .self true),
                  ev (.reval .q (.arg "simNodeName") true),
                  ev (.use .q),
                  ev (.use .q)
                ])
                (dblock [
                  ev (.reval .q .self false),
                  ev (.reval .q (.arg "simNodeName") false),
                  DStmt.ite .any
                    (dblock [
                      ev (.reval .q (.arg "simNodeName") true),
                      tryExcept
                        (dblock [
                          ev (.use .q),
                          mayRaise
                        ])
                        (mayRaise)
                    ])
                    (ev (.reval .q (.arg "simNodeName") false))
                ]),
              DStmt.ite .any
                (dblock [
                  ev (.reval .q (.arg "simNodeName") true),
                  ev (.repoint .q .self)
                ])
                (ev (.reval .q (.arg "simNodeName") false)),
              cont
            ])
            (skip)),
        ev (.bind .q)
      ]),
    ret
  ]

/-- `virtualNode.remote_update_virtual_merge` (line 1032) -/
def N_remote_update_virtual_merge : DStmt :=
  dblock [
    mayRaise,
    ev (.iter .self),
    loop
      (DStmt.ite .any
        (dblock [
          ev (.bind .q),
          DStmt.ite .any
            (dblock [
              ev (.reval .q .self true),
              ev (.reval .q (.arg "oldSimNodeName") true),
              ev (.use .q),
              ev (.use .q)
            ])
            (dblock [
              ev (.reval .q .self false),
              ev (.reval .q (.arg "oldSimNodeName") false),
              DStmt.ite .any
                (dblock [
                  ev (.reval .q (.arg "oldSimNodeName") true),
                  tryExcept
                    (dblock [
                      ev (.use .q),
                      mayRaise
                    ])
                    (mayRaise)
                ])
                (ev (.reval .q (.arg "oldSimNodeName") false))
            ]),
          DStmt.ite .any
            (dblock [
              ev (.reval .q (.arg "oldSimNodeName") true),
              ev (.repoint .q (.arg "newSimNodeName"))
            ])
            (ev (.reval .q (.arg "oldSimNodeName") false)),
          cont
        ])
        (skip)),
    ev (.bind .q)
  ]

/-- `virtualNode.remote_get_register_RI` (line 1087) -/
def N_remote_get_register_RI : DStmt :=
  dblock [
    DStmt.ite .any
      -- inlined virtualQubit.remote_get_register_RI  [qubit.remote_get_register_RI]
      (scope
        (dblock [
          DStmt.ite .any
            (dblock [
              ev (.reval .c .self true),
              ev (.use .c),
              mayRaise
            ])
            (dblock [
              ev (.reval .c .self false),
              ev (.use .c),
              mayRaise
            ]),
          ret
        ]))
      -- inlined virtualQubit.remote_get_register_RI  [call_method(qubit, 'get_register_RI')]
      (scope
        (dblock [
          DStmt.ite .any
            (dblock [
              ev (.reval .c .self true),
              ev (.use .c),
              mayRaise
            ])
            (dblock [
              ev (.reval .c .self false),
              ev (.use .c),
              mayRaise
            ]),
          ret
        ])),
    ret
  ]

/-- `virtualNode.remote_get_register` (line 1098) -/
def N_remote_get_register : DStmt :=
  dblock [
    ev (.use .c),
    mayRaise,
    ev (.use .c),
    ev (.use .c),
    ev (.use .c),
    ret
  ]

/-- `virtualNode.remote_get_multiple_qubits` (line 1148) -/
def N_remote_get_multiple_qubits : DStmt :=
  dblock [
    loop
      (DStmt.ite .any
        (dblock [
          ev (.bind .q),
          DStmt.ite .any
            (ev (.reval .q .self true))
            (dblock [
              ev (.reval .q .self false),
              DStmt.ite .any
                (ev (.reval .q .self false))
                (ev (.reval .q .self true))
            ]),
          cont
        ])
        (skip)),
    ev (.bind .q),
    DStmt.ite .any
      (ret)
      (skip),
    DStmt.ite .any
      (dblock [
        loop
          (DStmt.ite .any
            (dblock [
              ev (.bind .q),
              ev (.use .q),
              mayRaise,
              cont
            ])
            (skip)),
        ev (.bind .q),
        mayRaise
      ])
      (dblock [
        loop
          (DStmt.ite .any
            (dblock [
              ev (.bind .q),
              tryExcept
                (dblock [
                  ev (.use .q),
                  mayRaise
                ])
                (mayRaise),
              mayRaise,
              cont
            ])
            (skip)),
        ev (.bind .q),
        tryExcept
          (dblock [
            unknown "pointer read through a handle the translator cannot name: qList[0].simNode",
            mayRaise
          ])
          (mayRaise)
      ]),
    ret
  ]

/-- `virtualQubit.__init__` (line 1242) -/
def Q___init__ : DStmt :=
  dblock [
    mayRaise,
    ev (.repoint .c (.arg "simNode"))
  ]

/-- `virtualQubit._single_gate` (line 1273) -/
def Q__single_gate : DStmt :=
  dblock [
    DStmt.ite .any
      (ret)
      (skip),
    -- inlined virtualQubit._lock_simulating_node  [self._lock_simulating_node]
    scope
      (loop
        (dblock [
          ev (.readPtr .c 1),
          mayRaise,
          ev (.acq [(.cap 1)] false),
          mayRaise,
          DStmt.ite .any
            (dblock [
              ev (.reval .c (.cap 1) false),
              ev (.rel [(.cap 1)]),
              mayRaise,
              cont
            ])
            (dblock [
              ev (.reval .c (.cap 1) true),
              ret
            ])
        ])),
    ev (.use .c),
    mayRaise,
    tryFinally
      (dblock [
        ev (.use .c),
        mayRaise,
        DStmt.ite .any
          (dblock [
            ev (.use .c),
            mayRaise
          ])
          (skip)
      ])
      (dblock [
        ev (.use .c),
        mayRaise,
        DStmt.ite .any
          (ev (.reval .c (.cap 1) true))
          (dblock [
            ev (.reval .c (.cap 1) false),
            DStmt.raise
          ]),
        ev (.readPtr .c 2),
        ev (.rel [(.cap 2)]),
        mayRaise
      ])
  ]

/-- `virtualQubit.remote_apply_X` (line 1300) -/
def Q_remote_apply_X : DStmt :=
  -- inlined virtualQubit._single_gate  [self._single_gate]
  scope
    (dblock [
      DStmt.ite .any
        (ret)
        (skip),
      -- inlined virtualQubit._lock_simulating_node  [self._lock_simulating_node]
      scope
        (loop
          (dblock [
            ev (.readPtr .c 1),
            mayRaise,
            ev (.acq [(.cap 1)] false),
            mayRaise,
            DStmt.ite .any
              (dblock [
                ev (.reval .c (.cap 1) false),
                ev (.rel [(.cap 1)]),
                mayRaise,
                cont
              ])
              (dblock [
                ev (.reval .c (.cap 1) true),
                ret
              ])
          ])),
      ev (.use .c),
      mayRaise,
      tryFinally
        (dblock [
          ev (.use .c),
          mayRaise,
          DStmt.ite .any
            (dblock [
              ev (.use .c),
              mayRaise
            ])
            (skip)
        ])
        (dblock [
          ev (.use .c),
          mayRaise,
          DStmt.ite .any
            (ev (.reval .c (.cap 1) true))
            (dblock [
              ev (.reval .c (.cap 1) false),
              DStmt.raise
            ]),
          ev (.readPtr .c 2),
          ev (.rel [(.cap 2)]),
          mayRaise
        ])
    ])

/-- `virtualQubit.remote_apply_Y` (line 1307) -/
def Q_remote_apply_Y : DStmt :=
  -- inlined virtualQubit._single_gate  [self._single_gate]
  scope
    (dblock [
      DStmt.ite .any
        (ret)
        (skip),
      -- inlined virtualQubit._lock_simulating_node  [self._lock_simulating_node]
      scope
        (loop
          (dblock [
            ev (.readPtr .c 1),
            mayRaise,
            ev (.acq [(.cap 1)] false),
            mayRaise,
            DStmt.ite .any
              (dblock [
                ev (.reval .c (.cap 1) false),
                ev (.rel [(.cap 1)]),
                mayRaise,
                cont
              ])
              (dblock [
                ev (.reval .c (.cap 1) true),
                ret
              ])
          ])),
      ev (.use .c),
      mayRaise,
      tryFinally
        (dblock [
          ev (.use .c),
          mayRaise,
          DStmt.ite .any
            (dblock [
              ev (.use .c),
              mayRaise
            ])
            (skip)
        ])
        (dblock [
          ev (.use .c),
          mayRaise,
          DStmt.ite .any
            (ev (.reval .c (.cap 1) true))
            (dblock [
              ev (.reval .c (.cap 1) false),
              DStmt.raise
            ]),
          ev (.readPtr .c 2),
          ev (.rel [(.cap 2)]),
          mayRaise
        ])
    ])

/-- `virtualQubit.remote_apply_Z` (line 1314) -/
def Q_remote_apply_Z : DStmt :=
  -- inlined virtualQubit._single_gate  [self._single_gate]
  scope
    (dblock [
      DStmt.ite .any
        (ret)
        (skip),
      -- inlined virtualQubit._lock_simulating_node  [self._lock_simulating_node]
      scope
        (loop
          (dblock [
            ev (.readPtr .c 1),
            mayRaise,
            ev (.acq [(.cap 1)] false),
            mayRaise,
            DStmt.ite .any
              (dblock [
                ev (.reval .c (.cap 1) false),
                ev (.rel [(.cap 1)]),
                mayRaise,
                cont
              ])
              (dblock [
                ev (.reval .c (.cap 1) true),
                ret
              ])
          ])),
      ev (.use .c),
      mayRaise,
      tryFinally
        (dblock [
          ev (.use .c),
          mayRaise,
          DStmt.ite .any
            (dblock [
              ev (.use .c),
              mayRaise
            ])
            (skip)
        ])
        (dblock [
          ev (.use .c),
          mayRaise,
          DStmt.ite .any
            (ev (.reval .c (.cap 1) true))
            (dblock [
              ev (.reval .c (.cap 1) false),
              DStmt.raise
            ]),
          ev (.readPtr .c 2),
          ev (.rel [(.cap 2)]),
          mayRaise
        ])
    ])

/-- `virtualQubit.remote_apply_H` (line 1321) -/
def Q_remote_apply_H : DStmt :=
  -- inlined virtualQubit._single_gate  [self._single_gate]
  scope
    (dblock [
      DStmt.ite .any
        (ret)
        (skip),
      -- inlined virtualQubit._lock_simulating_node  [self._lock_simulating_node]
      scope
        (loop
          (dblock [
            ev (.readPtr .c 1),
            mayRaise,
            ev (.acq [(.cap 1)] false),
            mayRaise,
            DStmt.ite .any
              (dblock [
                ev (.reval .c (.cap 1) false),
                ev (.rel [(.cap 1)]),
                mayRaise,
                cont
              ])
              (dblock [
                ev (.reval .c (.cap 1) true),
                ret
              ])
          ])),
      ev (.use .c),
      mayRaise,
      tryFinally
        (dblock [
          ev (.use .c),
          mayRaise,
          DStmt.ite .any
            (dblock [
              ev (.use .c),
              mayRaise
            ])
            (skip)
        ])
        (dblock [
          ev (.use .c),
          mayRaise,
          DStmt.ite .any
            (ev (.reval .c (.cap 1) true))
            (dblock [
              ev (.reval .c (.cap 1) false),
              DStmt.raise
            ]),
          ev (.readPtr .c 2),
          ev (.rel [(.cap 2)]),
          mayRaise
        ])
    ])

/-- `virtualQubit.remote_apply_K` (line 1328) -/
def Q_remote_apply_K : DStmt :=
  -- inlined virtualQubit._single_gate  [self._single_gate]
  scope
    (dblock [
      DStmt.ite .any
        (ret)
        (skip),
      -- inlined virtualQubit._lock_simulating_node  [self._lock_simulating_node]
      scope
        (loop
          (dblock [
            ev (.readPtr .c 1),
            mayRaise,
            ev (.acq [(.cap 1)] false),
            mayRaise,
            DStmt.ite .any
              (dblock [
                ev (.reval .c (.cap 1) false),
                ev (.rel [(.cap 1)]),
                mayRaise,
                cont
              ])
              (dblock [
                ev (.reval .c (.cap 1) true),
                ret
              ])
          ])),
      ev (.use .c),
      mayRaise,
      tryFinally
        (dblock [
          ev (.use .c),
          mayRaise,
          DStmt.ite .any
            (dblock [
              ev (.use .c),
              mayRaise
            ])
            (skip)
        ])
        (dblock [
          ev (.use .c),
          mayRaise,
          DStmt.ite .any
            (ev (.reval .c (.cap 1) true))
            (dblock [
              ev (.reval .c (.cap 1) false),
              DStmt.raise
            ]),
          ev (.readPtr .c 2),
          ev (.rel [(.cap 2)]),
          mayRaise
        ])
    ])

/-- `virtualQubit.remote_apply_S` (line 1335) -/
def Q_remote_apply_S : DStmt :=
  -- inlined virtualQubit._single_gate  [self._single_gate]
  scope
    (dblock [
      DStmt.ite .any
        (ret)
        (skip),
      -- inlined virtualQubit._lock_simulating_node  [self._lock_simulating_node]
      scope
        (loop
          (dblock [
            ev (.readPtr .c 1),
            mayRaise,
            ev (.acq [(.cap 1)] false),
            mayRaise,
            DStmt.ite .any
              (dblock [
                ev (.reval .c (.cap 1) false),
                ev (.rel [(.cap 1)]),
                mayRaise,
                cont
              ])
              (dblock [
                ev (.reval .c (.cap 1) true),
                ret
              ])
          ])),
      ev (.use .c),
      mayRaise,
      tryFinally
        (dblock [
          ev (.use .c),
          mayRaise,
          DStmt.ite .any
            (dblock [
              ev (.use .c),
              mayRaise
            ])
            (skip)
        ])
        (dblock [
          ev (.use .c),
          mayRaise,
          DStmt.ite .any
            (ev (.reval .c (.cap 1) true))
            (dblock [
              ev (.reval .c (.cap 1) false),
              DStmt.raise
            ]),
          ev (.readPtr .c 2),
          ev (.rel [(.cap 2)]),
          mayRaise
        ])
    ])

/-- `virtualQubit.remote_apply_T` (line 1342) -/
def Q_remote_apply_T : DStmt :=
  -- inlined virtualQubit._single_gate  [self._single_gate]
  scope
    (dblock [
      DStmt.ite .any
        (ret)
        (skip),
      -- inlined virtualQubit._lock_simulating_node  [self._lock_simulating_node]
      scope
        (loop
          (dblock [
            ev (.readPtr .c 1),
            mayRaise,
            ev (.acq [(.cap 1)] false),
            mayRaise,
            DStmt.ite .any
              (dblock [
                ev (.reval .c (.cap 1) false),
                ev (.rel [(.cap 1)]),
                mayRaise,
                cont
              ])
              (dblock [
                ev (.reval .c (.cap 1) true),
                ret
              ])
          ])),
      ev (.use .c),
      mayRaise,
      tryFinally
        (dblock [
          ev (.use .c),
          mayRaise,
          DStmt.ite .any
            (dblock [
              ev (.use .c),
              mayRaise
            ])
            (skip)
        ])
        (dblock [
          ev (.use .c),
          mayRaise,
          DStmt.ite .any
            (ev (.reval .c (.cap 1) true))
            (dblock [
              ev (.reval .c (.cap 1) false),
              DStmt.raise
            ]),
          ev (.readPtr .c 2),
          ev (.rel [(.cap 2)]),
          mayRaise
        ])
    ])

/-- `virtualQubit.remote_apply_rotation` (line 1349) -/
def Q_remote_apply_rotation : DStmt :=
  -- inlined virtualQubit._single_gate  [self._single_gate]
  scope
    (dblock [
      DStmt.ite .any
        (ret)
        (skip),
      -- inlined virtualQubit._lock_simulating_node  [self._lock_simulating_node]
      scope
        (loop
          (dblock [
            ev (.readPtr .c 1),
            mayRaise,
            ev (.acq [(.cap 1)] false),
            mayRaise,
            DStmt.ite .any
              (dblock [
                ev (.reval .c (.cap 1) false),
                ev (.rel [(.cap 1)]),
                mayRaise,
                cont
              ])
              (dblock [
                ev (.reval .c (.cap 1) true),
                ret
              ])
          ])),
      ev (.use .c),
      mayRaise,
      tryFinally
        (dblock [
          ev (.use .c),
          mayRaise,
          DStmt.ite .any
            (dblock [
              ev (.use .c),
              mayRaise
            ])
            (skip)
        ])
        (dblock [
          ev (.use .c),
          mayRaise,
          DStmt.ite .any
            (ev (.reval .c (.cap 1) true))
            (dblock [
              ev (.reval .c (.cap 1) false),
              DStmt.raise
            ]),
          ev (.readPtr .c 2),
          ev (.rel [(.cap 2)]),
          mayRaise
        ])
    ])

/-- `virtualQubit.remote_measure` (line 1359) -/
def Q_remote_measure : DStmt :=
  dblock [
    DStmt.ite .any
      (ret)
      (skip),
    -- inlined virtualQubit._lock_simulating_node  [self._lock_simulating_node]
    scope
      (loop
        (dblock [
          ev (.readPtr .c 1),
          mayRaise,
          ev (.acq [(.cap 1)] false),
          mayRaise,
          DStmt.ite .any
            (dblock [
              ev (.reval .c (.cap 1) false),
              ev (.rel [(.cap 1)]),
              mayRaise,
              cont
            ])
            (dblock [
              ev (.reval .c (.cap 1) true),
              ret
            ])
        ])),
    ev (.use .c),
    mayRaise,
    tryFinally
      (dblock [
        ev (.use .c),
        mayRaise,
        DStmt.ite .any
          (dblock [
            ev (.use .c),
            mayRaise,
            DStmt.ite .any
              (dblock [
                ev (.use .c),
                mayRaise,
                ev (.use .c),
                mayRaise
              ])
              (skip)
          ])
          (skip)
      ])
      (dblock [
        ev (.use .c),
        mayRaise,
        DStmt.ite .any
          (ev (.reval .c (.cap 1) true))
          (dblock [
            ev (.reval .c (.cap 1) false),
            DStmt.raise
          ]),
        ev (.readPtr .c 2),
        ev (.rel [(.cap 2)]),
        mayRaise
      ]),
    ret
  ]

/-- `virtualQubit._lock_nodes` (line 1394) -/
def Q__lock_nodes : DStmt :=
  loop
    (dblock [
      ev (.readPtr .c 1),
      ev (.readPtr .t 2),
      DStmt.ite .timeout
        (dblock [
          ev (.acq [.self, (.cap 1), (.cap 2)] true),
          ev (.cancel),
          ev (.rel [.self, (.cap 1), (.cap 2)]),
          mayRaise,
          cont
        ])
        (dblock [
          ev (.acq [.self, (.cap 1), (.cap 2)] false),
          DStmt.ite .any
            (dblock [
              ev (.reval .c (.cap 1) false),
              ev (.reval .t (.cap 2) false),
              ev (.rel [.self, (.cap 1), (.cap 2)]),
              mayRaise,
              cont
            ])
            (dblock [
              ev (.reval .c (.cap 1) true),
              ev (.reval .t (.cap 2) true),
              ret
            ])
        ])
    ])

/-- `virtualQubit._lock_inreg` (line 1455) -/
def Q__lock_inreg : DStmt :=
  tryExcept
    (DStmt.ite .any
      (dblock [
        ev (.reval .t .self true),
        ev (.use .t),
        ev (.use .t),
        mayRaise
      ])
      (dblock [
        ev (.reval .t .self false),
        ev (.use .t),
        mayRaise,
        ev (.use .t),
        mayRaise
      ]))
    (mayRaise)

/-- `virtualQubit._unlock_inreg` (line 1470) -/
def Q__unlock_inreg : DStmt :=
  tryExcept
    (DStmt.ite .any
      (dblock [
        ev (.reval .t .self true),
        ev (.use .t),
        ev (.use .t),
        mayRaise
      ])
      (dblock [
        ev (.reval .t .self false),
        ev (.use .t),
        mayRaise,
        ev (.use .t),
        mayRaise
      ]))
    (mayRaise)

/-- `virtualQubit.remote_cnot_onto` (line 1485) -/
def Q_remote_cnot_onto : DStmt :=
  -- inlined virtualQubit._two_qubit_gate  [self._two_qubit_gate]
  scope
    (dblock [
      DStmt.ite .any
        (ret)
        (skip),
      -- inlined virtualQubit._lock_nodes  [self._lock_nodes]
      scope
        (loop
          (dblock [
            ev (.readPtr .c 1),
            ev (.readPtr .t 2),
            DStmt.ite .timeout
              (dblock [
                ev (.acq [.self, (.cap 1), (.cap 2)] true),
                ev (.cancel),
                ev (.rel [.self, (.cap 1), (.cap 2)]),
                mayRaise,
                cont
              ])
              (dblock [
                ev (.acq [.self, (.cap 1), (.cap 2)] false),
                DStmt.ite .any
                  (dblock [
                    ev (.reval .c (.cap 1) false),
                    ev (.reval .t (.cap 2) false),
                    ev (.rel [.self, (.cap 1), (.cap 2)]),
                    mayRaise,
                    cont
                  ])
                  (dblock [
                    ev (.reval .c (.cap 1) true),
                    ev (.reval .t (.cap 2) true),
                    ret
                  ])
              ])
          ])),
      tryCatch
        -- inlined virtualQubit._lock_inreg  [self._lock_inreg]
        (scope
          (tryExcept
            (DStmt.ite .any
              (dblock [
                ev (.reval .c .self true),
                ev (.use .c),
                ev (.use .c),
                mayRaise
              ])
              (dblock [
                ev (.reval .c .self false),
                ev (.use .c),
                mayRaise,
                ev (.use .c),
                mayRaise
              ]))
            (mayRaise)))
        (dblock [
          ev (.rel [.self, (.cap 1), (.cap 2)]),
          mayRaise,
          DStmt.raise
        ]),
      tryFinally
        (tryExcept
          (dblock [
            ev (.use .c),
            ev (.use .t),
            DStmt.ite .any
              (DStmt.ite .any
                (dblock [
                  ev (.reval .c .self true),
                  ev (.use .c),
                  ev (.use .t),
                  DStmt.ite .any
                    (dblock [
                      ev (.use .c),
                      ev (.use .t),
                      mayRaise
                    ])
                    (dblock [
                      -- inlined virtualQubit._lock_inreg  [self._lock_inreg]
                      scope
                        (tryExcept
                          (DStmt.ite .any
                            (dblock [
                              ev (.reval .t .self true),
                              ev (.use .t),
                              ev (.use .t),
                              mayRaise
                            ])
                            (dblock [
                              ev (.reval .t .self false),
                              ev (.use .t),
                              mayRaise,
                              ev (.use .t),
                              mayRaise
                            ]))
                          (mayRaise)),
                      ev (.use .c),
                      ev (.use .c),
                      ev (.use .t),
                      mayRaise,
                      ev (.use .c),
                      ev (.use .t),
                      mayRaise
                    ])
                ])
                (dblock [
                  ev (.reval .c .self false),
                  ev (.use .c),
                  mayRaise,
                  ev (.use .t),
                  mayRaise,
                  ev (.use .c),
                  mayRaise,
                  DStmt.ite .any
                    -- inlined virtualQubit._lock_inreg  [self._lock_inreg]
                    (scope
                      (tryExcept
                        (DStmt.ite .any
                          (dblock [
                            ev (.reval .t .self true),
                            ev (.use .t),
                            ev (.use .t),
                            mayRaise
                          ])
                          (dblock [
                            ev (.reval .t .self false),
                            ev (.use .t),
                            mayRaise,
                            ev (.use .t),
                            mayRaise
                          ]))
                        (mayRaise)))
                    (skip),
                  ev (.use .c),
                  ev (.use .t),
                  mayRaise,
                  ev (.use .c),
                  mayRaise,
                  ev (.use .t),
                  mayRaise,
                  ev (.use .c),
                  mayRaise
                ]))
              (DStmt.ite .any
                (dblock [
                  ev (.reval .c .self true),
                  ev (.use .t),
                  mayRaise,
                  ev (.use .t),
                  mayRaise,
                  ev (.readPtr .c 3),
                  ev (.readPtr .t 4),
                  ev (.use .c),
                  -- inlined virtualNode.remote_merge_from  [self.simNode.root.remote_merge_from]
                  scope
                    (dblock [
                      ev (.requires (.cap 3)),
                      mayRaise,
                      loop
                        (DStmt.ite .any
                          (dblock [
                            mayRaise,
                            cont
                          ])
                          (skip)),
                      loop
                        (DStmt.ite .any
                          (dblock [
                            DStmt.ite .any
                              (dblock [
                                mayRaise,
                                tryExcept
                                  -- inlined virtualNode.remote_update_virtual_merge  [call_method(nb.root, 'update_virtual_merge')]
                                  (scope
                                    (dblock [
                                      mayRaise,
                                      ev (.iter .peer),
                                      loop
                                        (DStmt.ite .any
                                          (dblock [
                                            ev (.bind .q),
                                            DStmt.ite .any
                                              (dblock [
                                                ev (.reval .q .peer true),
                                                ev (.reval .q (.cap 4) true),
                                                ev (.use .q),
                                                ev (.use .q)
                                              ])
                                              (dblock [
                                                ev (.reval .q .peer false),
                                                ev (.reval .q (.cap 4) false),
                                                DStmt.ite .any
                                                  (dblock [
                                                    ev (.reval .q (.cap 4) true),
                                                    tryExcept
                                                      (dblock [
                                                        ev (.use .q),
                                                        mayRaise
                                                      ])
                                                      (mayRaise)
                                                  ])
                                                  (ev (.reval .q (.cap 4) false))
                                              ]),
                                            DStmt.ite .any
                                              (dblock [
                                                ev (.reval .q (.cap 4) true),
                                                ev (.repoint .q (.cap 3))
                                              ])
                                              (ev (.reval .q (.cap 4) false)),
                                            cont
                                          ])
                                          (skip)),
                                      ev (.bind .q)
                                    ]))
                                  (mayRaise)
                              ])
                              (skip),
                            cont
                          ])
                          (skip)),
                      -- inlined virtualNode.remote_update_virtual_merge  [self.remote_update_virtual_merge]
                      scope
                        (dblock [
                          mayRaise,
                          ev (.iter (.cap 3)),
                          loop
                            (DStmt.ite .any
                              (dblock [
                                ev (.bind .q),
                                DStmt.ite .any
                                  (dblock [
                                    ev (.reval .q (.cap 3) true),
                                    ev (.reval .q (.cap 4) true),
                                    ev (.use .q),
                                    ev (.use .q)
                                  ])
                                  (dblock [
                                    ev (.reval .q (.cap 3) false),
                                    ev (.reval .q (.cap 4) false),
                                    DStmt.ite .any
                                      (dblock [
                                        ev (.reval .q (.cap 4) true),
                                        tryExcept
                                          (dblock [
                                            ev (.use .q),
                                            mayRaise
                                          ])
                                          (mayRaise)
                                      ])
                                      (ev (.reval .q (.cap 4) false))
                                  ]),
                                DStmt.ite .any
                                  (dblock [
                                    ev (.reval .q (.cap 4) true),
                                    ev (.repoint .q (.cap 3))
                                  ])
                                  (ev (.reval .q (.cap 4) false)),
                                cont
                              ])
                              (skip)),
                          ev (.bind .q)
                        ]),
                      ret
                    ]),
                  ev (.repoint .t (.cap 3)),
                  ev (.use .t),
                  ev (.use .c),
                  mayRaise
                ])
                (dblock [
                  ev (.reval .c .self false),
                  DStmt.ite .any
                    (dblock [
                      ev (.reval .t .self true),
                      ev (.use .c),
                      mayRaise,
                      ev (.use .c),
                      mayRaise,
                      ev (.readPtr .t 5),
                      ev (.readPtr .c 6),
                      ev (.use .t),
                      -- inlined virtualNode.remote_merge_from  [target.simNode.root.remote_merge_from]
                      scope
                        (dblock [
                          ev (.requires (.cap 5)),
                          mayRaise,
                          loop
                            (DStmt.ite .any
                              (dblock [
                                mayRaise,
                                cont
                              ])
                              (skip)),
                          loop
                            (DStmt.ite .any
                              (dblock [
                                DStmt.ite .any
                                  (dblock [
                                    mayRaise,
                                    tryExcept
                                      -- inlined virtualNode.remote_update_virtual_merge  [call_method(nb.root, 'update_virtual_merge')]
                                      (scope
                                        (dblock [
                                          mayRaise,
                                          ev (.iter .peer),
                                          loop
                                            (DStmt.ite .any
                                              (dblock [
                                                ev (.bind .q),
                                                DStmt.ite .any
                                                  (dblock [
                                                    ev (.reval .q .peer true),
                                                    ev (.reval .q (.cap 6) true),
                                                    ev (.use .q),
                                                    ev (.use .q)
                                                  ])
                                                  (dblock [
                                                    ev (.reval .q .peer false),
                                                    ev (.reval .q (.cap 6) false),
                                                    DStmt.ite .any
                                                      (dblock [
                                                        ev (.reval .q (.cap 6) true),
                                                        tryExcept
                                                          (dblock [
                                                            ev (.use .q),
                                                            mayRaise
                                                          ])
                                                          (mayRaise)
                                                      ])
                                                      (ev (.reval .q (.cap 6) false))
                                                  ]),
                                                DStmt.ite .any
                                                  (dblock [
                                                    ev (.reval .q (.cap 6) true),
                                                    ev (.repoint .q (.cap 5))
                                                  ])
                                                  (ev (.reval .q (.cap 6) false)),
                                                cont
                                              ])
                                              (skip)),
                                          ev (.bind .q)
                                        ]))
                                      (mayRaise)
                                  ])
                                  (skip),
                                cont
                              ])
                              (skip)),
                          -- inlined virtualNode.remote_update_virtual_merge  [self.remote_update_virtual_merge]
                          scope
                            (dblock [
                              mayRaise,
                              ev (.iter (.cap 5)),
                              loop
                                (DStmt.ite .any
                                  (dblock [
                                    ev (.bind .q),
                                    DStmt.ite .any
                                      (dblock [
                                        ev (.reval .q (.cap 5) true),
                                        ev (.reval .q (.cap 6) true),
                                        ev (.use .q),
                                        ev (.use .q)
                                      ])
                                      (dblock [
                                        ev (.reval .q (.cap 5) false),
                                        ev (.reval .q (.cap 6) false),
                                        DStmt.ite .any
                                          (dblock [
                                            ev (.reval .q (.cap 6) true),
                                            tryExcept
                                              (dblock [
                                                ev (.use .q),
                                                mayRaise
                                              ])
                                              (mayRaise)
                                          ])
                                          (ev (.reval .q (.cap 6) false))
                                      ]),
                                    DStmt.ite .any
                                      (dblock [
                                        ev (.reval .q (.cap 6) true),
                                        ev (.repoint .q (.cap 5))
                                      ])
                                      (ev (.reval .q (.cap 6) false)),
                                    cont
                                  ])
                                  (skip)),
                              ev (.bind .q)
                            ]),
                          ret
                        ]),
                      ev (.repoint .c (.cap 5)),
                      ev (.use .t),
                      ev (.use .c),
                      mayRaise
                    ])
                    (dblock [
                      ev (.reval .t .self false),
                      mayRaise,
                      ev (.use .c),
                      mayRaise,
                      ev (.use .c),
                      mayRaise,
                      ev (.use .t),
                      mayRaise,
                      ev (.use .t),
                      mayRaise,
                      ev (.readPtr .c 7),
                      -- inlined virtualNode.remote_merge_from  [self.virtNode.root.remote_merge_from]
                      scope
                        (dblock [
                          ev (.requires .self),
                          mayRaise,
                          loop
                            (DStmt.ite .any
                              (dblock [
                                mayRaise,
                                cont
                              ])
                              (skip)),
                          loop
                            (DStmt.ite .any
                              (dblock [
                                DStmt.ite .any
                                  (dblock [
                                    mayRaise,
                                    tryExcept
                                      -- inlined virtualNode.remote_update_virtual_merge  [call_method(nb.root, 'update_virtual_merge')]
                                      (scope
                                        (dblock [
                                          mayRaise,
                                          ev (.iter .peer),
                                          loop
                                            (DStmt.ite .any
                                              (dblock [
                                                ev (.bind .q),
                                                DStmt.ite .any
                                                  (dblock [
                                                    ev (.reval .q .peer true),
                                                    ev (.reval .q (.cap 7) true),
                                                    ev (.use .q),
                                                    ev (.use .q)
                                                  ])
                                                  (dblock [
                                                    ev (.reval .q .peer false),
                                                    ev (.reval .q (.cap 7) false),
                                                    DStmt.ite .any
                                                      (dblock [
                                                        ev (.reval .q (.cap 7) true),
                                                        tryExcept
                                                          (dblock [
                                                            ev (.use .q),
                                                            mayRaise
                                                          ])
                                                          (mayRaise)
                                                      ])
                                                      (ev (.reval .q (.cap 7) false))
                                                  ]),
                                                DStmt.ite .any
                                                  (dblock [
                                                    ev (.reval .q (.cap 7) true),
                                                    ev (.repoint .q .self)
                                                  ])
                                                  (ev (.reval .q (.cap 7) false)),
                                                cont
                                              ])
                                              (skip)),
                                          ev (.bind .q)
                                        ]))
                                      (mayRaise)
                                  ])
                                  (skip),
                                cont
                              ])
                              (skip)),
                          -- inlined virtualNode.remote_update_virtual_merge  [self.remote_update_virtual_merge]
                          scope
                            (dblock [
                              mayRaise,
                              ev (.iter .self),
                              loop
                                (DStmt.ite .any
                                  (dblock [
                                    ev (.bind .q),
                                    DStmt.ite .any
                                      (dblock [
                                        ev (.reval .q .self true),
                                        ev (.reval .q (.cap 7) true),
                                        ev (.use .q),
                                        ev (.use .q)
                                      ])
                                      (dblock [
                                        ev (.reval .q .self false),
                                        ev (.reval .q (.cap 7) false),
                                        DStmt.ite .any
                                          (dblock [
                                            ev (.reval .q (.cap 7) true),
                                            tryExcept
                                              (dblock [
                                                ev (.use .q),
                                                mayRaise
                                              ])
                                              (mayRaise)
                                          ])
                                          (ev (.reval .q (.cap 7) false))
                                      ]),
                                    DStmt.ite .any
                                      (dblock [
                                        ev (.reval .q (.cap 7) true),
                                        ev (.repoint .q .self)
                                      ])
                                      (ev (.reval .q (.cap 7) false)),
                                    cont
                                  ])
                                  (skip)),
                              ev (.bind .q)
                            ]),
                          ret
                        ]),
                      ev (.repoint .c .self),
                      ev (.readPtr .t 8),
                      -- inlined virtualNode.remote_merge_from  [target.virtNode.root.remote_merge_from]
                      scope
                        (dblock [
                          ev (.requires .self),
                          mayRaise,
                          loop
                            (DStmt.ite .any
                              (dblock [
                                mayRaise,
                                cont
                              ])
                              (skip)),
                          loop
                            (DStmt.ite .any
                              (dblock [
                                DStmt.ite .any
                                  (dblock [
                                    mayRaise,
                                    tryExcept
                                      -- inlined virtualNode.remote_update_virtual_merge  [call_method(nb.root, 'update_virtual_merge')]
                                      (scope
                                        (dblock [
                                          mayRaise,
                                          ev (.iter .peer),
                                          loop
                                            (DStmt.ite .any
                                              (dblock [
                                                ev (.bind .q),
                                                DStmt.ite .any
                                                  (dblock [
                                                    ev (.reval .q .peer true),
                                                    ev (.reval .q (.cap 8) true),
                                                    ev (.use .q),
                                                    ev (.use .q)
                                                  ])
                                                  (dblock [
                                                    ev (.reval .q .peer false),
                                                    ev (.reval .q (.cap 8) false),
                                                    DStmt.ite .any
                                                      (dblock [
                                                        ev (.reval .q (.cap 8) true),
                                                        tryExcept
                                                          (dblock [
                                                            ev (.use .q),
                                                            mayRaise
                                                          ])
                                                          (mayRaise)
                                                      ])
                                                      (ev (.reval .q (.cap 8) false))
                                                  ]),
                                                DStmt.ite .any
                                                  (dblock [
                                                    ev (.reval .q (.cap 8) true),
                                                    ev (.repoint .q .self)
                                                  ])
                                                  (ev (.reval .q (.cap 8) false)),
                                                cont
                                              ])
                                              (skip)),
                                          ev (.bind .q)
                                        ]))
                                      (mayRaise)
                                  ])
                                  (skip),
                                cont
                              ])
                              (skip)),
                          -- inlined virtualNode.remote_update_virtual_merge  [self.remote_update_virtual_merge]
                          scope
                            (dblock [
                              mayRaise,
                              ev (.iter .self),
                              loop
                                (DStmt.ite .any
                                  (dblock [
                                    ev (.bind .q),
                                    DStmt.ite .any
                                      (dblock [
                                        ev (.reval .q .self true),
                                        ev (.reval .q (.cap 8) true),
                                        ev (.use .q),
                                        ev (.use .q)
                                      ])
                                      (dblock [
                                        ev (.reval .q .self false),
                                        ev (.reval .q (.cap 8) false),
                                        DStmt.ite .any
                                          (dblock [
                                            ev (.reval .q (.cap 8) true),
                                            tryExcept
                                              (dblock [
                                                ev (.use .q),
                                                mayRaise
                                              ])
                                              (mayRaise)
                                          ])
                                          (ev (.reval .q (.cap 8) false))
                                      ]),
                                    DStmt.ite .any
                                      (dblock [
                                        ev (.reval .q (.cap 8) true),
                                        ev (.repoint .q .self)
                                      ])
                                      (ev (.reval .q (.cap 8) false)),
                                    cont
                                  ])
                                  (skip)),
                              ev (.bind .q)
                            ]),
                          ret
                        ]),
                      ev (.repoint .t .self),
                      ev (.use .t),
                      ev (.use .c),
                      mayRaise
                    ])
                ]))
          ])
          (mayRaise))
        (tryFinally
          -- inlined virtualQubit._unlock_inreg  [self._unlock_inreg]
          (scope
            (tryExcept
              (DStmt.ite .any
                (dblock [
                  ev (.reval .c .self true),
                  ev (.use .c),
                  ev (.use .c),
                  mayRaise
                ])
                (dblock [
                  ev (.reval .c .self false),
                  ev (.use .c),
                  mayRaise,
                  ev (.use .c),
                  mayRaise
                ]))
              (mayRaise)))
          (dblock [
            ev (.rel [.self, (.cap 1), (.cap 2)]),
            mayRaise
          ]))
    ])

/-- `virtualQubit.remote_cphase_onto` (line 1496) -/
def Q_remote_cphase_onto : DStmt :=
  -- inlined virtualQubit._two_qubit_gate  [self._two_qubit_gate]
  scope
    (dblock [
      DStmt.ite .any
        (ret)
        (skip),
      -- inlined virtualQubit._lock_nodes  [self._lock_nodes]
      scope
        (loop
          (dblock [
            ev (.readPtr .c 1),
            ev (.readPtr .t 2),
            DStmt.ite .timeout
              (dblock [
                ev (.acq [.self, (.cap 1), (.cap 2)] true),
                ev (.cancel),
                ev (.rel [.self, (.cap 1), (.cap 2)]),
                mayRaise,
                cont
              ])
              (dblock [
                ev (.acq [.self, (.cap 1), (.cap 2)] false),
                DStmt.ite .any
                  (dblock [
                    ev (.reval .c (.cap 1) false),
                    ev (.reval .t (.cap 2) false),
                    ev (.rel [.self, (.cap 1), (.cap 2)]),
                    mayRaise,
                    cont
                  ])
                  (dblock [
                    ev (.reval .c (.cap 1) true),
                    ev (.reval .t (.cap 2) true),
                    ret
                  ])
              ])
          ])),
      tryCatch
        -- inlined virtualQubit._lock_inreg  [self._lock_inreg]
        (scope
          (tryExcept
            (DStmt.ite .any
              (dblock [
                ev (.reval .c .self true),
                ev (.use .c),
                ev (.use .c),
                mayRaise
              ])
              (dblock [
                ev (.reval .c .self false),
                ev (.use .c),
                mayRaise,
                ev (.use .c),
                mayRaise
              ]))
            (mayRaise)))
        (dblock [
          ev (.rel [.self, (.cap 1), (.cap 2)]),
          mayRaise,
          DStmt.raise
        ]),
      tryFinally
        (tryExcept
          (dblock [
            ev (.use .c),
            ev (.use .t),
            DStmt.ite .any
              (DStmt.ite .any
                (dblock [
                  ev (.reval .c .self true),
                  ev (.use .c),
                  ev (.use .t),
                  DStmt.ite .any
                    (dblock [
                      ev (.use .c),
                      ev (.use .t),
                      mayRaise
                    ])
                    (dblock [
                      -- inlined virtualQubit._lock_inreg  [self._lock_inreg]
                      scope
                        (tryExcept
                          (DStmt.ite .any
                            (dblock [
                              ev (.reval .t .self true),
                              ev (.use .t),
                              ev (.use .t),
                              mayRaise
                            ])
                            (dblock [
                              ev (.reval .t .self false),
                              ev (.use .t),
                              mayRaise,
                              ev (.use .t),
                              mayRaise
                            ]))
                          (mayRaise)),
                      ev (.use .c),
                      ev (.use .c),
                      ev (.use .t),
                      mayRaise,
                      ev (.use .c),
                      ev (.use .t),
                      mayRaise
                    ])
                ])
                (dblock [
                  ev (.reval .c .self false),
                  ev (.use .c),
                  mayRaise,
                  ev (.use .t),
                  mayRaise,
                  ev (.use .c),
                  mayRaise,
                  DStmt.ite .any
                    -- inlined virtualQubit._lock_inreg  [self._lock_inreg]
                    (scope
                      (tryExcept
                        (DStmt.ite .any
                          (dblock [
                            ev (.reval .t .self true),
                            ev (.use .t),
                            ev (.use .t),
                            mayRaise
                          ])
                          (dblock [
                            ev (.reval .t .self false),
                            ev (.use .t),
                            mayRaise,
                            ev (.use .t),
                            mayRaise
                          ]))
                        (mayRaise)))
                    (skip),
                  ev (.use .c),
                  ev (.use .t),
                  mayRaise,
                  ev (.use .c),
                  mayRaise,
                  ev (.use .t),
                  mayRaise,
                  ev (.use .c),
                  mayRaise
                ]))
              (DStmt.ite .any
                (dblock [
                  ev (.reval .c .self true),
                  ev (.use .t),
                  mayRaise,
                  ev (.use .t),
                  mayRaise,
                  ev (.readPtr .c 3),
                  ev (.readPtr .t 4),
                  ev (.use .c),
                  -- inlined virtualNode.remote_merge_from  [self.simNode.root.remote_merge_from]
                  scope
                    (dblock [
                      ev (.requires (.cap 3)),
                      mayRaise,
                      loop
                        (DStmt.ite .any
                          (dblock [
                            mayRaise,
                            cont
                          ])
                          (skip)),
                      loop
                        (DStmt.ite .any
                          (dblock [
                            DStmt.ite .any
                              (dblock [
                                mayRaise,
                                tryExcept
                                  -- inlined virtualNode.remote_update_virtual_merge  [call_method(nb.root, 'update_virtual_merge')]
                                  (scope
                                    (dblock [
                                      mayRaise,
                                      ev (.iter .peer),
                                      loop
                                        (DStmt.ite .any
                                          (dblock [
                                            ev (.bind .q),
                                            DStmt.ite .any
                                              (dblock [
                                                ev (.reval .q .peer true),
                                                ev (.reval .q (.cap 4) true),
                                                ev (.use .q),
                                                ev (.use .q)
                                              ])
                                              (dblock [
                                                ev (.reval .q .peer false),
                                                ev (.reval .q (.cap 4) false),
                                                DStmt.ite .any
                                                  (dblock [
                                                    ev (.reval .q (.cap 4) true),
                                                    tryExcept
                                                      (dblock [
                                                        ev (.use .q),
                                                        mayRaise
                                                      ])
                                                      (mayRaise)
                                                  ])
                                                  (ev (.reval .q (.cap 4) false))
                                              ]),
                                            DStmt.ite .any
                                              (dblock [
                                                ev (.reval .q (.cap 4) true),
                                                ev (.repoint .q (.cap 3))
                                              ])
                                              (ev (.reval .q (.cap 4) false)),
                                            cont
                                          ])
                                          (skip)),
                                      ev (.bind .q)
                                    ]))
                                  (mayRaise)
                              ])
                              (skip),
                            cont
                          ])
                          (skip)),
                      -- inlined virtualNode.remote_update_virtual_merge  [self.remote_update_virtual_merge]
                      scope
                        (dblock [
                          mayRaise,
                          ev (.iter (.cap 3)),
                          loop
                            (DStmt.ite .any
                              (dblock [
                                ev (.bind .q),
                                DStmt.ite .any
                                  (dblock [
                                    ev (.reval .q (.cap 3) true),
                                    ev (.reval .q (.cap 4) true),
                                    ev (.use .q),
                                    ev (.use .q)
                                  ])
                                  (dblock [
                                    ev (.reval .q (.cap 3) false),
                                    ev (.reval .q (.cap 4) false),
                                    DStmt.ite .any
                                      (dblock [
                                        ev (.reval .q (.cap 4) true),
                                        tryExcept
                                          (dblock [
                                            ev (.use .q),
                                            mayRaise
                                          ])
                                          (mayRaise)
                                      ])
                                      (ev (.reval .q (.cap 4) false))
                                  ]),
                                DStmt.ite .any
                                  (dblock [
                                    ev (.reval .q (.cap 4) true),
                                    ev (.repoint .q (.cap 3))
                                  ])
                                  (ev (.reval .q (.cap 4) false)),
                                cont
                              ])
                              (skip)),
                          ev (.bind .q)
                        ]),
                      ret
                    ]),
                  ev (.repoint .t (.cap 3)),
                  ev (.use .t),
                  ev (.use .c),
                  mayRaise
                ])
                (dblock [
                  ev (.reval .c .self false),
                  DStmt.ite .any
                    (dblock [
                      ev (.reval .t .self true),
                      ev (.use .c),
                      mayRaise,
                      ev (.use .c),
                      mayRaise,
                      ev (.readPtr .t 5),
                      ev (.readPtr .c 6),
                      ev (.use .t),
                      -- inlined virtualNode.remote_merge_from  [target.simNode.root.remote_merge_from]
                      scope
                        (dblock [
                          ev (.requires (.cap 5)),
                          mayRaise,
                          loop
                            (DStmt.ite .any
                              (dblock [
                                mayRaise,
                                cont
                              ])
                              (skip)),
                          loop
                            (DStmt.ite .any
                              (dblock [
                                DStmt.ite .any
                                  (dblock [
                                    mayRaise,
                                    tryExcept
                                      -- inlined virtualNode.remote_update_virtual_merge  [call_method(nb.root, 'update_virtual_merge')]
                                      (scope
                                        (dblock [
                                          mayRaise,
                                          ev (.iter .peer),
                                          loop
                                            (DStmt.ite .any
                                              (dblock [
                                                ev (.bind .q),
                                                DStmt.ite .any
                                                  (dblock [
                                                    ev (.reval .q .peer true),
                                                    ev (.reval .q (.cap 6) true),
                                                    ev (.use .q),
                                                    ev (.use .q)
                                                  ])
                                                  (dblock [
                                                    ev (.reval .q .peer false),
                                                    ev (.reval .q (.cap 6) false),
                                                    DStmt.ite .any
                                                      (dblock [
                                                        ev (.reval .q (.cap 6) true),
                                                        tryExcept
                                                          (dblock [
                                                            ev (.use .q),
                                                            mayRaise
                                                          ])
                                                          (mayRaise)
                                                      ])
                                                      (ev (.reval .q (.cap 6) false))
                                                  ]),
                                                DStmt.ite .any
                                                  (dblock [
                                                    ev (.reval .q (.cap 6) true),
                                                    ev (.repoint .q (.cap 5))
                                                  ])
                                                  (ev (.reval .q (.cap 6) false)),
                                                cont
                                              ])
                                              (skip)),
                                          ev (.bind .q)
                                        ]))
                                      (mayRaise)
                                  ])
                                  (skip),
                                cont
                              ])
                              (skip)),
                          -- inlined virtualNode.remote_update_virtual_merge  [self.remote_update_virtual_merge]
                          scope
                            (dblock [
                              mayRaise,
                              ev (.iter (.cap 5)),
                              loop
                                (DStmt.ite .any
                                  (dblock [
                                    ev (.bind .q),
                                    DStmt.ite .any
                                      (dblock [
                                        ev (.reval .q (.cap 5) true),
                                        ev (.reval .q (.cap 6) true),
                                        ev (.use .q),
                                        ev (.use .q)
                                      ])
                                      (dblock [
                                        ev (.reval .q (.cap 5) false),
                                        ev (.reval .q (.cap 6) false),
                                        DStmt.ite .any
                                          (dblock [
                                            ev (.reval .q (.cap 6) true),
                                            tryExcept
                                              (dblock [
                                                ev (.use .q),
                                                mayRaise
                                              ])
                                              (mayRaise)
                                          ])
                                          (ev (.reval .q (.cap 6) false))
                                      ]),
                                    DStmt.ite .any
                                      (dblock [
                                        ev (.reval .q (.cap 6) true),
                                        ev (.repoint .q (.cap 5))
                                      ])
                                      (ev (.reval .q (.cap 6) false)),
                                    cont
                                  ])
                                  (skip)),
                              ev (.bind .q)
                            ]),
                          ret
                        ]),
                      ev (.repoint .c (.cap 5)),
                      ev (.use .t),
                      ev (.use .c),
                      mayRaise
                    ])
                    (dblock [
                      ev (.reval .t .self false),
                      mayRaise,
                      ev (.use .c),
                      mayRaise,
                      ev (.use .c),
                      mayRaise,
                      ev (.use .t),
                      mayRaise,
                      ev (.use .t),
                      mayRaise,
                      ev (.readPtr .c 7),
                      -- inlined virtualNode.remote_merge_from  [self.virtNode.root.remote_merge_from]
                      scope
                        (dblock [
                          ev (.requires .self),
                          mayRaise,
                          loop
                            (DStmt.ite .any
                              (dblock [
                                mayRaise,
                                cont
                              ])
                              (skip)),
                          loop
                            (DStmt.ite .any
                              (dblock [
                                DStmt.ite .any
                                  (dblock [
                                    mayRaise,
                                    tryExcept
                                      -- inlined virtualNode.remote_update_virtual_merge  [call_method(nb.root, 'update_virtual_merge')]
                                      (scope
                                        (dblock [
                                          mayRaise,
                                          ev (.iter .peer),
                                          loop
                                            (DStmt.ite .any
                                              (dblock [
                                                ev (.bind .q),
                                                DStmt.ite .any
                                                  (dblock [
                                                    ev (.reval .q .peer true),
                                                    ev (.reval .q (.cap 7) true),
                                                    ev (.use .q),
                                                    ev (.use .q)
                                                  ])
                                                  (dblock [
                                                    ev (.reval .q .peer false),
                                                    ev (.reval .q (.cap 7) false),
                                                    DStmt.ite .any
                                                      (dblock [
                                                        ev (.reval .q (.cap 7) true),
                                                        tryExcept
                                                          (dblock [
                                                            ev (.use .q),
                                                            mayRaise
                                                          ])
                                                          (mayRaise)
                                                      ])
                                                      (ev (.reval .q (.cap 7) false))
                                                  ]),
                                                DStmt.ite .any
                                                  (dblock [
                                                    ev (.reval .q (.cap 7) true),
                                                    ev (.repoint .q .self)
                                                  ])
                                                  (ev (.reval .q (.cap 7) false)),
                                                cont
                                              ])
                                              (skip)),
                                          ev (.bind .q)
                                        ]))
                                      (mayRaise)
                                  ])
                                  (skip),
                                cont
                              ])
                              (skip)),
                          -- inlined virtualNode.remote_update_virtual_merge  [self.remote_update_virtual_merge]
                          scope
                            (dblock [
                              mayRaise,
                              ev (.iter .self),
                              loop
                                (DStmt.ite .any
                                  (dblock [
                                    ev (.bind .q),
                                    DStmt.ite .any
                                      (dblock [
                                        ev (.reval .q .self true),
                                        ev (.reval .q (.cap 7) true),
                                        ev (.use .q),
                                        ev (.use .q)
                                      ])
                                      (dblock [
                                        ev (.reval .q .self false),
                                        ev (.reval .q (.cap 7) false),
                                        DStmt.ite .any
                                          (dblock [
                                            ev (.reval .q (.cap 7) true),
                                            tryExcept
                                              (dblock [
                                                ev (.use .q),
                                                mayRaise
                                              ])
                                              (mayRaise)
                                          ])
                                          (ev (.reval .q (.cap 7) false))
                                      ]),
                                    DStmt.ite .any
                                      (dblock [
                                        ev (.reval .q (.cap 7) true),
                                        ev (.repoint .q .self)
                                      ])
                                      (ev (.reval .q (.cap 7) false)),
                                    cont
                                  ])
                                  (skip)),
                              ev (.bind .q)
                            ]),
                          ret
                        ]),
                      ev (.repoint .c .self),
                      ev (.readPtr .t 8),
                      -- inlined virtualNode.remote_merge_from  [target.virtNode.root.remote_merge_from]
                      scope
                        (dblock [
                          ev (.requires .self),
                          mayRaise,
                          loop
                            (DStmt.ite .any
                              (dblock [
                                mayRaise,
                                cont
                              ])
                              (skip)),
                          loop
                            (DStmt.ite .any
                              (dblock [
                                DStmt.ite .any
                                  (dblock [
                                    mayRaise,
                                    tryExcept
                                      -- inlined virtualNode.remote_update_virtual_merge  [call_method(nb.root, 'update_virtual_merge')]
                                      (scope
                                        (dblock [
                                          mayRaise,
                                          ev (.iter .peer),
                                          loop
                                            (DStmt.ite .any
                                              (dblock [
                                                ev (.bind .q),
                                                DStmt.ite .any
                                                  (dblock [
                                                    ev (.reval .q .peer true),
                                                    ev (.reval .q (.cap 8) true),
                                                    ev (.use .q),
                                                    ev (.use .q)
                                                  ])
                                                  (dblock [
                                                    ev (.reval .q .peer false),
                                                    ev (.reval .q (.cap 8) false),
                                                    DStmt.ite .any
                                                      (dblock [
                                                        ev (.reval .q (.cap 8) true),
                                                        tryExcept
                                                          (dblock [
                                                            ev (.use .q),
                                                            mayRaise
                                                          ])
                                                          (mayRaise)
                                                      ])
                                                      (ev (.reval .q (.cap 8) false))
                                                  ]),
                                                DStmt.ite .any
                                                  (dblock [
                                                    ev (.reval .q (.cap 8) true),
                                                    ev (.repoint .q .self)
                                                  ])
                                                  (ev (.reval .q (.cap 8) false)),
                                                cont
                                              ])
                                              (skip)),
                                          ev (.bind .q)
                                        ]))
                                      (mayRaise)
                                  ])
                                  (skip),
                                cont
                              ])
                              (skip)),
                          -- inlined virtualNode.remote_update_virtual_merge  [self.remote_update_virtual_merge]
                          scope
                            (dblock [
                              mayRaise,
                              ev (.iter .self),
                              loop
                                (DStmt.ite .any
                                  (dblock [
                                    ev (.bind .q),
                                    DStmt.ite .any
                                      (dblock [
                                        ev (.reval .q .self true),
                                        ev (.reval .q (.cap 8) true),
                                        ev (.use .q),
                                        ev (.use .q)
                                      ])
                                      (dblock [
                                        ev (.reval .q .self false),
                                        ev (.reval .q (.cap 8) false),
                                        DStmt.ite .any
                                          (dblock [
                                            ev (.reval .q (.cap 8) true),
                                            tryExcept
                                              (dblock [
                                                ev (.use .q),
                                                mayRaise
                                              ])
                                              (mayRaise)
                                          ])
                                          (ev (.reval .q (.cap 8) false))
                                      ]),
                                    DStmt.ite .any
                                      (dblock [
                                        ev (.reval .q (.cap 8) true),
                                        ev (.repoint .q .self)
                                      ])
                                      (ev (.reval .q (.cap 8) false)),
                                    cont
                                  ])
                                  (skip)),
                              ev (.bind .q)
                            ]),
                          ret
                        ]),
                      ev (.repoint .t .self),
                      ev (.use .t),
                      ev (.use .c),
                      mayRaise
                    ])
                ]))
          ])
          (mayRaise))
        (tryFinally
          -- inlined virtualQubit._unlock_inreg  [self._unlock_inreg]
          (scope
            (tryExcept
              (DStmt.ite .any
                (dblock [
                  ev (.reval .c .self true),
                  ev (.use .c),
                  ev (.use .c),
                  mayRaise
                ])
                (dblock [
                  ev (.reval .c .self false),
                  ev (.use .c),
                  mayRaise,
                  ev (.use .c),
                  mayRaise
                ]))
              (mayRaise)))
          (dblock [
            ev (.rel [.self, (.cap 1), (.cap 2)]),
            mayRaise
          ]))
    ])

/-- `virtualQubit._two_qubit_gate` (line 1507) -/
def Q__two_qubit_gate : DStmt :=
  dblock [
    DStmt.ite .any
      (ret)
      (skip),
    -- inlined virtualQubit._lock_nodes  [self._lock_nodes]
    scope
      (loop
        (dblock [
          ev (.readPtr .c 1),
          ev (.readPtr .t 2),
          DStmt.ite .timeout
            (dblock [
              ev (.acq [.self, (.cap 1), (.cap 2)] true),
              ev (.cancel),
              ev (.rel [.self, (.cap 1), (.cap 2)]),
              mayRaise,
              cont
            ])
            (dblock [
              ev (.acq [.self, (.cap 1), (.cap 2)] false),
              DStmt.ite .any
                (dblock [
                  ev (.reval .c (.cap 1) false),
                  ev (.reval .t (.cap 2) false),
                  ev (.rel [.self, (.cap 1), (.cap 2)]),
                  mayRaise,
                  cont
                ])
                (dblock [
                  ev (.reval .c (.cap 1) true),
                  ev (.reval .t (.cap 2) true),
                  ret
                ])
            ])
        ])),
    tryCatch
      -- inlined virtualQubit._lock_inreg  [self._lock_inreg]
      (scope
        (tryExcept
          (DStmt.ite .any
            (dblock [
              ev (.reval .c .self true),
              ev (.use .c),
              ev (.use .c),
              mayRaise
            ])
            (dblock [
              ev (.reval .c .self false),
              ev (.use .c),
              mayRaise,
              ev (.use .c),
              mayRaise
            ]))
          (mayRaise)))
      (dblock [
        ev (.rel [.self, (.cap 1), (.cap 2)]),
        mayRaise,
        DStmt.raise
      ]),
    tryFinally
      (tryExcept
        (dblock [
          ev (.use .c),
          ev (.use .t),
          DStmt.ite .any
            (DStmt.ite .any
              (dblock [
                ev (.reval .c .self true),
                ev (.use .c),
                ev (.use .t),
                DStmt.ite .any
                  (dblock [
                    ev (.use .c),
                    ev (.use .t),
                    mayRaise
                  ])
                  (dblock [
                    -- inlined virtualQubit._lock_inreg  [self._lock_inreg]
                    scope
                      (tryExcept
                        (DStmt.ite .any
                          (dblock [
                            ev (.reval .t .self true),
                            ev (.use .t),
                            ev (.use .t),
                            mayRaise
                          ])
                          (dblock [
                            ev (.reval .t .self false),
                            ev (.use .t),
                            mayRaise,
                            ev (.use .t),
                            mayRaise
                          ]))
                        (mayRaise)),
                    ev (.use .c),
                    ev (.use .c),
                    ev (.use .t),
                    mayRaise,
                    ev (.use .c),
                    ev (.use .t),
                    mayRaise
                  ])
              ])
              (dblock [
                ev (.reval .c .self false),
                ev (.use .c),
                mayRaise,
                ev (.use .t),
                mayRaise,
                ev (.use .c),
                mayRaise,
                DStmt.ite .any
                  -- inlined virtualQubit._lock_inreg  [self._lock_inreg]
                  (scope
                    (tryExcept
                      (DStmt.ite .any
                        (dblock [
                          ev (.reval .t .self true),
                          ev (.use .t),
                          ev (.use .t),
                          mayRaise
                        ])
                        (dblock [
                          ev (.reval .t .self false),
                          ev (.use .t),
                          mayRaise,
                          ev (.use .t),
                          mayRaise
                        ]))
                      (mayRaise)))
                  (skip),
                ev (.use .c),
                ev (.use .t),
                mayRaise,
                ev (.use .c),
                mayRaise,
                ev (.use .t),
                mayRaise,
                ev (.use .c),
                mayRaise
              ]))
            (DStmt.ite .any
              (dblock [
                ev (.reval .c .self true),
                ev (.use .t),
                mayRaise,
                ev (.use .t),
                mayRaise,
                ev (.readPtr .c 3),
                ev (.readPtr .t 4),
                ev (.use .c),
                -- inlined virtualNode.remote_merge_from  [self.simNode.root.remote_merge_from]
                scope
                  (dblock [
                    ev (.requires (.cap 3)),
                    mayRaise,
                    loop
                      (DStmt.ite .any
                        (dblock [
                          mayRaise,
                          cont
                        ])
                        (skip)),
                    loop
                      (DStmt.ite .any
                        (dblock [
                          DStmt.ite .any
                            (dblock [
                              mayRaise,
                              tryExcept
                                -- inlined virtualNode.remote_update_virtual_merge  [call_method(nb.root, 'update_virtual_merge')]
                                (scope
                                  (dblock [
                                    mayRaise,
                                    ev (.iter .peer),
                                    loop
                                      (DStmt.ite .any
                                        (dblock [
                                          ev (.bind .q),
                                          DStmt.ite .any
                                            (dblock [
                                              ev (.reval .q .peer true),
                                              ev (.reval .q (.cap 4) true),
                                              ev (.use .q),
                                              ev (.use .q)
                                            ])
                                            (dblock [
                                              ev (.reval .q .peer false),
                                              ev (.reval .q (.cap 4) false),
                                              DStmt.ite .any
                                                (dblock [
                                                  ev (.reval .q (.cap 4) true),
                                                  tryExcept
                                                    (dblock [
                                                      ev (.use .q),
                                                      mayRaise
                                                    ])
                                                    (mayRaise)
                                                ])
                                                (ev (.reval .q (.cap 4) false))
                                            ]),
                                          DStmt.ite .any
                                            (dblock [
                                              ev (.reval .q (.cap 4) true),
                                              ev (.repoint .q (.cap 3))
                                            ])
                                            (ev (.reval .q (.cap 4) false)),
                                          cont
                                        ])
                                        (skip)),
                                    ev (.bind .q)
                                  ]))
                                (mayRaise)
                            ])
                            (skip),
                          cont
                        ])
                        (skip)),
                    -- inlined virtualNode.remote_update_virtual_merge  [self.remote_update_virtual_merge]
                    scope
                      (dblock [
                        mayRaise,
                        ev (.iter (.cap 3)),
                        loop
                          (DStmt.ite .any
                            (dblock [
                              ev (.bind .q),
                              DStmt.ite .any
                                (dblock [
                                  ev (.reval .q (.cap 3) true),
                                  ev (.reval .q (.cap 4) true),
                                  ev (.use .q),
                                  ev (.use .q)
                                ])
                                (dblock [
                                  ev (.reval .q (.cap 3) false),
                                  ev (.reval .q (.cap 4) false),
                                  DStmt.ite .any
                                    (dblock [
                                      ev (.reval .q (.cap 4) true),
                                      tryExcept
                                        (dblock [
                                          ev (.use .q),
                                          mayRaise
                                        ])
                                        (mayRaise)
                                    ])
                                    (ev (.reval .q (.cap 4) false))
                                ]),
                              DStmt.ite .any
                                (dblock [
                                  ev (.reval .q (.cap 4) true),
                                  ev (.repoint .q (.cap 3))
                                ])
                                (ev (.reval .q (.cap 4) false)),
                              cont
                            ])
                            (skip)),
                        ev (.bind .q)
                      ]),
                    ret
                  ]),
                ev (.repoint .t (.cap 3)),
                ev (.use .t),
                ev (.use .c),
                mayRaise
              ])
              (dblock [
                ev (.reval .c .self false),
                DStmt.ite .any
                  (dblock [
                    ev (.reval .t .self true),
                    ev (.use .c),
                    mayRaise,
                    ev (.use .c),
                    mayRaise,
                    ev (.readPtr .t 5),
                    ev (.readPtr .c 6),
                    ev (.use .t),
                    -- inlined virtualNode.remote_merge_from  [target.simNode.root.remote_merge_from]
                    scope
                      (dblock [
                        ev (.requires (.cap 5)),
                        mayRaise,
                        loop
                          (DStmt.ite .any
                            (dblock [
                              mayRaise,
                              cont
                            ])
                            (skip)),
                        loop
                          (DStmt.ite .any
                            (dblock [
                              DStmt.ite .any
                                (dblock [
                                  mayRaise,
                                  tryExcept
                                    -- inlined virtualNode.remote_update_virtual_merge  [call_method(nb.root, 'update_virtual_merge')]
                                    (scope
                                      (dblock [
                                        mayRaise,
                                        ev (.iter .peer),
                                        loop
                                          (DStmt.ite .any
                                            (dblock [
                                              ev (.bind .q),
                                              DStmt.ite .any
                                                (dblock [
                                                  ev (.reval .q .peer true),
                                                  ev (.reval .q (.cap 6) true),
                                                  ev (.use .q),
                                                  ev (.use .q)
                                                ])
                                                (dblock [
                                                  ev (.reval .q .peer false),
                                                  ev (.reval .q (.cap 6) false),
                                                  DStmt.ite .any
                                                    (dblock [
                                                      ev (.reval .q (.cap 6) true),
                                                      tryExcept
                                                        (dblock [
                                                          ev (.use .q),
                                                          mayRaise
                                                        ])
                                                        (mayRaise)
                                                    ])
                                                    (ev (.reval .q (.cap 6) false))
                                                ]),
                                              DStmt.ite .any
                                                (dblock [
                                                  ev (.reval .q (.cap 6) true),
                                                  ev (.repoint .q (.cap 5))
                                                ])
                                                (ev (.reval .q (.cap 6) false)),
                                              cont
                                            ])
                                            (skip)),
                                        ev (.bind .q)
                                      ]))
                                    (mayRaise)
                                ])
                                (skip),
                              cont
                            ])
                            (skip)),
                        -- inlined virtualNode.remote_update_virtual_merge  [self.remote_update_virtual_merge]
                        scope
                          (dblock [
                            mayRaise,
                            ev (.iter (.cap 5)),
                            loop
                              (DStmt.ite .any
                                (dblock [
                                  ev (.bind .q),
                                  DStmt.ite .any
                                    (dblock [
                                      ev (.reval .q (.cap 5) true),
                                      ev (.reval .q (.cap 6) true),
                                      ev (.use .q),
                                      ev (.use .q)
                                    ])
                                    (dblock [
                                      ev (.reval .q (.cap 5) false),
                                      ev (.reval .q (.cap 6) false),
                                      DStmt.ite .any
                                        (dblock [
                                          ev (.reval .q (.cap 6) true),
                                          tryExcept
                                            (dblock [
                                              ev (.use .q),
                                              mayRaise
                                            ])
                                            (mayRaise)
                                        ])
                                        (ev (.reval .q (.cap 6) false))
                                    ]),
                                  DStmt.ite .any
                                    (dblock [
                                      ev (.reval .q (.cap 6) true),
                                      ev (.repoint .q (.cap 5))
                                    ])
                                    (ev (.reval .q (.cap 6) false)),
                                  cont
                                ])
                                (skip)),
                            ev (.bind .q)
                          ]),
                        ret
                      ]),
                    ev (.repoint .c (.cap 5)),
                    ev (.use .t),
                    ev (.use .c),
                    mayRaise
                  ])
                  (dblock [
                    ev (.reval .t .self false),
                    mayRaise,
                    ev (.use .c),
                    mayRaise,
                    ev (.use .c),
                    mayRaise,
                    ev (.use .t),
                    mayRaise,
                    ev (.use .t),
                    mayRaise,
                    ev (.readPtr .c 7),
                    -- inlined virtualNode.remote_merge_from  [self.virtNode.root.remote_merge_from]
                    scope
                      (dblock [
                        ev (.requires .self),
                        mayRaise,
                        loop
                          (DStmt.ite .any
                            (dblock [
                              mayRaise,
                              cont
                            ])
                            (skip)),
                        loop
                          (DStmt.ite .any
                            (dblock [
                              DStmt.ite .any
                                (dblock [
                                  mayRaise,
                                  tryExcept
                                    -- inlined virtualNode.remote_update_virtual_merge  [call_method(nb.root, 'update_virtual_merge')]
                                    (scope
                                      (dblock [
                                        mayRaise,
                                        ev (.iter .peer),
                                        loop
                                          (DStmt.ite .any
                                            (dblock [
                                              ev (.bind .q),
                                              DStmt.ite .any
                                                (dblock [
                                                  ev (.reval .q .peer true),
                                                  ev (.reval .q (.cap 7) true),
                                                  ev (.use .q),
                                                  ev (.use .q)
                                                ])
                                                (dblock [
                                                  ev (.reval .q .peer false),
                                                  ev (.reval .q (.cap 7) false),
                                                  DStmt.ite .any
                                                    (dblock [
                                                      ev (.reval .q (.cap 7) true),
                                                      tryExcept
                                                        (dblock [
                                                          ev (.use .q),
                                                          mayRaise
                                                        ])
                                                        (mayRaise)
                                                    ])
                                                    (ev (.reval .q (.cap 7) false))
                                                ]),
                                              DStmt.ite .any
                                                (dblock [
                                                  ev (.reval .q (.cap 7) true),
                                                  ev (.repoint .q .self)
                                                ])
                                                (ev (.reval .q (.cap 7) false)),
                                              cont
                                            ])
                                            (skip)),
                                        ev (.bind .q)
                                      ]))
                                    (mayRaise)
                                ])
                                (skip),
                              cont
                            ])
                            (skip)),
                        -- inlined virtualNode.remote_update_virtual_merge  [self.remote_update_virtual_merge]
                        scope
                          (dblock [
                            mayRaise,
                            ev (.iter .self),
                            loop
                              (DStmt.ite .any
                                (dblock [
                                  ev (.bind .q),
                                  DStmt.ite .any
                                    (dblock [
                                      ev (.reval .q .self true),
                                      ev (.reval .q (.cap 7) true),
                                      ev (.use .q),
                                      ev (.use .q)
                                    ])
                                    (dblock [
                                      ev (.reval .q .self false),
                                      ev (.reval .q (.cap 7) false),
                                      DStmt.ite .any
                                        (dblock [
                                          ev (.reval .q (.cap 7) true),
                                          tryExcept
                                            (dblock [
                                              ev (.use .q),
                                              mayRaise
                                            ])
                                            (mayRaise)
                                        ])
                                        (ev (.reval .q (.cap 7) false))
                                    ]),
                                  DStmt.ite .any
                                    (dblock [
                                      ev (.reval .q (.cap 7) true),
                                      ev (.repoint .q .self)
                                    ])
                                    (ev (.reval .q (.cap 7) false)),
                                  cont
                                ])
                                (skip)),
                            ev (.bind .q)
                          ]),
                        ret
                      ]),
                    ev (.repoint .c .self),
                    ev (.readPtr .t 8),
                    -- inlined virtualNode.remote_merge_from  [target.virtNode.root.remote_merge_from]
                    scope
                      (dblock [
                        ev (.requires .self),
                        mayRaise,
                        loop
                          (DStmt.ite .any
                            (dblock [
                              mayRaise,
                              cont
                            ])
                            (skip)),
                        loop
                          (DStmt.ite .any
                            (dblock [
                              DStmt.ite .any
                                (dblock [
                                  mayRaise,
                                  tryExcept
                                    -- inlined virtualNode.remote_update_virtual_merge  [call_method(nb.root, 'update_virtual_merge')]
                                    (scope
                                      (dblock [
                                        mayRaise,
                                        ev (.iter .peer),
                                        loop
                                          (DStmt.ite .any
                                            (dblock [
                                              ev (.bind .q),
                                              DStmt.ite .any
                                                (dblock [
                                                  ev (.reval .q .peer true),
                                                  ev (.reval .q (.cap 8) true),
                                                  ev (.use .q),
                                                  ev (.use .q)
                                                ])
                                                (dblock [
                                                  ev (.reval .q .peer false),
                                                  ev (.reval .q (.cap 8) false),
                                                  DStmt.ite .any
                                                    (dblock [
                                                      ev (.reval .q (.cap 8) true),
                                                      tryExcept
                                                        (dblock [
                                                          ev (.use .q),
                                                          mayRaise
                                                        ])
                                                        (mayRaise)
                                                    ])
                                                    (ev (.reval .q (.cap 8) false))
                                                ]),
                                              DStmt.ite .any
                                                (dblock [
                                                  ev (.reval .q (.cap 8) true),
                                                  ev (.repoint .q .self)
                                                ])
                                                (ev (.reval .q (.cap 8) false)),
                                              cont
                                            ])
                                            (skip)),
                                        ev (.bind .q)
                                      ]))
                                    (mayRaise)
                                ])
                                (skip),
                              cont
                            ])
                            (skip)),
                        -- inlined virtualNode.remote_update_virtual_merge  [self.remote_update_virtual_merge]
                        scope
                          (dblock [
                            mayRaise,
                            ev (.iter .self),
                            loop
                              (DStmt.ite .any
                                (dblock [
                                  ev (.bind .q),
                                  DStmt.ite .any
                                    (dblock [
                                      ev (.reval .q .self true),
                                      ev (.reval .q (.cap 8) true),
                                      ev (.use .q),
                                      ev (.use .q)
                                    ])
                                    (dblock [
                                      ev (.reval .q .self false),
                                      ev (.reval .q (.cap 8) false),
                                      DStmt.ite .any
                                        (dblock [
                                          ev (.reval .q (.cap 8) true),
                                          tryExcept
                                            (dblock [
                                              ev (.use .q),
                                              mayRaise
                                            ])
                                            (mayRaise)
                                        ])
                                        (ev (.reval .q (.cap 8) false))
                                    ]),
                                  DStmt.ite .any
                                    (dblock [
                                      ev (.reval .q (.cap 8) true),
                                      ev (.repoint .q .self)
                                    ])
                                    (ev (.reval .q (.cap 8) false)),
                                  cont
                                ])
                                (skip)),
                            ev (.bind .q)
                          ]),
                        ret
                      ]),
                    ev (.repoint .t .self),
                    ev (.use .t),
                    ev (.use .c),
                    mayRaise
                  ])
              ]))
        ])
        (mayRaise))
      (tryFinally
        -- inlined virtualQubit._unlock_inreg  [self._unlock_inreg]
        (scope
          (tryExcept
            (DStmt.ite .any
              (dblock [
                ev (.reval .c .self true),
                ev (.use .c),
                ev (.use .c),
                mayRaise
              ])
              (dblock [
                ev (.reval .c .self false),
                ev (.use .c),
                mayRaise,
                ev (.use .c),
                mayRaise
              ]))
            (mayRaise)))
        (dblock [
          ev (.rel [.self, (.cap 1), (.cap 2)]),
          mayRaise
        ]))
  ]

/-- `virtualQubit.remote_get_number` (line 1681) -/
def Q_remote_get_number : DStmt :=
  dblock [
    DStmt.ite .any
      (dblock [
        ev (.reval .c .self true),
        ev (.use .c)
      ])
      (dblock [
        ev (.reval .c .self false),
        tryExcept
          (dblock [
            ev (.use .c),
            mayRaise
          ])
          (ret)
      ]),
    ret
  ]

/-- `virtualQubit.remote_get_simNode` (line 1713) -/
def Q_remote_get_simNode : DStmt :=
  dblock [
    ev (.use .c),
    ret
  ]

/-- `virtualQubit.remote_get_qubit` (line 1720) -/
def Q_remote_get_qubit : DStmt :=
  dblock [
    DStmt.ite .any
      (dblock [
        ev (.reval .c .self true),
        ev (.use .c),
        mayRaise
      ])
      (dblock [
        ev (.reval .c .self false),
        tryExcept
          (tryExcept
            (dblock [
              ev (.use .c),
              mayRaise
            ])
            (mayRaise))
          (skip)
      ]),
    ret
  ]

/-- `virtualQubit.remote_get_register_RI` (line 1743) -/
def Q_remote_get_register_RI : DStmt :=
  dblock [
    DStmt.ite .any
      (dblock [
        ev (.reval .c .self true),
        ev (.use .c),
        mayRaise
      ])
      (dblock [
        ev (.reval .c .self false),
        ev (.use .c),
        mayRaise
      ]),
    ret
  ]

/-- `virtualQubit._lock_simulating_node` (line 1751) -/
def Q__lock_simulating_node : DStmt :=
  loop
    (dblock [
      ev (.readPtr .c 1),
      DStmt.ite .any
        (ret)
        (skip),
      mayRaise,
      ev (.acq [(.cap 1)] false),
      mayRaise,
      DStmt.ite .any
        (dblock [
          ev (.reval .c (.cap 1) false),
          ev (.rel [(.cap 1)]),
          mayRaise,
          cont
        ])
        (dblock [
          ev (.reval .c (.cap 1) true),
          ret
        ])
    ])

/-- every translated method, by `<class>.<method>` -/
def allDynMethods : DTable := [
  ("virtualNode.remote_netqasm_send_qubit", N_remote_netqasm_send_qubit),
  ("virtualNode.remote_netqasm_send_epr_half", N_remote_netqasm_send_epr_half),
  ("virtualNode.remote_send_qubit", N_remote_send_qubit),
  ("virtualNode.remote_merge_from", N_remote_merge_from),
  ("virtualNode.remote_update_virtual_merge", N_remote_update_virtual_merge),
  ("virtualNode.remote_get_register_RI", N_remote_get_register_RI),
  ("virtualNode.remote_get_register", N_remote_get_register),
  ("virtualNode.remote_get_multiple_qubits", N_remote_get_multiple_qubits),
  ("virtualQubit.__init__", Q___init__),
  ("virtualQubit._single_gate", Q__single_gate),
  ("virtualQubit.remote_apply_X", Q_remote_apply_X),
  ("virtualQubit.remote_apply_Y", Q_remote_apply_Y),
  ("virtualQubit.remote_apply_Z", Q_remote_apply_Z),
  ("virtualQubit.remote_apply_H", Q_remote_apply_H),
  ("virtualQubit.remote_apply_K", Q_remote_apply_K),
  ("virtualQubit.remote_apply_S", Q_remote_apply_S),
  ("virtualQubit.remote_apply_T", Q_remote_apply_T),
  ("virtualQubit.remote_apply_rotation", Q_remote_apply_rotation),
  ("virtualQubit.remote_measure", Q_remote_measure),
  ("virtualQubit._lock_nodes", Q__lock_nodes),
  ("virtualQubit._lock_inreg", Q__lock_inreg),
  ("virtualQubit._unlock_inreg", Q__unlock_inreg),
  ("virtualQubit.remote_cnot_onto", Q_remote_cnot_onto),
  ("virtualQubit.remote_cphase_onto", Q_remote_cphase_onto),
  ("virtualQubit._two_qubit_gate", Q__two_qubit_gate),
  ("virtualQubit.remote_get_number", Q_remote_get_number),
  ("virtualQubit.remote_get_simNode", Q_remote_get_simNode),
  ("virtualQubit.remote_get_qubit", Q_remote_get_qubit),
  ("virtualQubit.remote_get_register_RI", Q_remote_get_register_RI),
  ("virtualQubit._lock_simulating_node", Q__lock_simulating_node)
]

/-- the methods in which the AST contains an access to `<handle>.simNode` / `<handle>.simQubit` -/
def ptrAccessors : List String := ["virtualNode.remote_send_qubit", "virtualNode.remote_update_virtual_merge", "virtualNode.remote_get_register", "virtualNode.remote_get_multiple_qubits", "virtualQubit.__init__", "virtualQubit._single_gate", "virtualQubit.remote_measure", "virtualQubit._lock_nodes", "virtualQubit._lock_inreg", "virtualQubit._unlock_inreg", "virtualQubit._two_qubit_gate", "virtualQubit.remote_get_number", "virtualQubit.remote_get_simNode", "virtualQubit.remote_get_qubit", "virtualQubit.remote_get_register_RI", "virtualQubit._lock_simulating_node"]

/-- the methods that reach one of those through calls -/
def ptrCallers : List String := ["virtualNode.remote_netqasm_send_qubit", "virtualNode.remote_netqasm_send_epr_half", "virtualNode.remote_merge_from", "virtualNode.remote_get_register_RI", "virtualQubit.remote_apply_X", "virtualQubit.remote_apply_Y", "virtualQubit.remote_apply_Z", "virtualQubit.remote_apply_H", "virtualQubit.remote_apply_K", "virtualQubit.remote_apply_S", "virtualQubit.remote_apply_T", "virtualQubit.remote_apply_rotation", "virtualQubit.remote_cnot_onto", "virtualQubit.remote_cphase_onto"]

/-- reads of a field of that name on objects of another class, set aside by the translator -/
def nonHandleReads : List (String × String) := [("remote_new_qubit_inreg", "reg.simNode")]

end SqVerif.GenDyn

-- root of the `SqVerif` library: everything `setup.sh` builds
import SqVerif.Drive.Topo
import SqVerif.Props.C17

"""AST translator for C12: simulaqron/netqasm_backend/executioner.py -> lean/SqVerif/Gen/EprGuards.lean

`cmd_epr` (the only place that creates the two halves of an EPR pair) is
abstracted to the ordered list of its top-level statements:

  guardUnknown   the `for name, host in ...hostDict.items(): id = get_node_id_from_net_config(..., host.name);
                 if id == remote_node_id: break / else: raise` loop (binds the remote node NAME or raises)
  guardSelf      `if self.name == <name>: raise ...`
  guardAdjacent  `if not self.factory.is_adjacent(<name>): raise ...`
  cmdNew         `yield self.cmd_new(...)` (a `for x in [a, b]:` over a literal list whose body is exactly that
                 statement is unrolled: one cmdNew per element)
  other          a statement that cannot create a qubit: a logger call, or an assignment to local names
                 (never to <name>) whose right-hand side contains no call and no yield
  unrecog        ANYTHING else -- it may create a qubit; the obligations treat it like a creation

and `_do_create_epr` (the only caller of `cmd_epr`; every nested simple statement, headers of if/for
included) to `callCmdEpr | other | unrecog`, where `other` means: no yield, and every call goes to a short
whitelist of book-keeping helpers (helpers defined in executioner.py itself are checked recursively).

The obligations over both lists are in lean/SqVerif/Props/C12.lean (`decide`): the three guards, in the
code's order, precede the first statement that may create a qubit; the caller creates qubits only through
cmd_epr.  Guards are recognised by exact shape only: a guard wrapped in a condition, a guard on another
variable, an early `return`, a try/except around a guard ... all come out as `unrecog` and break the
obligation instead of passing silently."""
import ast
import os

SRC = "simulaqron/netqasm_backend/executioner.py"
OUT = "SqVerif/Gen/EprGuards.lean"
CLASS = "VanillaSimulaQronExecutioner"
LOGGER_LEVELS = {"debug", "info", "warning", "error", "critical", "exception", "log"}
# callees of _do_create_epr that only do book-keeping (netqasm Executor helpers / builtins / constructors)
CALLER_PURE_NAMES = {"len", "range", "int", "EprCmdData", "ValueError", "RuntimeError", "KeyError", "TypeError",
                     "NotImplementedError"}
CALLER_PURE_SELF = {"_get_create_request", "_get_new_create_id", "_get_remote_epr_socket_id", "_get_app_id",
                    "_get_unused_physical_qubit", "_get_purpose_id"}
CALLER_PURE_ATTR = {"append", "get", "format"}
# what must never be reachable from a "pure" helper
CREATING = {"cmd_new", "cmd_epr", "cmd_epr_recv", "callRemote", "new_qubit", "add_qubit", "new_register",
            "_instr_qalloc", "send_epr_half"}


def _without_docstring(body):
    if body and isinstance(body[0], ast.Expr) and isinstance(body[0].value, ast.Constant) \
            and isinstance(body[0].value.value, str):
        return body[1:]
    return body


def _is_self(n, attr=None):
    return (isinstance(n, ast.Attribute) and isinstance(n.value, ast.Name) and n.value.id == "self"
            and (attr is None or n.attr == attr))


def _has(node, kinds):
    return any(isinstance(x, kinds) for x in ast.walk(node))


_SUSPEND = (ast.Yield, ast.YieldFrom, ast.Await)
_BINDERS = (ast.NamedExpr, ast.Lambda, ast.ListComp, ast.SetComp, ast.DictComp, ast.GeneratorExp)


def _calls(node):
    return [x for x in ast.walk(node) if isinstance(x, ast.Call)]


def _is_format_call(c):
    return isinstance(c.func, ast.Attribute) and c.func.attr == "format" and isinstance(c.func.value, ast.Constant)


def _harmless_expr(e):
    """an expression that calls nothing (string formatting excepted), does not suspend and binds nothing"""
    if e is None:
        return True
    if _has(e, _SUSPEND + _BINDERS):
        return False
    return all(_is_format_call(c) for c in _calls(e))


def _is_plain_raise(stmt):
    """`raise SomeException(<harmless args>)`"""
    if not isinstance(stmt, ast.Raise) or stmt.cause is not None or stmt.exc is None:
        return False
    exc = stmt.exc
    if isinstance(exc, ast.Name):
        return True
    if not (isinstance(exc, ast.Call) and isinstance(exc.func, ast.Name)):
        return False
    return all(_harmless_expr(a) for a in exc.args) and all(_harmless_expr(k.value) for k in exc.keywords)


def _match_lookup_loop(stmt):
    """-> name of the variable bound to the remote node's name, or None"""
    if not isinstance(stmt, ast.For) or len(stmt.orelse) != 1 or not _is_plain_raise(stmt.orelse[0]):
        return None
    tg = stmt.target
    if not (isinstance(tg, ast.Tuple) and len(tg.elts) == 2 and all(isinstance(e, ast.Name) for e in tg.elts)):
        return None
    key_var, host_var = tg.elts[0].id, tg.elts[1].id
    it = stmt.iter
    # self.factory.qnodeos_net.hostDict.items()
    if not (isinstance(it, ast.Call) and not it.args and not it.keywords and isinstance(it.func, ast.Attribute)
            and it.func.attr == "items" and isinstance(it.func.value, ast.Attribute)
            and it.func.value.attr == "hostDict"):
        return None
    net_expr = ast.dump(it.func.value.value)
    if len(stmt.body) != 2:
        return None
    asg, test = stmt.body
    if not (isinstance(asg, ast.Assign) and len(asg.targets) == 1 and isinstance(asg.targets[0], ast.Name)):
        return None
    id_var = asg.targets[0].id
    if id_var in (key_var, host_var):
        return None
    c = asg.value
    if not (isinstance(c, ast.Call) and isinstance(c.func, ast.Name) and c.func.id == "get_node_id_from_net_config"
            and len(c.args) == 2 and not c.keywords and ast.dump(c.args[0]) == net_expr):
        return None
    a1 = c.args[1]
    name_of_host = (isinstance(a1, ast.Attribute) and a1.attr == "name" and isinstance(a1.value, ast.Name)
                    and a1.value.id == host_var)
    name_is_key = isinstance(a1, ast.Name) and a1.id == key_var
    if not (name_of_host or name_is_key):
        return None
    if not (isinstance(test, ast.If) and not test.orelse and len(test.body) == 1 and isinstance(test.body[0], ast.Break)):
        return None
    t = test.test
    if not (isinstance(t, ast.Compare) and len(t.ops) == 1 and isinstance(t.ops[0], ast.Eq)):
        return None
    sides = {ast.dump(t.left), ast.dump(t.comparators[0])}
    want = {ast.dump(ast.Name(id=id_var, ctx=ast.Load())), ast.dump(ast.Name(id="remote_node_id", ctx=ast.Load()))}
    if sides != want:
        return None
    return key_var


def _guard_if(stmt):
    """`if <test>: raise X(...)` with nothing else -> the test, else None"""
    if isinstance(stmt, ast.If) and not stmt.orelse and len(stmt.body) == 1 and _is_plain_raise(stmt.body[0]):
        return stmt.test
    return None


def _match_self_guard(stmt, rname):
    t = _guard_if(stmt)
    if t is None or not (isinstance(t, ast.Compare) and len(t.ops) == 1 and isinstance(t.ops[0], ast.Eq)):
        return False
    a, b = t.left, t.comparators[0]

    def is_r(n):
        return isinstance(n, ast.Name) and n.id == rname
    return (_is_self(a, "name") and is_r(b)) or (_is_self(b, "name") and is_r(a))


def _match_adjacent_guard(stmt, rname):
    t = _guard_if(stmt)
    if t is None or not (isinstance(t, ast.UnaryOp) and isinstance(t.op, ast.Not)):
        return False
    c = t.operand
    if not (isinstance(c, ast.Call) and isinstance(c.func, ast.Attribute) and c.func.attr == "is_adjacent"
            and _is_self(c.func.value, "factory")):
        return False
    args = list(c.args) + [k.value for k in c.keywords]
    return len(args) == 1 and isinstance(args[0], ast.Name) and args[0].id == rname


def _is_cmd_new_stmt(stmt):
    """`yield self.cmd_new(<harmless args>)`"""
    if not (isinstance(stmt, ast.Expr) and isinstance(stmt.value, ast.Yield) and stmt.value.value is not None):
        return False
    c = stmt.value.value
    if not (isinstance(c, ast.Call) and _is_self(c.func, "cmd_new")):
        return False
    return all(_harmless_expr(a) for a in c.args) and all(_harmless_expr(k.value) for k in c.keywords)


def _is_logger_call(stmt):
    if not (isinstance(stmt, ast.Expr) and isinstance(stmt.value, ast.Call)):
        return False
    c = stmt.value
    f = c.func
    if not (isinstance(f, ast.Attribute) and f.attr in LOGGER_LEVELS):
        return False
    lg = f.value
    if not (_is_self(lg, "_logger") or (isinstance(lg, ast.Attribute) and lg.attr == "_logger" and _is_self(lg.value, "factory"))):
        return False
    return all(_harmless_expr(a) for a in c.args) and all(_harmless_expr(k.value) for k in c.keywords)


def _is_local_assign(stmt, protected):
    """assignment to plain local names (not the protected ones), right-hand side calls nothing"""
    if isinstance(stmt, ast.Assign):
        targets, val = stmt.targets, stmt.value
    elif isinstance(stmt, ast.AnnAssign) and stmt.value is not None:
        targets, val = [stmt.target], stmt.value
    else:
        return False
    for t in targets:
        elts = t.elts if isinstance(t, (ast.Tuple, ast.List)) else [t]
        for e in elts:
            if not isinstance(e, ast.Name) or e.id in protected:
                return False
    return _harmless_expr(val)


def _inline_guard_temps(fn, body):
    """`x = <expr>` directly followed by `if <test using x>: raise ...`, `x` used nowhere else in the function
    -> the `if` with `<expr>` substituted (a harmless way of writing the same guard)"""
    uses = {}
    for n in ast.walk(fn):
        if isinstance(n, ast.Name):
            uses[n.id] = uses.get(n.id, 0) + 1
    out, i = [], 0
    while i < len(body):
        st = body[i]
        nxt = body[i + 1] if i + 1 < len(body) else None
        if (isinstance(st, ast.Assign) and len(st.targets) == 1 and isinstance(st.targets[0], ast.Name)
                and uses.get(st.targets[0].id) == 2 and nxt is not None and _guard_if(nxt) is not None
                and sum(1 for n in ast.walk(nxt.test) if isinstance(n, ast.Name) and n.id == st.targets[0].id) == 1):
            var, val = st.targets[0].id, st.value

            class _Sub(ast.NodeTransformer):
                def visit_Name(self, node):
                    return val if node.id == var and isinstance(node.ctx, ast.Load) else node
            new_if = ast.If(test=_Sub().visit(nxt.test), body=nxt.body, orelse=[])
            ast.copy_location(new_if, nxt)
            out.append(ast.fix_missing_locations(new_if))
            i += 2
            continue
        out.append(st)
        i += 1
    return out


def classify_cmd_epr(fn):
    """-> (list of (kind, line, source text)), name variable or None"""
    out = []
    rname = None

    def add(kind, stmt, n=1):
        txt = ast.unparse(stmt).split("\n")[0][:70]
        for _ in range(n):
            out.append((kind, stmt.lineno, txt))

    for stmt in _inline_guard_temps(fn, _without_docstring(fn.body)):
        if rname is None:
            r = _match_lookup_loop(stmt)
            if r is not None:
                rname = r
                add("guardUnknown", stmt)
                continue
        if rname is not None and _match_self_guard(stmt, rname):
            add("guardSelf", stmt)
        elif rname is not None and _match_adjacent_guard(stmt, rname):
            add("guardAdjacent", stmt)
        elif _is_cmd_new_stmt(stmt):
            add("cmdNew", stmt)
        elif (isinstance(stmt, ast.For) and not stmt.orelse and isinstance(stmt.iter, (ast.List, ast.Tuple))
              and len(stmt.iter.elts) >= 1 and all(_harmless_expr(e) for e in stmt.iter.elts)
              and isinstance(stmt.target, ast.Name) and stmt.target.id != rname
              and len(stmt.body) == 1 and _is_cmd_new_stmt(stmt.body[0])):
            add("cmdNew", stmt, len(stmt.iter.elts))
        elif _is_logger_call(stmt) or _is_local_assign(stmt, {rname} if rname else set()) or isinstance(stmt, ast.Pass):
            add("other", stmt)
        else:
            add("unrecog", stmt)
    return out, rname


def _pure_method(cls_methods, name, seen):
    """a helper defined in executioner.py: no suspension, only whitelisted calls (recursively)"""
    if name in seen:
        return True
    seen = seen | {name}
    fn = cls_methods[name]
    if _has(fn, _SUSPEND):
        return False
    return all(_caller_call_ok(c, cls_methods, seen) for c in _calls(fn))


def _caller_call_ok(c, cls_methods, seen=frozenset()):
    f = c.func
    if isinstance(f, ast.Name):
        return f.id in CALLER_PURE_NAMES
    if isinstance(f, ast.Attribute):
        if f.attr in CREATING:
            return False
        if _is_self(f) or (isinstance(f.value, ast.Name) and f.value.id == "cls"):
            if f.attr not in CALLER_PURE_SELF:
                return False
            if f.attr in cls_methods:
                return _pure_method(cls_methods, f.attr, seen)
            return True          # inherited netqasm Executor book-keeping helper
        return f.attr in CALLER_PURE_ATTR
    return False


def classify_caller(fn, cls_methods):
    out = []

    def add(kind, node, what=None):
        out.append((kind, node.lineno, (what or ast.unparse(node)).split("\n")[0][:70]))

    def expr_kind(e):
        if e is None:
            return "other"
        if _has(e, _SUSPEND + _BINDERS):
            return "unrecog"
        return "other" if all(_caller_call_ok(c, cls_methods) for c in _calls(e)) else "unrecog"

    def walk(stmts):
        for s in stmts:
            if (isinstance(s, ast.Expr) and isinstance(s.value, ast.Yield) and isinstance(s.value.value, ast.Call)
                    and _is_self(s.value.value.func, "cmd_epr")):
                c = s.value.value
                ok = all(expr_kind(a) == "other" for a in c.args) and all(expr_kind(k.value) == "other" for k in c.keywords)
                add("callCmdEpr" if ok else "unrecog", s)
            elif isinstance(s, (ast.Expr, ast.Assign, ast.AnnAssign, ast.AugAssign, ast.Assert, ast.Pass, ast.Return)):
                add(expr_kind(s), s)
            elif isinstance(s, ast.If):
                add(expr_kind(s.test), s, "if " + ast.unparse(s.test))
                walk(s.body)
                walk(s.orelse)
            elif isinstance(s, ast.For):
                add(expr_kind(s.iter), s, "for ... in " + ast.unparse(s.iter))
                walk(s.body)
                walk(s.orelse)
            else:
                add("unrecog", s)
    walk(_without_docstring(fn.body))
    return out


def extract(src):
    tree = ast.parse(src)
    cls = next((n for n in tree.body if isinstance(n, ast.ClassDef) and n.name == CLASS), None)
    methods = {}
    if cls is not None:
        for n in cls.body:
            if isinstance(n, (ast.FunctionDef, ast.AsyncFunctionDef)):
                methods[n.name] = n
    tab = {"class_found": cls is not None, "cmd_epr": None, "caller": None, "remote_name_var": None,
           "cmd_epr_callers": []}
    if "cmd_epr" in methods:
        stmts, rname = classify_cmd_epr(methods["cmd_epr"])
        tab["cmd_epr"], tab["remote_name_var"] = stmts, rname
    if "_do_create_epr" in methods:
        tab["caller"] = classify_caller(methods["_do_create_epr"], methods)
    # every place in the file that mentions cmd_epr / cmd_new outside the two methods (informational + obligation)
    for name, fn in methods.items():
        for c in _calls(fn):
            if isinstance(c.func, ast.Attribute) and c.func.attr == "cmd_epr":
                tab["cmd_epr_callers"].append(name)
    tab["cmd_epr_callers"] = sorted(set(tab["cmd_epr_callers"]))
    return tab


def _lean_list(kinds, per_line=6):
    if not kinds:
        return "[]"
    rows = []
    for i in range(0, len(kinds), per_line):
        rows.append("  " + ", ".join("." + k for k in kinds[i:i + per_line]))
    return "[\n" + ",\n".join(rows) + "\n]"


def render(tab):
    out = []
    w = out.append
    w("import SqVerif.Adjacency")
    w("/- GENERATED on every run by harness/gen/epr_guards.py from %s — do not edit." % SRC)
    w("   Statement skeletons read off the Python AST; the obligations over them are in Props/C12.lean. -/")
    w("namespace SqVerif.Gen.EprGuards")
    w("open SqVerif.Adjacency")
    w("")
    stmts = tab["cmd_epr"]
    if stmts is None:
        w("/-- `cmd_epr` was not found in %s: a single unrecognised statement, on which every obligation fails -/" % CLASS)
        w("def cmdEprStmts : List Stmt := [.unrecog]")
    else:
        w("/- cmd_epr, statement by statement (remote-name variable: %s)" % (tab["remote_name_var"] or "NOT FOUND"))
        for k, line, txt in stmts:
            w("     %-13s line %-4d %s" % (k, line, txt.replace("-/", "- /").replace("/-", "/ -")))
        w("-/")
        w("def cmdEprStmts : List Stmt := " + _lean_list([k for k, _, _ in stmts]))
    w("")
    caller = tab["caller"]
    if caller is None:
        w("/-- `_do_create_epr` was not found -/")
        w("def doCreateEprStmts : List CallerStmt := [.unrecog]")
    else:
        w("/- _do_create_epr, every nested simple statement")
        for k, line, txt in caller:
            w("     %-11s line %-4d %s" % (k, line, txt.replace("-/", "- /").replace("/-", "/ -")))
        w("-/")
        w("def doCreateEprStmts : List CallerStmt := " + _lean_list([k for k, _, _ in caller]))
    w("")
    w("/-- methods of %s that call `cmd_epr` -/" % CLASS)
    w("def cmdEprCallers : List String := [%s]" % ", ".join('"%s"' % c for c in tab["cmd_epr_callers"]))
    w("")
    w("end SqVerif.Gen.EprGuards")
    return "\n".join(out) + "\n"


def generate(repo, lean_dir):
    """Regenerate Gen/EprGuards.lean from `repo`; rewritten only when its text changes."""
    with open(os.path.join(repo, SRC)) as f:
        tab = extract(f.read())
    text = render(tab)
    path = os.path.join(lean_dir, OUT)
    os.makedirs(os.path.dirname(path), exist_ok=True)
    old = None
    if os.path.exists(path):
        with open(path) as f:
            old = f.read()
    if old != text:
        tmp = path + ".tmp%d" % os.getpid()
        with open(tmp, "w") as f:
            f.write(text)
        os.replace(tmp, path)
    tab["changed"] = old != text
    return tab


if __name__ == "__main__":
    import json
    import sys
    here = os.path.dirname(os.path.dirname(os.path.dirname(os.path.abspath(__file__))))
    t = generate(sys.argv[1] if len(sys.argv) > 1 else "/repo", os.path.join(here, "lean"))
    print(json.dumps(t, indent=1))

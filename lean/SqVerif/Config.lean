/-
L6 — model of `simulaqron/toolbox/manage_nodes.py` (`NetworksConfigConstructor`,
`_NetworkConfig`, `_NodeConfig`), of the node-id lookups in
`simulaqron/general/host_config.py` (`get_node_id_from_net_config`,
`get_node_name_from_net_config`, `SocketsConfig.read_config`) and of
`SimulaQronNetworkInfo._get_node_id/_get_node_name` (`sdk/connection.py`).
Core Lean only.

Python dictionaries are insertion-ordered association lists (`aget`/`aset`/
`apop`); a host is the configured host *string* (the code's own notion of
equality: `(hostname, port) in self.used_sockets`); the OS probe
`_check_socket_is_free(port)` (a `bind` on localhost) is an environment oracle
`osFree : Port → Bool` about which nothing is assumed.  Every edit returns the
state *after* the call together with an `Outcome`; an exception leaves the
partially updated object behind exactly as the Python does (`used_sockets`
keeps the sockets reserved before the refusal, `add_network` keeps the nodes
added before the failing one).

The model mirrors the code with the three repairs of branch `fix-c16`
(`remove_node` also edits the topology; `_get_node_name` is the inverse of
`_get_node_id`; an exhausted port range is refused instead of yielding port
`None`).  The behaviour before the repairs is kept in `namespace Unfixed` for
the counterexample theorems.
-/
namespace SqVerif.Config

abbrev Name := String
abbrev Host := String
abbrev Port := Nat
abbrev Sock := Host × Port

/-! ### Python `dict` = insertion-ordered association list -/
section Assoc
variable {κ β : Type} [DecidableEq κ]

/-- `d.get(k)` / `k in d` / `d[k]` (`none` = KeyError) -/
def aget (k : κ) : List (κ × β) → Option β
  | [] => none
  | e :: t => if e.1 = k then some e.2 else aget k t

/-- `d[k] = v`: an existing key keeps its position, a new key goes last -/
def aset (k : κ) (v : β) : List (κ × β) → List (κ × β)
  | [] => [(k, v)]
  | e :: t => if e.1 = k then (k, v) :: t else e :: aset k v t

/-- `d.pop(k, None)` -/
def apop (k : κ) (l : List (κ × β)) : List (κ × β) := l.filter fun e => decide (e.1 ≠ k)

def keys (l : List (κ × β)) : List κ := l.map (·.1)

end Assoc

/-! ### configuration objects -/

/-- `_NodeConfig` (manage_nodes.py:373-386): the three endpoints of a node -/
structure Node where
  app : Sock
  qnodeos : Sock
  vnode : Sock
deriving DecidableEq, Repr

abbrev Topology := List (Name × List Name)

/-- `_NetworkConfig` (manage_nodes.py:297-303) -/
structure Net where
  topology : Option Topology
  nodes : List (Name × Node)
deriving DecidableEq, Repr

/-- `NetworksConfigConstructor` (manage_nodes.py:18-19): `networks`, `used_sockets` -/
structure Cfg where
  networks : List (Name × Net)
  used : List Sock
deriving DecidableEq, Repr

def Cfg.empty : Cfg := ⟨[], []⟩

/-- how a call ended: `ok`, or which exception left it -/
inductive Outcome
  | ok
  | inUse      -- ValueError "socket address ... is already in use" (manage_nodes.py:70-71)
  | noPort     -- ValueError "no unused port between 8000 and 9000 is left" (fix-c16)
  | keyError   -- `topology[node_name]` in add_network (manage_nodes.py:143)
  | loadError  -- read_from_file raised (malformed file)
deriving DecidableEq, Repr

def Node.eps (n : Node) : List Sock := [n.app, n.qnodeos, n.vnode]
def Net.eps (n : Net) : List Sock := n.nodes.flatMap fun e => e.2.eps
/-- all endpoints of all nodes of all networks (3 per node) -/
def netsEps (nets : List (Name × Net)) : List Sock := nets.flatMap fun e => e.2.eps
def Cfg.eps (c : Cfg) : List Sock := netsEps c.networks

/-! ### port selection (manage_nodes.py:250-289) -/

/-- `_check_port_available` -/
def checkPortAvailable (osFree : Port → Bool) (used : List Sock) (s : Sock) : Bool :=
  if s ∈ used then false else osFree s.2

/-- `range(8000, 9001)` -/
def portRange : List Port := List.range' 8000 1001

/-- `_get_unused_port`: first available port of the range, `none` = the implicit `return None` -/
def getUnusedPort (osFree : Port → Bool) (used : List Sock) (h : Host) : Option Port :=
  portRange.find? fun p => checkPortAvailable osFree used (h, p)

/-- `if hostname is None: hostname = "localhost"` -/
def hostOf (h : Option Host) : Host := match h with | none => "localhost" | some h => h

/-- one iteration of the loop in `add_node` (manage_nodes.py:59-72) up to the `append`,
hostname already defaulted -/
def reservePort (osFree : Port → Bool) (used : List Sock) (h : Host) : Option Port → Except Outcome Sock
  | none =>
    match getUnusedPort osFree used h with
    | none => .error .noPort
    | some p => .ok (h, p)
  | some p => if checkPortAvailable osFree used (h, p) then .ok (h, p) else .error .inUse

def reserve1 (osFree : Port → Bool) (used : List Sock) (spec : Option Host × Option Port) :
    Except Outcome Sock :=
  reservePort osFree used (hostOf spec.1) spec.2

/-- the `(hostname, port)` arguments of `add_node`, `none` = not given -/
structure Specs where
  app : Option Host × Option Port
  qnodeos : Option Host × Option Port
  vnode : Option Host × Option Port

def Specs.auto : Specs := ⟨(none, none), (none, none), (none, none)⟩

/-- `network_name = "default" if network_name is None` -/
def netName (n : Option Name) : Name := match n with | none => "default" | some n => n

/-! ### `_NetworkConfig.add_node` (manage_nodes.py:305-358) -/

def fullTopology (names : List Name) : Topology :=
  names.map fun a => (a, names.filter fun b => decide (¬ b = a))

def Net.addNode (n : Net) (name : Name) (node : Node) (neighbors : Option (List Name)) : Net :=
  let topo := match neighbors with
    | none => n.topology
    | some nb =>
      let t0 := match n.topology with
        | none => fullTopology (keys n.nodes)
        | some t => t
      some (aset name nb t0)
  { topology := topo, nodes := aset name node n.nodes }

def Net.new : Net := ⟨none, []⟩

/-- `self.networks[network_name]` if present, else a fresh `_NetworkConfig()` (manage_nodes.py:78-93) -/
def netOrNew : Option Net → Net
  | some n => n
  | none => Net.new

/-! ### the edits of `NetworksConfigConstructor` -/

/-- `add_node` (manage_nodes.py:25-94): the three sockets are reserved one after the other,
each appended to `used_sockets` before the next is looked at; a refusal keeps the
reservations made so far and leaves `networks` untouched. -/
def addNode (osFree : Port → Bool) (c : Cfg) (name : Name) (net : Option Name) (sp : Specs)
    (neighbors : Option (List Name)) : Cfg × Outcome :=
  match reserve1 osFree c.used sp.app with
  | .error e => (c, e)
  | .ok a =>
    match reserve1 osFree (c.used ++ [a]) sp.qnodeos with
    | .error e => ({ c with used := c.used ++ [a] }, e)
    | .ok q =>
      match reserve1 osFree (c.used ++ [a] ++ [q]) sp.vnode with
      | .error e => ({ c with used := c.used ++ [a] ++ [q] }, e)
      | .ok v =>
        let n0 := netOrNew (aget (netName net) c.networks)
        ({ networks := aset (netName net) (n0.addNode name ⟨a, q, v⟩ neighbors) c.networks,
           used := c.used ++ [a] ++ [q] ++ [v] }, .ok)

/-- `remove_node` (manage_nodes.py:96-113, with the fix): node list, own topology entry and
every neighbour list -/
def removeNode (c : Cfg) (name : Name) (net : Option Name) : Cfg :=
  match aget (netName net) c.networks with
  | none => c
  | some n =>
    let n' : Net :=
      { nodes := apop name n.nodes,
        topology := match n.topology with
          | none => none
          | some t => some ((apop name t).map fun e => (e.1, e.2.filter fun b => decide (¬ b = name))) }
    { c with networks := aset (netName net) n' c.networks }

/-- `remove_network` (manage_nodes.py:147-156) -/
def removeNetwork (c : Cfg) (net : Option Name) : Cfg :=
  { c with networks := apop (netName net) c.networks }

/-- the loop of `add_network` (manage_nodes.py:141-146) -/
def addNodesLoop (osFree : Port → Bool) (net : Name) (topology : Option Topology) :
    List Name → Cfg → Cfg × Outcome
  | [], c => (c, .ok)
  | x :: xs, c =>
    let nb? : Option (Option (List Name)) := match topology with
      | none => some none
      | some t => match aget x t with
        | none => none              -- KeyError
        | some l => some (some l)
    match nb? with
    | none => (c, .keyError)
    | some nb =>
      match addNode osFree c x (some net) Specs.auto nb with
      | (c', .ok) => addNodesLoop osFree net topology xs c'
      | (c', e) => (c', e)

/-- `add_network` (manage_nodes.py:126-146) -/
def addNetwork (osFree : Port → Bool) (c : Cfg) (names : List Name) (net : Option Name)
    (topology : Option Topology) : Cfg × Outcome :=
  addNodesLoop osFree (netName net) topology names (removeNetwork c net)

def defaultNames : List Name := ["Alice", "Bob", "Charlie", "David", "Eve"]

/-- `reset` (manage_nodes.py:114-125) -/
def reset (osFree : Port → Bool) (c : Cfg) : Cfg × Outcome :=
  let c1 := (keys c.networks).foldl (fun c k => removeNetwork c (some k)) c
  addNetwork osFree c1 defaultNames none none

/-! ### the file: an abstract JSON value -/

inductive Json
  | null
  | num (n : Nat)
  | str (s : String)
  | arr (l : List Json)
  | obj (kv : List (String × Json))

def sockToJson (s : Sock) : Json := .arr [.str s.1, .num s.2]

/-- `_NodeConfig.to_dict` -/
def Node.toJson (n : Node) : Json :=
  .obj [("app_socket", sockToJson n.app), ("qnodeos_socket", sockToJson n.qnodeos),
        ("vnode_socket", sockToJson n.vnode)]

def topologyToJson : Option Topology → Json
  | none => .null
  | some t => .obj (t.map fun e => (e.1, .arr (e.2.map .str)))

/-- `_NetworkConfig.to_dict` -/
def Net.toJson (n : Net) : Json :=
  .obj [("nodes", .obj (n.nodes.map fun e => (e.1, e.2.toJson))), ("topology", topologyToJson n.topology)]

/-- `NetworksConfigConstructor.to_dict` = what `write_to_file` dumps -/
def toJson (nets : List (Name × Net)) : Json := .obj (nets.map fun e => (e.1, e.2.toJson))

def mapOpt {α β : Type} (f : α → Option β) : List α → Option (List β)
  | [] => some []
  | a :: t =>
    match f a with
    | none => none
    | some b =>
      match mapOpt f t with
      | none => none
      | some bs => some (b :: bs)

/-- `hostname, port = node_dict["..._socket"]`; anything but `[str, int]` is outside the model -/
def sockOfJson : Json → Option Sock
  | .arr [.str h, .num p] => some (h, p)
  | _ => none

def nodeOfJson : Json → Option Node
  | .obj kv =>
    match aget "app_socket" kv, aget "qnodeos_socket" kv, aget "vnode_socket" kv with
    | some a, some q, some v =>
      match sockOfJson a, sockOfJson q, sockOfJson v with
      | some a, some q, some v => some ⟨a, q, v⟩
      | _, _, _ => none
    | _, _, _ => none
  | _ => none

def strOfJson : Json → Option String
  | .str s => some s
  | _ => none

/-- `network.topology = network_dict["topology"]` (taken as it is; `null` or a dict of name lists) -/
def topologyOfJson : Json → Option (Option Topology)
  | .null => some none
  | .obj kv =>
    match mapOpt (fun e : String × Json =>
        match e.2 with
        | .arr l => match mapOpt strOfJson l with
          | some l' => some (e.1, l')
          | none => none
        | _ => none) kv with
    | some t => some (some t)
    | none => none
  | _ => none

/-- `if socket_address not in self.used_sockets: self.used_sockets.append(socket_address)` -/
def addUsed (used : List Sock) (s : Sock) : List Sock := if s ∈ used then used else used ++ [s]

/-- inner loop of `read_from_file` (manage_nodes.py:228-246) -/
def loadNodes : List (String × Json) → List (Name × Node) → List Sock →
    Option (List (Name × Node) × List Sock)
  | [], nodes, used => some (nodes, used)
  | e :: t, nodes, used =>
    match nodeOfJson e.2 with
    | none => none
    | some nd =>
      loadNodes t (aset e.1 nd nodes) (addUsed (addUsed (addUsed used nd.app) nd.qnodeos) nd.vnode)

/-- outer loop of `read_from_file` (manage_nodes.py:222-247) -/
def loadNets : List (String × Json) → Cfg → Option Cfg
  | [], c => some c
  | e :: t, c =>
    match e.2 with
    | .obj kv =>
      match aget "nodes" kv, aget "topology" kv with
      | some (.obj nkv), some tj =>
        match topologyOfJson tj, loadNodes nkv [] c.used with
        | some topo, some (nodes, used) =>
          loadNets t { networks := aset e.1 ⟨topo, nodes⟩ c.networks, used := used }
        | _, _ => none
      | _, _ => none
    | _ => none

/-- `read_from_file` into an existing constructor; `none` = it raised -/
def readFromFile (c : Cfg) : Json → Option Cfg
  | .obj kv => loadNets kv c
  | _ => none

/-- `NetworksConfigConstructor(file_path=f)` on a fresh object -/
def load (j : Json) : Option Cfg := readFromFile Cfg.empty j

/-- `write_to_file(f)` followed by `NetworksConfigConstructor(file_path=f)`: what every CLI
command (`simulaqron nodes add/remove/default`) and `Network.__init__` do between two edits -/
def reload (c : Cfg) : Cfg × Outcome :=
  match load (toJson c.networks) with
  | some c' => (c', .ok)
  | none => (c, .loadError)

/-! ### edit scripts -/

inductive Edit
  | addNode (name : Name) (net : Option Name) (sp : Specs) (neighbors : Option (List Name))
  | removeNode (name : Name) (net : Option Name)
  | addNetwork (names : List Name) (net : Option Name) (topology : Option Topology)
  | removeNetwork (net : Option Name)
  | reset
  | reload

def step (osFree : Port → Bool) (c : Cfg) : Edit → Cfg × Outcome
  | .addNode name net sp nb => addNode osFree c name net sp nb
  | .removeNode name net => (removeNode c name net, .ok)
  | .addNetwork names net topo => addNetwork osFree c names net topo
  | .removeNetwork net => (removeNetwork c net, .ok)
  | .reset => reset osFree c
  | .reload => reload c

/-- a whole history: every edit comes with the state of the OS ports at that moment -/
def run (c : Cfg) : List ((Port → Bool) × Edit) → Cfg
  | [] => c
  | e :: es => run (step e.1 c e.2).1 es

/-! ### node ids (host_config.py:52-69, connection.py:331-345) -/
section Ids
variable {α : Type}

def insertSorted (lt : α → α → Bool) (x : α) : List α → List α
  | [] => [x]
  | y :: ys => if lt x y then x :: y :: ys else y :: insertSorted lt x ys

/-- `sorted(names)` -/
def sort (lt : α → α → Bool) (l : List α) : List α := l.foldr (insertSorted lt) []

/-- `get_node_id_from_net_config`: `none` = ValueError (unknown name) -/
def nodeId [DecidableEq α] (lt : α → α → Bool) (ns : List α) (x : α) : Option Nat :=
  if x ∈ ns then some ((sort lt ns).idxOf x) else none

/-- `get_node_name_from_net_config`: `none` = KeyError (id out of range) -/
def nodeName (lt : α → α → Bool) (ns : List α) (i : Int) : Option α :=
  if i < 0 then none else (sort lt ns)[i.toNat]?

end Ids

inductive Role | app | qnodeos | vnode
deriving DecidableEq, Repr

def Node.sock (n : Node) : Role → Sock
  | .app => n.app
  | .qnodeos => n.qnodeos
  | .vnode => n.vnode

/-- `SocketsConfig.read_config` on a json file (host_config.py:121-131): the participant's
`hostDict` for one role; `none` = KeyError (no such network) -/
def hostDict (c : Cfg) (net : Option Name) (r : Role) : Option (List (Name × Sock)) :=
  match aget (netName net) c.networks with
  | none => none
  | some n => some (n.nodes.map fun e => (e.1, e.2.sock r))

def strLt (a b : String) : Bool := decide (a < b)

/-! ### behaviour before the repairs of branch `fix-c16` (for the counterexamples) -/
namespace Unfixed

/-- `remove_node` as it was: only `nodes.pop(node_name, None)` -/
def removeNode (c : Cfg) (name : Name) (net : Option Name) : Cfg :=
  match aget (netName net) c.networks with
  | none => c
  | some n => { c with networks := aset (netName net) { n with nodes := apop name n.nodes } c.networks }

/-- `_get_node_name` as it was: `for node_name, host in hostDict.items(): if node_id == host.ip`,
`ip` the IPv4 address of the host as a number -/
def nodeName (ip : Host → Nat) (hd : List (Name × Sock)) (i : Int) : Option Name :=
  match hd.find? fun e => decide ((ip e.2.1 : Int) = i) with
  | some e => some e.1
  | none => none

/-- one iteration of the `add_node` loop as it was: an exhausted range yields port `None` -/
def reserve1 (osFree : Port → Bool) (used : List (Host × Option Port)) (h : Host) : Host × Option Port :=
  (h, portRange.find? fun p => if (h, some p) ∈ used then false else osFree p)

end Unfixed

end SqVerif.Config

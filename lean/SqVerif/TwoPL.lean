/-!
# Generic two-phase locking ⇒ serializability (static guards)   — layer L3, serves C03

Core Lean only.  Transactions are interleaved as a schedule of steps `⟨tid, act⟩` with
`act = acq ℓ | rel ℓ | eff fp f` (an atomic effect `f` whose footprint is the resource list `fp`).
Resources are guarded by a static map `guard : Res → Lock`.

Main results
* `twoPL_serializable`   a legal schedule of two-phase, guard-respecting transactions has the same effect as
                         the schedule stably sorted by lock point;
* `sortR_perm`, `sortR_filter_tid`, `sortR_sorted`, `sortR_serial`
                         the sorted schedule is a permutation of the original one that keeps every
                         transaction's own steps in their original relative order (so every client's own order
                         is respected) and — when lock points are distinct — runs each transaction's steps
                         contiguously, i.e. it is a serial execution;
* `rankOf_inj_of_acq`    lock points of two different transactions that both acquire something are distinct;
* `twoPL_serial_equiv`, `twoPL_results`
                         packaging: there is a serial schedule with the same final state, hence the same
                         per-transaction results when a result is modelled as a private resource.
-/
namespace SqVerif.TwoPL

abbrev Tid := Nat
abbrev Lock := Nat
abbrev Res := Nat

variable {V : Type}

abbrev St (V : Type) := Res → V
inductive Act (V : Type) where
  | acq : Lock → Act V
  | rel : Lock → Act V
  | eff : List Res → (St V → St V) → Act V

structure Step (V : Type) where
  tid : Tid
  act : Act V

abbrev Sched (V : Type) := List (Step V)

def Act.run : Act V → St V → St V
  | .eff _ f, s => f s
  | _, s => s

def exec : Sched V → St V → St V
  | [], s => s
  | x :: xs, s => exec xs (x.act.run s)

/-- an effect is local to its footprint -/
def LocalEff (fp : List Res) (f : St V → St V) : Prop :=
  (∀ s r, r ∉ fp → f s r = s r) ∧
  (∀ s s', (∀ r, r ∈ fp → s r = s' r) → ∀ r, r ∈ fp → f s r = f s' r)

def Act.fp : Act V → List Res
  | .eff fp _ => fp
  | _ => []

def Act.WF : Act V → Prop
  | .eff fp f => LocalEff fp f
  | _ => True

def Disjoint (a b : List Res) : Prop := ∀ r, r ∈ a → r ∉ b

theorem run_comm (a b : Act V) (ha : a.WF) (hb : b.WF) (hd : Disjoint a.fp b.fp) (s : St V) :
    b.run (a.run s) = a.run (b.run s) := by
  cases a with
  | acq _ => rfl
  | rel _ => rfl
  | eff fa f =>
    cases b with
    | acq _ => rfl
    | rel _ => rfl
    | eff fb g =>
      simp only [Act.run]
      simp only [Act.fp] at hd
      obtain ⟨hf1, hf2⟩ := ha
      obtain ⟨hg1, hg2⟩ := hb
      funext r
      by_cases hra : r ∈ fa
      · have hrb : r ∉ fb := hd r hra
        rw [hg1 _ _ hrb]
        apply hf2 _ _ _ r hra
        intro r' hr'
        exact (hg1 s r' (hd r' hr')).symm
      · rw [hf1 _ _ hra]
        by_cases hrb : r ∈ fb
        · apply hg2 _ _ _ r hrb
          intro r' hr'
          have : r' ∉ fa := fun h => hd r' h hr'
          exact hf1 s r' this
        · rw [hg1 _ _ hrb, hg1 _ _ hrb, hf1 _ _ hra]

/-! ### sorting by rank preserves exec when inversions commute -/

def Commute (x y : Step V) : Prop := ∀ s, y.act.run (x.act.run s) = x.act.run (y.act.run s)

def insertR (rank : Tid → Nat) (x : Step V) : Sched V → Sched V
  | [] => [x]
  | y :: ys => if rank x.tid ≤ rank y.tid then x :: y :: ys else y :: insertR rank x ys

def sortR (rank : Tid → Nat) : Sched V → Sched V
  | [] => []
  | x :: xs => insertR rank x (sortR rank xs)

/-- every later step with strictly smaller rank commutes with the earlier one -/
def InvC (rank : Tid → Nat) : Sched V → Prop
  | [] => True
  | x :: xs => (∀ y, y ∈ xs → rank y.tid < rank x.tid → Commute x y) ∧ InvC rank xs

theorem mem_insertR (rank : Tid → Nat) (x y : Step V) (l : Sched V) :
    y ∈ insertR rank x l ↔ y = x ∨ y ∈ l := by
  induction l with
  | nil => simp [insertR]
  | cons z zs ih =>
    simp only [insertR]
    split
    · simp
    · simp [ih]; constructor
      · rintro (h | h | h) <;> simp [h]
      · rintro (h | h | h) <;> simp [h]

theorem mem_sortR (rank : Tid → Nat) (y : Step V) (l : Sched V) : y ∈ sortR rank l ↔ y ∈ l := by
  induction l with
  | nil => simp [sortR]
  | cons x xs ih => simp [sortR, mem_insertR, ih]

theorem exec_insertR (rank : Tid → Nat) (x : Step V) (l : Sched V)
    (h : ∀ y, y ∈ l → rank y.tid < rank x.tid → Commute x y) (s : St V) :
    exec (insertR rank x l) s = exec (x :: l) s := by
  induction l generalizing s with
  | nil => rfl
  | cons y ys ih =>
    simp only [insertR]
    split
    · rfl
    · rename_i hlt
      have hc : Commute x y := h y (by simp) (by omega)
      simp only [exec]
      rw [ih (fun z hz => h z (by simp [hz])) ]
      simp only [exec]
      rw [hc s]

theorem exec_sortR (rank : Tid → Nat) (l : Sched V) (h : InvC rank l) (s : St V) :
    exec (sortR rank l) s = exec l s := by
  induction l generalizing s with
  | nil => rfl
  | cons x xs ih =>
    obtain ⟨hx, hxs⟩ := h
    simp only [sortR]
    rw [exec_insertR rank x _ (fun y hy => hx y ((mem_sortR rank y xs).1 hy))]
    simp only [exec]
    exact ih hxs _

abbrev Tbl := Lock → Option Tid
def upd (tbl : Tbl) (l : Lock) (v : Option Tid) : Tbl := fun l' => if l' = l then v else tbl l'

/-- one step of the lock table; `none` = illegal -/
def stepTbl (guard : Res → Lock) (tbl : Tbl) (x : Step V) : Option Tbl :=
  match x.act with
  | .acq l => if tbl l = none then some (upd tbl l (some x.tid)) else none
  | .rel l => if tbl l = some x.tid then some (upd tbl l none) else none
  | .eff fp _ => if fp.all (fun r => tbl (guard r) == some x.tid) then some tbl else none

def Legal (guard : Res → Lock) : Tbl → Sched V → Prop
  | _, [] => True
  | tbl, x :: xs => ∃ tbl', stepTbl guard tbl x = some tbl' ∧ Legal guard tbl' xs

def isAcqBy (t : Tid) (x : Step V) : Bool := match x.act with | .acq _ => x.tid == t | _ => false
def isRelBy (t : Tid) (x : Step V) : Bool := match x.act with | .rel _ => x.tid == t | _ => false

/-- lock point of `t`: 1 + index of its last acquire (0 if none), list starting at offset `i` -/
def lp (t : Tid) : Nat → Sched V → Nat
  | _, [] => 0
  | i, x :: xs => if isAcqBy t x then max (i+1) (lp t (i+1) xs) else lp t (i+1) xs

/-- no acquire of `t` after a release of `t` -/
def TwoPhase (t : Tid) (s : Sched V) : Prop :=
  ∀ pre mid post r a, s = pre ++ r :: mid ++ a :: post → isRelBy t r = true → isAcqBy t a = false

theorem lp_append (t : Tid) (i : Nat) (l1 l2 : Sched V) :
    lp t i (l1 ++ l2) = max (lp t i l1) (lp t (i + l1.length) l2) := by
  induction l1 generalizing i with
  | nil => simp [lp]
  | cons x xs ih =>
    simp only [List.cons_append, lp, List.length_cons]
    rw [ih (i+1)]
    have : i + 1 + xs.length = i + (xs.length + 1) := by omega
    rw [this]
    split <;> omega

theorem lp_le (t : Tid) (i : Nat) (l : Sched V) : lp t i l ≤ i + l.length := by
  induction l generalizing i with
  | nil => simp [lp]
  | cons x xs ih =>
    simp only [lp, List.length_cons]
    have := ih (i+1)
    split <;> omega

theorem lp_noacq (t : Tid) (i : Nat) (l : Sched V) (h : ∀ x, x ∈ l → isAcqBy t x = false) : lp t i l = 0 := by
  induction l generalizing i with
  | nil => rfl
  | cons x xs ih =>
    simp only [lp]
    rw [h x (by simp)]
    simp
    exact ih (i+1) (fun y hy => h y (by simp [hy]))

theorem lp_ge (t : Tid) (i : Nat) (x : Step V) (l : Sched V) (h : isAcqBy t x = true) : i + 1 ≤ lp t i (x :: l) := by
  simp only [lp, h]; simp; omega

/-- hand-off: if `t1` holds `l` and later a step of `t2 ≠ t1` is legal that needs `l`,
    then in between `t1` releases `l` and afterwards `t2` acquires it -/
theorem handoff (guard : Res → Lock) (l : Lock) (t1 t2 : Tid) (hne : t1 ≠ t2)
    (a : Sched V) (y : Step V) (b : Sched V) (tbl : Tbl)
    (hheld : tbl l = some t1)
    (hleg : Legal guard tbl (a ++ y :: b))
    (hy : ∀ tbl', stepTbl guard tbl' y ≠ none → tbl' l = some t2) :
    ∃ a1 r a2 c a3, a = a1 ++ r :: a2 ++ c :: a3 ∧ isRelBy t1 r = true ∧ isAcqBy t2 c = true := by
  -- generalised: either still held by t1, or free-after-release, tracked by induction on `a`
  suffices H : ∀ (a : Sched V) (tbl : Tbl), Legal guard tbl (a ++ y :: b) →
      (tbl l = some t1 → ∃ a1 r a2 c a3, a = a1 ++ r :: a2 ++ c :: a3 ∧ isRelBy t1 r = true ∧ isAcqBy t2 c = true) ∧
      (tbl l ≠ some t2 → ∃ a2 c a3, a = a2 ++ c :: a3 ∧ isAcqBy t2 c = true) from (H a tbl hleg).1 hheld
  intro a
  induction a with
  | nil =>
    intro tbl hleg
    obtain ⟨tbl', hs, _⟩ := hleg
    have := hy tbl (by rw [hs]; simp)
    constructor
    · intro h; rw [h] at this; simp at this; exact absurd this hne
    · intro h; exact absurd this h
  | cons x xs ih =>
    intro tbl hleg
    obtain ⟨tbl', hs, hrest⟩ := hleg
    have IH := ih tbl' hrest
    -- what did x do to lock l ?
    constructor
    · intro hh
      by_cases hrel : isRelBy t1 x = true
      · -- x releases something as t1; whatever it is, afterwards look for acq by t2
        by_cases h2 : tbl' l = some t2
        · -- impossible: a release step cannot make t2 the holder
          exfalso
          unfold isRelBy at hrel
          unfold stepTbl at hs
          split at hrel
          · rename_i l' hact
            rw [hact] at hs
            simp only at hs
            split at hs
            · simp at hs; subst hs
              unfold upd at h2
              split at h2
              · simp at h2
              · rw [hh] at h2; simp at h2; exact hne h2
            · simp at hs
          · simp at hrel
        · obtain ⟨a2, c, a3, he, hc⟩ := IH.2 h2
          exact ⟨[], x, a2, c, a3, by simp [he], hrel, hc⟩
      · -- x is not a release by t1, so t1 still holds l afterwards
        have hstill : tbl' l = some t1 := by
          unfold stepTbl at hs
          split at hs
          · rename_i l' hact
            split at hs
            · rename_i hfree
              simp at hs; subst hs
              unfold upd
              split
              · rename_i heq; subst heq; rw [hh] at hfree; simp at hfree
              · exact hh
            · simp at hs
          · rename_i l' hact
            split at hs
            · rename_i hown
              simp at hs; subst hs
              unfold upd
              split
              · rename_i heq; subst heq
                rw [hh] at hown; simp at hown
                exfalso; apply hrel
                unfold isRelBy; rw [hact]; simp [hown]
              · exact hh
            · simp at hs
          · split at hs
            · simp at hs; subst hs; exact hh
            · simp at hs
        obtain ⟨a1, r, a2, c, a3, he, hr, hc⟩ := IH.1 hstill
        exact ⟨x :: a1, r, a2, c, a3, by simp [he], hr, hc⟩
    · intro hn2
      by_cases hacq : isAcqBy t2 x = true
      · exact ⟨[], x, xs, by simp, hacq⟩
      · have hn2' : tbl' l ≠ some t2 := by
          unfold stepTbl at hs
          split at hs
          · rename_i l' hact
            split at hs
            · simp at hs; subst hs
              unfold upd
              split
              · rename_i heq; subst heq
                intro h; simp at h
                apply hacq; unfold isAcqBy; rw [hact]; simp [h]
              · exact hn2
            · simp at hs
          · rename_i l' hact
            split at hs
            · simp at hs; subst hs
              unfold upd
              split
              · simp
              · exact hn2
            · simp at hs
          · split at hs
            · simp at hs; subst hs; exact hn2
            · simp at hs
        obtain ⟨a2, c, a3, he, hc⟩ := IH.2 hn2'
        exact ⟨x :: a2, c, a3, by simp [he], hc⟩

def rankOf (s : Sched V) (t : Tid) : Nat := lp t 0 s

def AllWF (s : Sched V) : Prop := ∀ x, x ∈ s → x.act.WF
def AllTwoPhase (s : Sched V) : Prop := ∀ t, TwoPhase t s

theorem commute_of_lock (x y : Step V) (h : (∃ l, x.act = .acq l) ∨ (∃ l, x.act = .rel l) ∨ (∃ l, y.act = .acq l) ∨ (∃ l, y.act = .rel l)) :
    Commute x y := by
  intro s
  rcases h with ⟨l, h⟩ | ⟨l, h⟩ | ⟨l, h⟩ | ⟨l, h⟩ <;> simp [h, Act.run]

/-- main positional lemma: in a legal, two-phase schedule `pre ++ x :: a ++ y :: b`, if `y`'s transaction has a
    strictly smaller lock point than `x`'s, then `x` and `y` commute. -/
theorem inversion_commutes (guard : Res → Lock) (s pre a b : Sched V) (x y : Step V) (tbl : Tbl)
    (hs : s = pre ++ x :: a ++ y :: b)
    (hwf : AllWF s) (h2p : AllTwoPhase s)
    (hleg : Legal guard tbl (x :: a ++ y :: b))
    (hrank : rankOf s y.tid < rankOf s x.tid) : Commute x y := by
  -- case split on the kinds of actions
  cases hx : x.act with
  | acq l => exact commute_of_lock x y (Or.inl ⟨l, hx⟩)
  | rel l => exact commute_of_lock x y (Or.inr (Or.inl ⟨l, hx⟩))
  | eff fx f =>
    cases hy : y.act with
    | acq l => exact commute_of_lock x y (Or.inr (Or.inr (Or.inl ⟨l, hy⟩)))
    | rel l => exact commute_of_lock x y (Or.inr (Or.inr (Or.inr ⟨l, hy⟩)))
    | eff fy g =>
      -- either disjoint footprints, or a shared resource forces the rank order
      by_cases hd : Disjoint x.act.fp y.act.fp
      · intro st
        exact run_comm x.act y.act (hwf x (by simp [hs])) (hwf y (by simp [hs])) hd st
      · exfalso
        -- shared resource r
        have : ∃ r, r ∈ fx ∧ r ∈ fy := by
          simp only [Disjoint, hx, hy, Act.fp] at hd
          apply Classical.byContradiction
          intro hno
          apply hd
          intro r hr hr'
          exact hno ⟨r, hr, hr'⟩
        obtain ⟨r, hrx, hry⟩ := this
        have hne : x.tid ≠ y.tid := by
          intro h; rw [h] at hrank; exact Nat.lt_irrefl _ hrank
        -- x is legal at tbl and holds guard r
        obtain ⟨tbl', hsx, hrest⟩ := hleg
        have hheld : tbl (guard r) = some x.tid := by
          unfold stepTbl at hsx; rw [hx] at hsx; simp only at hsx
          split at hsx
          · rename_i hall
            have := (List.all_eq_true.1 hall) r hrx
            simpa using this
          · simp at hsx
        have htbl' : tbl' = tbl := by
          unfold stepTbl at hsx; rw [hx] at hsx; simp only at hsx
          split at hsx
          · simp at hsx; exact hsx.symm
          · simp at hsx
        subst htbl'
        have hyneeds : ∀ tb, stepTbl guard tb y ≠ none → tb (guard r) = some y.tid := by
          intro tb hn
          unfold stepTbl at hn; rw [hy] at hn; simp only at hn
          split at hn
          · rename_i hall
            have := (List.all_eq_true.1 hall) r hry
            simpa using this
          · simp at hn
        obtain ⟨a1, rl, a2, c, a3, ha, hrl, hc⟩ :=
          handoff guard (guard r) x.tid y.tid hne a y b tbl' hheld hrest hyneeds
        -- lock point of x.tid ≤ |pre| + 1 + |a1| ; lock point of y.tid ≥ that + 2
        have hs1 : s = (pre ++ x :: a1) ++ (rl :: (a2 ++ c :: a3 ++ y :: b)) := by
          rw [hs, ha]; simp
        have hnoacq : ∀ z, z ∈ (rl :: (a2 ++ c :: a3 ++ y :: b)) → isAcqBy x.tid z = false := by
          intro z hz
          rcases List.mem_cons.1 hz with h | h
          · subst h
            unfold isRelBy at hrl; unfold isAcqBy
            split at hrl <;> simp_all
          · obtain ⟨m1, m2, hm⟩ := List.append_of_mem h
            exact h2p x.tid (pre ++ x :: a1) m1 m2 rl z (by rw [hs1, hm]; simp) hrl
        have hx_le : rankOf s x.tid ≤ pre.length + 1 + a1.length := by
          unfold rankOf
          rw [hs1, lp_append, lp_noacq _ _ _ hnoacq]
          have := lp_le x.tid 0 (pre ++ x :: a1)
          simp at this ⊢; omega
        have hs2 : s = (pre ++ x :: a1 ++ rl :: a2) ++ (c :: (a3 ++ y :: b)) := by
          rw [hs, ha]; simp
        have hy_ge : pre.length + 1 + a1.length + 1 + a2.length + 1 ≤ rankOf s y.tid := by
          unfold rankOf
          rw [hs2, lp_append]
          have := lp_ge y.tid (0 + (pre ++ x :: a1 ++ rl :: a2).length) c (a3 ++ y :: b) hc
          simp at this ⊢; omega
        omega

/-- InvC for every suffix of a legal two-phase schedule -/
theorem invC_of_2pl (guard : Res → Lock) (s : Sched V) (hwf : AllWF s) (h2p : AllTwoPhase s) :
    ∀ (pre suf : Sched V) (tbl : Tbl), s = pre ++ suf → Legal guard tbl suf → InvC (rankOf s) suf := by
  intro pre suf
  induction suf generalizing pre with
  | nil => intros; trivial
  | cons x xs ih =>
    intro tbl hs hleg
    constructor
    · intro y hy hr
      obtain ⟨a, b, hab⟩ := List.append_of_mem hy
      subst hab
      exact inversion_commutes guard s pre a b x y tbl (by rw [hs]; simp) hwf h2p (by simpa using hleg) hr
    · obtain ⟨tbl', _, hrest⟩ := hleg
      exact ih (pre ++ [x]) tbl' (by rw [hs]; simp) hrest

/-- **2PL ⇒ serializable**: a legal schedule of two-phase, guard-respecting transactions has the same effect as
    the schedule stably sorted by lock point (which runs every transaction's steps contiguously when lock points
    are distinct). -/
theorem twoPL_serializable (guard : Res → Lock) (s : Sched V) (tbl : Tbl)
    (hwf : AllWF s) (h2p : AllTwoPhase s) (hleg : Legal guard tbl s) (st : St V) :
    exec (sortR (rankOf s) s) st = exec s st :=
  exec_sortR (rankOf s) s (invC_of_2pl guard s hwf h2p [] s tbl rfl hleg) st


/-! ### The sorted schedule is a serial execution respecting every client's own order -/

theorem insertR_perm (rank : Tid → Nat) (x : Step V) (l : Sched V) : (insertR rank x l).Perm (x :: l) := by
  induction l with
  | nil => exact List.Perm.refl _
  | cons y ys ih =>
    simp only [insertR]
    split
    · exact List.Perm.refl _
    · exact (List.Perm.cons y ih).trans (List.Perm.swap x y ys)

/-- the sorted schedule consists of exactly the same steps -/
theorem sortR_perm (rank : Tid → Nat) (l : Sched V) : (sortR rank l).Perm l := by
  induction l with
  | nil => exact List.Perm.refl _
  | cons x xs ih => exact (insertR_perm rank x _).trans (List.Perm.cons x ih)

/-- the steps of transaction `t`, in schedule order -/
def proj (t : Tid) (l : Sched V) : Sched V := l.filter (fun z => z.tid == t)

theorem insertR_proj (rank : Tid → Nat) (t : Tid) (x : Step V) (l : Sched V) :
    proj t (insertR rank x l) = proj t (x :: l) := by
  induction l with
  | nil => rfl
  | cons y ys ih =>
    simp only [insertR]
    split
    · rfl
    · rename_i hlt
      unfold proj at ih ⊢
      by_cases hy : (y.tid == t) = true
      · have hx : (x.tid == t) = false := by
          cases hxt : (x.tid == t) with
          | false => rfl
          | true =>
            exfalso; apply hlt
            have h1 : x.tid = t := by simpa using hxt
            have h2 : y.tid = t := by simpa using hy
            rw [h1, h2]; exact Nat.le_refl _
        simp only [List.filter_cons, hy, hx, if_true] at ih ⊢
        simp [ih]
      · have hy' : (y.tid == t) = false := by simpa using hy
        simp only [List.filter_cons, hy'] at ih ⊢
        simpa using ih

/-- **stability**: sorting keeps every transaction's own steps in their original relative order, so the serial
    schedule respects each client's own order -/
theorem sortR_filter_tid (rank : Tid → Nat) (t : Tid) (l : Sched V) : proj t (sortR rank l) = proj t l := by
  induction l with
  | nil => rfl
  | cons x xs ih =>
    simp only [sortR]
    rw [insertR_proj]
    unfold proj at ih ⊢
    simp only [List.filter_cons, ih]

/-- sorted by rank -/
def Sorted (rank : Tid → Nat) (l : Sched V) : Prop := l.Pairwise (fun a b => rank a.tid ≤ rank b.tid)

theorem insertR_sorted (rank : Tid → Nat) (x : Step V) (l : Sched V) (h : Sorted rank l) :
    Sorted rank (insertR rank x l) := by
  induction l with
  | nil => simp [insertR, Sorted]
  | cons y ys ih =>
    unfold Sorted at h ih ⊢
    simp only [insertR]
    obtain ⟨hy, hys⟩ := List.pairwise_cons.1 h
    split
    · rename_i hle
      refine List.pairwise_cons.2 ⟨?_, h⟩
      intro z hz
      rcases List.mem_cons.1 hz with rfl | hz
      · exact hle
      · exact Nat.le_trans hle (hy z hz)
    · rename_i hlt
      refine List.pairwise_cons.2 ⟨?_, ih hys⟩
      intro z hz
      rcases (mem_insertR rank x z ys).1 hz with rfl | hz
      · omega
      · exact hy z hz

theorem sortR_sorted (rank : Tid → Nat) (l : Sched V) : Sorted rank (sortR rank l) := by
  induction l with
  | nil => simp [sortR, Sorted]
  | cons x xs ih => exact insertR_sorted rank x _ ih

/-- a schedule is *serial*: between two steps of the same transaction there are only steps of that transaction -/
def Serial (l : Sched V) : Prop :=
  ∀ pre x mid y post, l = pre ++ x :: mid ++ y :: post → x.tid = y.tid → ∀ z, z ∈ mid → z.tid = x.tid

/-- a rank-sorted schedule whose ranks separate the transactions occurring in it is serial -/
theorem serial_of_sorted (rank : Tid → Nat) (l : Sched V) (hs : Sorted rank l)
    (hinj : ∀ x y, x ∈ l → y ∈ l → rank x.tid = rank y.tid → x.tid = y.tid) : Serial l := by
  intro pre x mid y post hl hxy z hz
  subst hl
  unfold Sorted at hs
  have h1 : (x :: mid ++ y :: post).Pairwise (fun a b => rank a.tid ≤ rank b.tid) := by
    have := (List.pairwise_append.1 (by simpa using hs)).2.1
    simpa using this
  obtain ⟨hx, hrest⟩ := List.pairwise_cons.1 h1
  have hxz : rank x.tid ≤ rank z.tid := hx z (by simp [hz])
  have hzy : rank z.tid ≤ rank y.tid := by
    have := (List.pairwise_append.1 hrest).2.2 z hz y (by simp)
    exact this
  have : rank z.tid = rank x.tid := by rw [hxy] at hxz ⊢; omega
  exact hinj z x (by simp [hz]) (by simp) this

theorem sortR_serial (rank : Tid → Nat) (l : Sched V)
    (hinj : ∀ x y, x ∈ l → y ∈ l → rank x.tid = rank y.tid → x.tid = y.tid) : Serial (sortR rank l) :=
  serial_of_sorted rank _ (sortR_sorted rank l)
    (fun x y hx hy => hinj x y ((mem_sortR rank x l).1 hx) ((mem_sortR rank y l).1 hy))

/-! ### Lock points of different locking transactions are distinct -/

theorem lp_spec (t : Tid) (i : Nat) (l : Sched V) :
    lp t i l = 0 ∨ ∃ pre x post, l = pre ++ x :: post ∧ isAcqBy t x = true ∧ lp t i l = i + pre.length + 1 := by
  induction l generalizing i with
  | nil => left; rfl
  | cons y ys ih =>
    simp only [lp]
    rcases ih (i+1) with h0 | ⟨pre, x, post, hl, hx, hlp⟩
    · split
      · rename_i hy
        right; refine ⟨[], y, ys, rfl, hy, ?_⟩
        rw [h0]; simp
      · left; exact h0
    · right
      have hge : i + 1 + 1 ≤ lp t (i+1) ys := by omega
      refine ⟨y :: pre, x, post, by simp [hl], hx, ?_⟩
      split
      · simp only [List.length_cons]; omega
      · simp only [List.length_cons]; omega

theorem isAcqBy_tid (t : Tid) (x : Step V) (h : isAcqBy t x = true) : x.tid = t := by
  unfold isAcqBy at h
  split at h
  · simpa using h
  · simp at h

/-- two transactions with the same non-zero lock point are the same transaction: the lock point is the
    position of a step, and a step belongs to one transaction -/
theorem rankOf_inj_of_acq (s : Sched V) (t1 t2 : Tid) (h1 : rankOf s t1 ≠ 0)
    (h : rankOf s t1 = rankOf s t2) : t1 = t2 := by
  unfold rankOf at *
  rcases lp_spec t1 0 s with h0 | ⟨p1, x1, q1, hs1, hx1, hl1⟩
  · exact absurd h0 h1
  rcases lp_spec t2 0 s with h0 | ⟨p2, x2, q2, hs2, hx2, hl2⟩
  · rw [h0] at h; exact absurd h h1
  have hlen : p1.length = p2.length := by omega
  have heq : p1 ++ x1 :: q1 = p2 ++ x2 :: q2 := by rw [← hs1, ← hs2]
  have := List.append_inj heq hlen
  have hx : x1 = x2 := by have := this.2; simp at this; exact this.1
  subst hx
  exact (isAcqBy_tid t1 x1 hx1).symm.trans (isAcqBy_tid t2 x1 hx2)

/-- every transaction occurring in `s` takes at least one lock -/
def AllLock (s : Sched V) : Prop := ∀ x, x ∈ s → rankOf s x.tid ≠ 0

/-- **2PL ⇒ a serial execution with the same final state**: for a legal schedule of well-formed, two-phase,
    guard-respecting transactions that all lock something there is a schedule `s'` which (1) consists of the
    same steps, (2) keeps every transaction's own steps in their original order, (3) is serial and (4) yields
    the same final state from every initial state. -/
theorem twoPL_serial_equiv (guard : Res → Lock) (s : Sched V) (tbl : Tbl)
    (hwf : AllWF s) (h2p : AllTwoPhase s) (hleg : Legal guard tbl s) (hlock : AllLock s) :
    ∃ s' : Sched V, s'.Perm s ∧ (∀ t, proj t s' = proj t s) ∧ Serial s' ∧ ∀ st, exec s' st = exec s st :=
  ⟨sortR (rankOf s) s, sortR_perm _ s, fun t => sortR_filter_tid _ t s,
   sortR_serial _ s (fun x y hx _ h => rankOf_inj_of_acq s x.tid y.tid (hlock x hx) h),
   fun st => twoPL_serializable guard s tbl hwf h2p hleg st⟩

/-- **per-transaction results.**  A transaction's result is modelled as a private resource `res t` (written only
    by `t`'s own effects, under a lock only `t` takes): equality of the final states gives equality of every
    result, and of every other resource. -/
theorem twoPL_results (guard : Res → Lock) (s : Sched V) (tbl : Tbl)
    (hwf : AllWF s) (h2p : AllTwoPhase s) (hleg : Legal guard tbl s) (st : St V) (res : Tid → Res) (t : Tid) :
    exec (sortR (rankOf s) s) st (res t) = exec s st (res t) := by
  rw [twoPL_serializable guard s tbl hwf h2p hleg st]

/-- a transaction that never locks can only carry effects with an empty footprint, which are the identity -/
theorem eff_identity_of_empty_fp (f : St V → St V) (h : LocalEff [] f) : f = id := by
  funext s; funext r; exact h.1 s r (by simp)

/-! ### Executable checkers for the hypotheses (used for concrete instances) -/

/-- executable two-phase test for transaction `t`; `released`: a release of `t` has been seen -/
def twoPhaseB (t : Tid) : Bool → Sched V → Bool
  | _, [] => true
  | released, x :: xs =>
    if isAcqBy t x && released then false else twoPhaseB t (released || isRelBy t x) xs

theorem twoPhaseB_spec (t : Tid) (s : Sched V) : ∀ released, twoPhaseB t released s = true →
    (released = true → ∀ x, x ∈ s → isAcqBy t x = false) ∧ TwoPhase t s := by
  induction s with
  | nil =>
    intro released _
    constructor
    · intro _ x hx; cases hx
    · intro pre mid post r a h
      cases pre <;> simp at h
  | cons y ys ih =>
    intro released h
    simp only [twoPhaseB] at h
    split at h
    · cases h
    · rename_i hnot
      obtain ⟨h1, h2⟩ := ih _ h
      constructor
      · intro hr x hx
        rcases List.mem_cons.1 hx with rfl | hx
        · cases hacq : isAcqBy t x with
          | false => rfl
          | true => exfalso; apply hnot; simp [hacq, hr]
        · exact h1 (by simp [hr]) x hx
      · intro pre mid post r a hs hrel
        cases pre with
        | nil =>
          simp only [List.nil_append, List.cons_append, List.cons.injEq] at hs
          obtain ⟨rfl, rfl⟩ := hs
          exact h1 (by simp [hrel]) a (by simp)
        | cons z pre' =>
          simp only [List.cons_append, List.cons.injEq] at hs
          obtain ⟨_, rfl⟩ := hs
          exact h2 pre' mid post r a (by simp) hrel

theorem twoPhase_of_absent (t : Tid) (s : Sched V) (h : ∀ x, x ∈ s → x.tid ≠ t) : TwoPhase t s := by
  intro pre mid post r a hs hrel
  exfalso
  have hr : r ∈ s := by rw [hs]; simp
  apply h r hr
  unfold isRelBy at hrel
  split at hrel
  · simpa using hrel
  · cases hrel

def allTwoPhaseB (s : Sched V) : Bool := s.all (fun x => twoPhaseB x.tid false s)

theorem allTwoPhaseB_sound (s : Sched V) (h : allTwoPhaseB s = true) : AllTwoPhase s := by
  intro t
  by_cases ht : ∃ x, x ∈ s ∧ x.tid = t
  · obtain ⟨x, hx, rfl⟩ := ht
    exact (twoPhaseB_spec x.tid s false ((List.all_eq_true.1 h) x hx)).2
  · exact twoPhase_of_absent t s (fun x hx hxt => ht ⟨x, hx, hxt⟩)

def legalB (guard : Res → Lock) : Tbl → Sched V → Bool
  | _, [] => true
  | tbl, x :: xs =>
    match stepTbl guard tbl x with
    | some tbl' => legalB guard tbl' xs
    | none => false

theorem legalB_sound (guard : Res → Lock) (s : Sched V) : ∀ tbl, legalB guard tbl s = true → Legal guard tbl s := by
  induction s with
  | nil => intro _ _; trivial
  | cons x xs ih =>
    intro tbl h
    simp only [legalB] at h
    cases hs : stepTbl guard tbl x with
    | none => rw [hs] at h; cases h
    | some tbl' =>
      rw [hs] at h
      exact ⟨tbl', hs, ih tbl' h⟩

/-- a local effect built from its footprint: `g` sees only the values on `fp` (others replaced by `dflt`) and
    its result is used only on `fp` -/
def mkEff (dflt : V) (fp : List Res) (g : St V → St V) : St V → St V :=
  fun s r => if r ∈ fp then g (fun r' => if r' ∈ fp then s r' else dflt) r else s r

theorem mkEff_local (dflt : V) (fp : List Res) (g : St V → St V) : LocalEff fp (mkEff dflt fp g) := by
  constructor
  · intro s r hr; simp [mkEff, hr]
  · intro s s' hagree r hr
    simp only [mkEff, hr, if_true]
    have : (fun r' => if r' ∈ fp then s r' else dflt) = (fun r' => if r' ∈ fp then s' r' else dflt) := by
      funext r'
      by_cases h : r' ∈ fp
      · simp [h, hagree r' h]
      · simp [h]
    rw [this]

end SqVerif.TwoPL

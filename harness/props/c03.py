"""C03 -- concurrent operations from different nodes are serializable.

Tie (b) of DESIGN section 4 / C03 and the oracle, on the REAL code: see
harness/schedcase.py.  The Lean side (generic 2PL theorem, lock/effect
skeletons regenerated from the source by harness/gen/skel.py, `decide`d
obligations) is checked by the build + audit steps of harness/check.py."""
from .. import core
from .. import schedcase
from .. import skeltrace

LEAN_TARGETS = ["SqVerif.Props.C03", "SqVerif.Props.C03Bridge", "SqVerif.Props.C03Dyn"]
PROPS_FILE = ["SqVerif/Props/C03Skel.lean", "SqVerif/Props/C03Bridge.lean", "SqVerif/Props/C03Dyn.lean"]
DRIVE_TARGETS = ["SqVerif.Drive.VNet", "SqVerif.Drive.Skel"]
TRUSTED = [
    "harness/simnet.py: fake reactor + Perspective Broker over in-memory pipes, one schedulable event per PB message, "
    "per-connection FIFO, fake clock",
    "harness/schedcase.py: attribution of messages/timers to operations, schedule policies, snapshot canonicalisation, "
    "GF(2) canonical form of the joint stabilizer state, well-formedness predicate",
    "serial reference = the real code run sequentially (fresh network per order); the Lean model is not consulted by the oracle",
    "AST translator harness/gen/skel.py (skeletons of virtual.py / quantum.py for the decide'd obligations): validated "
    "dynamically by trace acceptance (harness/skeltrace.py + Skel.accepts, soundness theorems in Props/C04Skel.lean) on lock "
    "operations, container mutations and node-method calls of every recorded activation",
    "harness/skeltrace.py: attribution of events to activations, mapping of concrete objects to role sets",
]
ASSUMPTIONS = [
    "stabilizer backend, three nodes, at most two client connections per node, 2 concurrent operations exhaustively at the "
    "stated delay bound and 3-4 sampled: exploration is a search, not a proof, for the excluded class Excl of T03.3",
    "measurement coins are scripted per logical qubit (k-th random outcome of qubit q), identically in the concurrent run "
    "and in every serial reference",
    "PB delivers in order per directed connection; messages may be delayed arbitrarily relative to timers",
]


def gen(ctx):
    try:
        from ..gen import skel
    except ImportError:
        return {"obligations": 0, "note": "harness.gen.skel not available"}
    return skel.generate(core.REPO, core.LEAN_DIR)


def run(ctx):
    res = schedcase.check(ctx, "C03")
    skeltrace.tie(ctx, res, "C03")
    return res


def search(ctx, res, broken):
    schedcase.search(ctx, "C03", res, broken)

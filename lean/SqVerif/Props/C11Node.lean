import SqVerif.NqVNetLemmasRun
import SqVerif.NqVNetLemmasRegs
import SqVerif.NqVNetLemmasX
import SqVerif.Props.C11
import SqVerif.Props.C02X
/-
C11 (node side) — the abstract node of the NetQASM interpreter model is a SOUND ABSTRACTION
of one node of the virtual-node model, driven the way the executioner drives it.

C11's report: "The node is abstract in the model: tokens, capacity and the receive queue only.
The sim / numRegs part of C11 is judged by the oracle alone; it is C02's invariant."  This file
connects the two layers in Lean.

`NqVNet.absNode s i : NqExec.Node` reads node `i` of a network state `s : VNet.Net`: the tokens
its held handles denote (`tokOf`), `cap := maxQubits`, `next := nextTok` (`absNodeX` adds the
receive queues of `VNetX`).

One step (exact commutation, `WF s` = C02's invariant):
  (a) `new_commutes`, `new_agrees_iff`, `new_regLimit_disagrees`, `regLimit_never_of_budget`
  (b) `gate1_commutes`, `gate2_commutes`, `measure_inplace_commutes`, `reset_commutes`,
      `driven_op_lands`, `token_trace_agrees`
  (c) `free_commutes`
  (d) `send_half_commutes`, `recv_half_commutes`                       (VNetX)
Histories:
  (e) `registers_determined`, `released_node_is_empty`, `history_coupled`
  (f) `stop_restores_node_partial`, `stop_restores_node_counterexample`

What is NOT here: the driver carries out successful operations and arrivals; a `new` / hand-over
that the interpreter's node refuses is not replayed on the network (it leaves the network unchanged:
`new_commutes`, `C02.failed_unchanged`).  All hand-overs of a history go to one peer `p` (`TOp.send`
does not name the peer).  The receive queue is related per step (d), not along histories: the
history-level coupling is on tokens, handles and the limit.

Along a history the relation is `absNode` up to a renaming of tokens: NqExec's fresh-token
counter is per node, `Net.nextTok` is global, and other nodes create qubits in between.  The
joint machine `NqVNet.joint i p` runs the concrete backend `CQ` of C09/C11 and carries the network
along: every operation `CQ` issues to its node is carried out by `VNet.step` on the handle
the renaming `Drv.hm` gives for its token, other nodes act in between (`Drv.sched`), and the three
ways in which the two sides can disagree are RECORDED in `Drv.disc`, not assumed away:
register limit at `new` (a), register limit at a both-remote two-qubit gate (b), the peer's
answer to a hand-over given by `Env.sends` differing from the network's (d).
-/
namespace SqVerif.C11

open SqVerif.NqExec (CQ St Env Msg Inv InvL runMsgs runMsg concrete TOp QReq mapSt)
open SqVerif.NqVNet
open SqVerif.VNet (WF Net Op Res Err step heldAt held tokOf allToks allHeld run)

variable {F : List Nat} {ext : Nat}

/-! ### the abstraction -/

/-- the abstract node holds exactly as many tokens as the node holds qubits, and has its limit -/
theorem absNode_counts {s : Net} (hwf : WF s) (i : Nat) (nd : VNet.Node) (hn : s.nodes[i]? = some nd) :
    (absNode s i).held.length = held s i ∧ (absNode s i).held.length = nd.virt.length ∧
    (absNode s i).cap = nd.maxQubits ∧ (absNode s i).held.length ≤ (absNode s i).cap := by
  have h1 : (absNode s i).held.length = held s i := toksAt_length hwf i
  have h2 : held s i = nd.virt.length := by simp [held, heldAt, hn]
  have h3 : (absNode s i).cap = nd.maxQubits := by simp [absNode, capAt, hn]
  refine ⟨h1, by rw [h1, h2], h3, ?_⟩
  rw [h1, h2, h3]; exact (hwf.nodes i nd hn).cap

example : absNode C02.exState 0 = ⟨3, [0, 1], 3, []⟩ ∧ absNode C02.exState 1 = ⟨3, [2], 3, []⟩ := by decide

/-! ### (a) new -/

/-- (a) `cmd_new` = `new_qubit`.  The abstract `new` is refused iff the concrete one is refused with
noQubitError.  When the abstract `new` succeeds, the concrete one succeeds iff node `i` has a free register
slot (`numRegs < maxRegs`), and is refused with quantumError iff it has none — that is the ONE hypothesis
under which the two agree.  A concrete success commutes with the abstraction exactly: same fresh token,
appended last, counter advanced; every refusal leaves the state unchanged. -/
theorem new_commutes {s : Net} (hwf : WF s) {i : Nat} {nd : VNet.Node} (hn : s.nodes[i]? = some nd) :
    ((absNode s i).new = none ↔ (step s (.new i)).2.1 = .err .noQubit) ∧
    (∀ hid, (step s (.new i)).2.1 = .handle hid →
      (absNode s i).new = some (absNode (step s (.new i)).1 i, s.nextTok) ∧
      tokOf (step s (.new i)).1 hid = some s.nextTok ∧ hid ∈ heldAt (step s (.new i)).1 i) ∧
    ((absNode s i).new ≠ none → (nd.numRegs < nd.maxRegs ↔ ∃ hid, (step s (.new i)).2.1 = .handle hid)) ∧
    ((absNode s i).new ≠ none → (nd.maxRegs ≤ nd.numRegs ↔ (step s (.new i)).2.1 = .err .quantum)) ∧
    (∀ e, (step s (.new i)).2.1 = .err e → (step s (.new i)).1 = s) := by
  obtain ⟨c1, c2, c3, c4⟩ := C07.create_iff s i nd hwf hn
  obtain ⟨k1, _, k3, _⟩ := absNode_counts hwf i nd hn
  have hnone : (absNode s i).new = none ↔ nd.maxQubits ≤ held s i := by
    unfold NqExec.Node.new
    rw [k1, k3]
    by_cases h : held s i ≥ nd.maxQubits
    · simp [h]
    · simp [h]
  refine ⟨by rw [hnone, c2], fun hid hres => ?_, fun hne => ?_, fun hne => ?_, c4⟩
  · obtain ⟨_, _, htok, _, hheld⟩ := C01.toks_new hwf hres
    refine ⟨?_, htok, hheld⟩
    have hlt : ¬ (absNode s i).held.length ≥ (absNode s i).cap := by
      have := (c1.1 ⟨hid, hres⟩).1
      rw [k1, k3]; omega
    unfold NqExec.Node.new
    rw [if_neg hlt]
    have hv : toksAt (step s (.new i)).1 i = toksAt s i ++ [s.nextTok] := by
      have := C01.view_new hwf hres i
      rw [if_pos rfl] at this
      exact this
    have hc : capAt (step s (.new i)).1 i = capAt s i := capAt_step hwf _ i
    have hx : (step s (.new i)).1.nextTok = s.nextTok + 1 := nextTok_new hwf hres
    simp only [absNode, hv, hc, hx]
  · have hlt : held s i < nd.maxQubits := by
      have := mt hnone.2 hne; omega
    exact ⟨fun h => c1.2 ⟨hlt, h⟩, fun h => (c1.1 h).2⟩
  · have hlt : held s i < nd.maxQubits := by
      have := mt hnone.2 hne; omega
    exact ⟨fun h => c3.2 ⟨hlt, h⟩, fun h => (c3.1 h).2⟩

/-- (a) under the hypothesis `numRegs i < maxRegs i` (true for the default `maxRegs = 1000 ≫ maxQubits`;
the C09/C11 harness runs small register limits as oracle-only for this reason) the abstract and the concrete
`new` succeed together -/
theorem new_agrees_iff {s : Net} (hwf : WF s) {i : Nat} {nd : VNet.Node} (hn : s.nodes[i]? = some nd)
    (hreg : nd.numRegs < nd.maxRegs) :
    ((absNode s i).new ≠ none ↔ ∃ hid, (step s (.new i)).2.1 = .handle hid) := by
  obtain ⟨a1, _, a3, _, _⟩ := new_commutes hwf hn
  refine ⟨fun h => (a3 h).1 hreg, fun ⟨hid, hres⟩ hnone => ?_⟩
  rw [a1.1 hnone] at hres; cases hres

/-- a state in which node 0 holds one qubit of two allowed, and its one register slot is used -/
def regFull : Net := (run (VNet.init [(2, 1), (2, 5)]) [.new 0]).1

/-- (a) without that hypothesis they do NOT agree: the abstract node has room, the virtual node refuses with
quantumError -/
theorem new_regLimit_disagrees :
    WF regFull ∧ (absNode regFull 0).new = some (⟨2, [0, 1], 2, []⟩, 1) ∧
    (step regFull (.new 0)).2.1 = .err .quantum :=
  ⟨C02.wf_run _ _, by decide, by decide⟩

example : (C02.exState.nodes[0]?).map (fun n => decide (n.numRegs < n.maxRegs)) = some true := by decide
example : (step C02.exState (.new 0)).2.1 = .handle 4 ∧
    absNode (step C02.exState (.new 0)).1 0 = ⟨3, [0, 1, 3], 4, []⟩ := by decide

/-! ### (b) gates and measurements in place -/

/-- (b) a supported single-qubit gate through a handle held at node `i`: carried out, nothing changes in the
state (hence in `absNode`), and the engine call lands on the register position holding the token the handle
denotes — a token of the abstract node -/
theorem gate1_commutes {s : Net} (hwf : WF s) {i h : Nat} (hh : h ∈ heldAt s i) (g : NqExec.G1)
    (hg : g.supported = true) :
    ∃ n r p nd rg t, step s (.gate1 h (g1 g)) = (s, .unit, [.gate1 (g1 g) n r p]) ∧
      tokOf s h = some t ∧ t ∈ (absNode s i).held ∧
      s.nodes[n]? = some nd ∧ nd.reg? r = some rg ∧ rg.toks[p]? = some t := by
  obtain ⟨vq, hv, ha, _, _⟩ := heldAt_info hwf hh
  obtain ⟨n, r, p, hst⟩ := C01.gate1_emitted hwf hv ha (g := g1 g) (by rw [g1_supported]; exact hg)
  obtain ⟨_, nd, rg, h1, h2, h3, h4⟩ := C01.gate1_lands hwf hst
  cases ht : tokOf s h with
  | none => rw [ht] at h4; cases h4
  | some t =>
    refine ⟨n, r, p, nd, rg, t, hst, rfl, ?_, h1, h2, by rw [h3, ht]⟩
    exact List.mem_filterMap.2 ⟨h, hh, ht⟩

/-- (b) a two-qubit gate between two different handles held at node `i`: `absNode` is unchanged (whatever
registers are merged, wherever the qubits are simulated); the gate is carried out — and then lands on the
positions holding the two tokens, control and target not swapped, after calls that only move registers —
or it is refused with quantumError, state unchanged, exactly when both qubits are simulated at two other
nodes and node `i` has no free register slot (the second place where the register limit shows) -/
theorem gate2_commutes {s : Net} (hwf : WF s) {i hc ht : Nat} (hhc : hc ∈ heldAt s i) (hht : ht ∈ heldAt s i)
    (hne : hc ≠ ht) (g : NqExec.G2) :
    absNode (step s (.gate2 hc ht (g2 g))).1 i = absNode s i ∧
    ((step s (.gate2 hc ht (g2 g))).2.1 = .unit ∨
      ((step s (.gate2 hc ht (g2 g))).2.1 = .err .quantum ∧ (step s (.gate2 hc ht (g2 g))).1 = s ∧
        ∃ na, VNet.WFP.BothRemote s hc ht na ∧ na.maxRegs ≤ na.numRegs)) ∧
    ((step s (.gate2 hc ht (g2 g))).2.1 = .unit →
      ∃ pre n r c t nd rg tc tt,
        (step s (.gate2 hc ht (g2 g))).2.2 = pre ++ [.gate2 (g2 g) n r c t] ∧ (∀ e ∈ pre, e.isMove = true) ∧
        (step s (.gate2 hc ht (g2 g))).1.nodes[n]? = some nd ∧ nd.reg? r = some rg ∧
        rg.toks[c]? = some tc ∧ rg.toks[t]? = some tt ∧ tokOf s hc = some tc ∧ tokOf s ht = some tt ∧
        tc ∈ (absNode s i).held ∧ tt ∈ (absNode s i).held ∧ c ≠ t) := by
  refine ⟨?_, ?_, fun hres => ?_⟩
  · apply absNode_eq (capAt_step hwf _ i)
    · exact C01.view_other hwf _ (fun _ _ h => by cases h.1) (fun _ _ _ h => by cases h.1) (fun _ _ _ h => by cases h.1) i
    · exact nextTok_other hwf _ (fun _ _ h => by cases h.1)
  · rcases gate2_outcomes hwf hhc hht hne (g2 g) with h | h
    · exact Or.inl h
    · right
      obtain ⟨_, m2, _⟩ := C07.merge_never_capacity s hc ht (g2 g) hwf
      obtain ⟨m3, m4⟩ := m2 _ h
      rcases m3 with ⟨e, _⟩ | ⟨_, na, hb, hge⟩
      · cases e
      · exact ⟨h, m4, na, hb, hge⟩
  · obtain ⟨pre, n, r, c, t, nd, rg, h1, h2, h3, h4, h5, h6, h7, h8, h9⟩ := C01.gate2_lands hwf hres
    cases htc : tokOf s hc with
    | none => rw [htc] at h7; cases h7
    | some tc =>
      cases htt : tokOf s ht with
      | none => rw [htt] at h8; cases h8
      | some tt =>
        exact ⟨pre, n, r, c, t, nd, rg, tc, tt, h1, h2, h3, h4, by rw [h5, htc], by rw [h6, htt], rfl, rfl,
          List.mem_filterMap.2 ⟨hc, hhc, htc⟩, List.mem_filterMap.2 ⟨ht, hht, htt⟩, h9⟩

/-- (b) `cmd_measure(inplace=True)` through a handle held at node `i`: the outcome is the engine's, nothing
changes in the state, and the engine call lands on the position holding the handle's token -/
theorem measure_inplace_commutes {s : Net} (hwf : WF s) {i h : Nat} (hh : h ∈ heldAt s i) (oc : Bool) :
    ∃ n r p nd rg t, step s (.measure h true oc) = (s, .outcome oc, [.measInplace n r p oc]) ∧
      tokOf s h = some t ∧ t ∈ (absNode s i).held ∧
      s.nodes[n]? = some nd ∧ nd.reg? r = some rg ∧ rg.toks[p]? = some t := by
  obtain ⟨_, _, _, _, hall⟩ := heldAt_info hwf hh
  obtain ⟨vq, sq, nd0, rg0, info⟩ := hwf.info_of_held hall
  have hst : step s (.measure h true oc) = _ := VNet.stepMeasure_inplace info oc
  have hres : (step s (.measure h true oc)).2.1 = .outcome oc := by rw [hst]
  obtain ⟨n, r, p, nd, rg, t, h1, h2, h3, h4, _, h6, _⟩ := C01.measure_lands hwf hres
  exact ⟨n, r, p, nd, rg, t, h6 rfl, h1, List.mem_filterMap.2 ⟨h, hh, h1⟩, h2, h3, h4⟩

/-- (b) `cmd_reset` is not one operation of the virtual node but two: its expansion `resetOps` (in-place
measurement, X if the outcome is 1) leaves the state — hence `absNode` — unchanged, both parts are carried
out, and both land on the token of the handle (`measure_inplace_commutes`, `gate1_commutes` in the same state) -/
theorem reset_commutes {s : Net} (hwf : WF s) {i h : Nat} (hh : h ∈ heldAt s i) (o : Bool) :
    (run s (resetOps h o)).1 = s ∧
    (run s (resetOps h o)).2 = Res.outcome o :: (if o then [Res.unit] else []) := by
  obtain ⟨_, _, _, _, _, _, h1, _⟩ := measure_inplace_commutes hwf hh o
  obtain ⟨_, _, _, _, _, _, h2, _⟩ := gate1_commutes hwf hh .X rfl
  have h2' : step s (.gate1 h .X) = _ := h2
  cases o with
  | false => simp [resetOps, run, h1]
  | true => simp [resetOps, run, h1, h2']

example : 1 ∈ heldAt C02.exState 0 ∧ (run C02.exState (resetOps 1 true)).2 = [.outcome true, .unit] := by decide

/-- (a)/(b) a static, decidable condition under which the register limit never shows at node `i`, so that the
abstract node and the virtual node agree on every `new` and every two-qubit gate: node `i`'s register budget
exceeds the total qubit capacity of the network (e.g. the default `maxRegs = 1000`).  The condition mentions
the configured limits only, so it holds in every later state as well (`C07.caps_constant`). -/
theorem regLimit_never_of_budget {s : Net} (hwf : WF s) {i : Nat} {nd : VNet.Node} (hn : s.nodes[i]? = some nd)
    (hb : (s.nodes.map (·.maxQubits)).sum < nd.maxRegs) :
    nd.numRegs < nd.maxRegs ∧
    ((absNode s i).new ≠ none ↔ ∃ hid, (step s (.new i)).2.1 = .handle hid) ∧
    (∀ hc ht, hc ∈ heldAt s i → ht ∈ heldAt s i → hc ≠ ht → ∀ g : NqExec.G2,
      (step s (.gate2 hc ht (g2 g))).2.1 = .unit) := by
  have hreg := regs_within_budget hwf hn hb
  refine ⟨hreg, new_agrees_iff hwf hn hreg, fun hc ht hhc hht hne g => ?_⟩
  rcases (gate2_commutes hwf hhc hht hne g).2.1 with h | ⟨_, _, na, hbr, hge⟩
  · exact h
  · exfalso
    obtain ⟨vc, _, hvc, _, _, _, _, _, _, _, hna⟩ := hbr
    obtain ⟨vq, hv, _, hvn, _⟩ := heldAt_info hwf hhc
    rw [hvc] at hv; cases hv
    rw [hvn, hn] at hna; cases hna
    omega

example : ((VNet.init [(2, 5), (2, 5)]).nodes.map (·.maxQubits)).sum < 5 := by decide

/-! ### (b') the driver issues each operation on the handle of its token -/

/-- (b') what the driver does with the interpreter's `gate1 g t` / `meas t true o`: it looks the token up in the
renaming and issues the operation on that handle of node `i`; the engine call lands on the position holding
`tokOf` of that handle — the image of `t` under `Drv.tokMap`.  So the token-level trace of the interpreter
(`TOp`s, the trace of `AQ` as well: `token_trace_agrees`) IS the token-level reading of the engine trace, up
to the renaming. -/
theorem driven_op_lands {i : Nat} {n : NqExec.Node} {d : Drv} (hwf : WF d.net) (hc : Coupled i n d) {t : Nat}
    (ht : t ∈ n.held) :
    ∃ h tok, lookup d.hm t = some h ∧ h ∈ heldAt d.net i ∧ tokOf d.net h = some tok ∧ (t, some tok) ∈ d.tokMap ∧
      (∀ g : NqExec.G1, g.supported = true → ∃ nn r p nd rg,
        step d.net (.gate1 h (g1 g)) = (d.net, .unit, [.gate1 (g1 g) nn r p]) ∧
        d.net.nodes[nn]? = some nd ∧ nd.reg? r = some rg ∧ rg.toks[p]? = some tok) ∧
      (∀ o : Bool, ∃ nn r p nd rg,
        step d.net (.measure h true o) = (d.net, .outcome o, [.measInplace nn r p o]) ∧
        d.net.nodes[nn]? = some nd ∧ nd.reg? r = some rg ∧ rg.toks[p]? = some tok) := by
  obtain ⟨h, hl, hh⟩ := hc.handle ht
  obtain ⟨_, _, _, _, hall⟩ := heldAt_info hwf hh
  obtain ⟨tok, htok⟩ := C01.held_defined hwf hall
  refine ⟨h, tok, hl, hh, htok, ?_, fun g hg => ?_, fun o => ?_⟩
  · unfold Drv.tokMap
    exact List.mem_map.2 ⟨(t, h), lookup_mem hl, by simp [htok]⟩
  · obtain ⟨nn, r, p, nd, rg, t', h1, h2, _, h4, h5, h6⟩ := gate1_commutes hwf hh g hg
    rw [htok] at h2; cases h2
    exact ⟨nn, r, p, nd, rg, h1, h4, h5, h6⟩
  · obtain ⟨nn, r, p, nd, rg, t', h1, h2, _, h4, h5, h6⟩ := measure_inplace_commutes hwf hh o
    rw [htok] at h2; cases h2
    exact ⟨nn, r, p, nd, rg, h1, h4, h5, h6⟩

/-- (b') for vanilla histories the operation trace of the token-level machine `AQ` of C09, of the concrete
machine `CQ`, and of the joint machine (which carries each of these operations out on the network) are the
same list -/
theorem token_trace_agrees (i p fuel : Nat) (ms : List Msg) (hv : ms.all Msg.vanilla = true) (s : St CQ) (d : Drv)
    (env : Env) (h : Inv F ext s.q) :
    (runMsgs NqExec.tokenLevel fuel (mapSt NqExec.abs s) env ms [] []).1.ops =
      (runMsgs (joint i p) fuel (withNet s d) env ms [] []).1.ops ∧
    (runMsgs NqExec.tokenLevel fuel (mapSt NqExec.abs s) env ms [] []).2 =
      (runMsgs (joint i p) fuel (withNet s d) env ms [] []).2 := by
  obtain ⟨⟨_, _, _, _, a5, _⟩, a7⟩ := NqExec.sim_runMsgs (NqExec.simulates (F := F) (ext := ext)) fuel ms hv s env [] [] h
  obtain ⟨⟨_, _, _, _, p5, _⟩, p7⟩ := proj_runMsgs (joint_projects i p) fuel ms (withNet s d) env [] []
  rw [mapSt_withNet] at p5 p7
  exact ⟨a5.trans p5, a7.trans p7⟩

/-! ### (c) free -/

/-- (c) qfree / stop = `measure(inplace=False)` through a handle held at node `i`: it succeeds, the abstract
node drops exactly the token the handle denoted (one qubit less), that token is gone from the network, every
other token stays, every other node's abstraction is unchanged -/
theorem free_commutes {s : Net} (hwf : WF s) {i h : Nat} (hh : h ∈ heldAt s i) (oc : Bool) :
    (step s (.measure h false oc)).2.1 = .outcome oc ∧
    ∃ t, tokOf s h = some t ∧ t ∈ (absNode s i).held ∧
      absNode (step s (.measure h false oc)).1 i = (absNode s i).drop t ∧
      held (step s (.measure h false oc)).1 i + 1 = held s i ∧
      t ∉ allToks (step s (.measure h false oc)).1 ∧
      (∀ t', t' ∈ allToks s → t' ≠ t → t' ∈ allToks (step s (.measure h false oc)).1) ∧
      (∀ j, j ≠ i → absNode (step s (.measure h false oc)).1 j = absNode s j) := by
  obtain ⟨p1, p2, _⟩ := C02.measure_population s i h oc hwf hh
  refine ⟨p1, ?_⟩
  obtain ⟨vq, t, hv, ht, hview⟩ := C01.view_measure hwf p1
  obtain ⟨t', ht', _, hgone, hrest⟩ := C01.toks_measure hwf p1
  rw [ht] at ht'; cases ht'
  obtain ⟨vq', hv', _, hvn, _⟩ := heldAt_info hwf hh
  rw [hv] at hv'; cases hv'
  have hx : (step s (.measure h false oc)).1.nextTok = s.nextTok := nextTok_other hwf _ (fun _ _ h => by cases h.1)
  refine ⟨t, ht, List.mem_filterMap.2 ⟨h, hh, ht⟩, ?_, p2, hgone, hrest, fun j hj => ?_⟩
  · have hvi : toksAt (step s (.measure h false oc)).1 i = (toksAt s i).erase t := by
      have := hview i; rw [if_pos hvn.symm] at this; exact this
    simp only [absNode, NqExec.Node.drop, hvi, capAt_step hwf, hx]
  · apply absNode_eq (capAt_step hwf _ j) _ hx
    have := hview j
    rw [if_neg (by rw [hvn]; exact hj)] at this
    exact this

example : (step C02.exState (.measure 0 false true)).2.1 = .outcome true ∧
    absNode (step C02.exState (.measure 0 false true)).1 0 = ⟨3, [1], 3, []⟩ ∧
    absNode (step C02.exState (.measure 0 false true)).1 1 = absNode C02.exState 1 := by decide

/-! ### (d) handing over and receiving a pair half (VNetX: base network + receive queues) -/

/-- (d) K-type hand-over, `send_epr_half` = `netqasm_send_epr_half` = send + enqueue.  When the send inside
the wrapper goes through: the token leaves the abstract node of the sender, appears last in the abstract node
of the receiver, every other node is untouched, and the receiver's queue of socket `rapp` gets exactly one
new entry — (sender, that token) — at its end; its other queues are unchanged.  (Refused sends change
nothing at all: `C02.netqasm_send_failed_atomic`.) -/
theorem send_half_commutes (s : VNetX.NetX) (w : VNetX.WFX s) (a num b app rapp ent h nn : Nat)
    (e : VNetX.getVirtualRef s.base a num = some h) (hr : (step s.base (.send h b)).2.1 = .num nn) :
    a ≠ b ∧ (VNetX.stepX s (.nqSendEpr a (some num) b app rapp ent)).res = .res .none ∧
    (VNetX.stepX s (.nqSendEpr a (some num) b app rapp ent)).st.base = (step s.base (.send h b)).1 ∧
    ∃ t, tokOf s.base h = some t ∧ t ∈ (absNodeX s a).held ∧
      (absNodeX (VNetX.stepX s (.nqSendEpr a (some num) b app rapp ent)).st a).held = (absNodeX s a).held.erase t ∧
      (absNodeX (VNetX.stepX s (.nqSendEpr a (some num) b app rapp ent)).st b).held = (absNodeX s b).held ++ [t] ∧
      (∀ j, j ≠ a → j ≠ b →
        (absNodeX (VNetX.stepX s (.nqSendEpr a (some num) b app rapp ent)).st j).held = (absNodeX s j).held) ∧
      sockInbox (VNetX.stepX s (.nqSendEpr a (some num) b app rapp ent)).st b rapp = sockInbox s b rapp ++ [(a, t)] ∧
      (∀ so, so ≠ rapp → sockInbox (VNetX.stepX s (.nqSendEpr a (some num) b app rapp ent)).st b so = sockInbox s b so) := by
  obtain ⟨n, vq0, hn, hhv, hv0, _⟩ := VNetX.getVirtualRef_some e
  have hh : h ∈ heldAt s.base a := VNet.WFP.mem_heldAt.2 ⟨n, hn, hhv⟩
  obtain ⟨hab, hblt, hnewmem, hnewtok⟩ := send_new_handle w.base hh hr
  have key := C02.netqasm_send_epr_half_is_send_plus_enqueue s w a num b app rapp ent h nn e hr
  dsimp only at key
  obtain ⟨hst, hres, _⟩ := key
  have hbase : (VNetX.stepX s (.nqSendEpr a (some num) b app rapp ent)).st.base = (step s.base (.send h b)).1 := by
    rw [hst]; rfl
  obtain ⟨vq, t, hv, ht, hview⟩ := C01.view_send w.base hr
  obtain ⟨vq', hv', _, hvn, _⟩ := heldAt_info w.base hh
  rw [hv] at hv'; cases hv'
  have hbext : b < s.ext.length := by rw [w.len]; exact hblt
  have hold : ∀ so r, r ∈ VNetX.queueOf s b .epr so →
      recEntry (step s.base (.send h b)).1 b r = recEntry s.base b r :=
    fun so r hm => recEntry_send w hh hab hbext hr r hm
  refine ⟨hab, hres, hbase, t, ht, List.mem_filterMap.2 ⟨h, hh, ht⟩, ?_, ?_, fun j h1 h2 => ?_, ?_, fun so hso => ?_⟩
  · show toksAt _ a = (toksAt s.base a).erase t
    rw [hbase]
    have := hview a; rw [if_pos hvn.symm] at this; exact this
  · show toksAt _ b = toksAt s.base b ++ [t]
    rw [hbase]
    have := hview b
    rw [if_neg (by rw [hvn]; exact fun e => hab e.symm), if_pos rfl] at this; exact this
  · show toksAt _ j = toksAt s.base j
    rw [hbase]
    have := hview j
    rw [if_neg (by rw [hvn]; exact h1), if_neg h2] at this; exact this
  · rw [sockInbox_eq, sockInbox_eq, hbase, hst,
      VNetX.queueOf_enqueue (s := { s with base := (step s.base (.send h b)).1 }) hbext, if_pos ⟨rfl, rfl, rfl⟩,
      List.filterMap_append]
    congr 1
    · exact C01.filterMap_congr' _ _ _ (fun r hm => hold rapp r hm)
    · simp [recEntry, hnewmem, hnewtok, ht]
  · rw [sockInbox_eq, sockInbox_eq, hbase, hst,
      VNetX.queueOf_enqueue (s := { s with base := (step s.base (.send h b)).1 }) hbext,
      if_neg (fun e => hso e.2.2)]
    exact C01.filterMap_congr' _ _ _ (fun r hm => hold so r hm)

/-- (d) receiving, `cmd_epr_recv` = `netqasm_get_epr_recv`: while the delivered qubit is still held, the poll of
socket `sock` hands out exactly its handle, the base network (hence every abstract node's tokens) is
unchanged, and the head entry — the token the interpreter model claims — leaves the socket's queue -/
theorem recv_half_commutes (s : VNetX.NetX) (w : VNetX.WFX s) (b sock g : Nat) (q : VNetX.QRec) (rest : List VNetX.QRec)
    (hq : VNetX.queueOf s b .epr sock = q :: rest) (hg : q.ghost = some g) (hheld : g ∈ heldAt s.base b) :
    (VNetX.stepX s (.getEprRecv b sock)).res = .eprRef (some g) q.ent ∧
    (VNetX.stepX s (.getEprRecv b sock)).st.base = s.base ∧
    (∀ j, (absNodeX (VNetX.stepX s (.getEprRecv b sock)).st j).held = (absNodeX s j).held) ∧
    ∃ t, tokOf s.base g = some t ∧ t ∈ (absNodeX s b).held ∧
      sockInbox s b sock = (q.frm, t) :: sockInbox (VNetX.stepX s (.getEprRecv b sock)).st b sock := by
  obtain ⟨n, hn, _⟩ := VNet.WFP.mem_heldAt.1 hheld
  have hdel := C02.get_recv_delivers s w b sock g .epr q rest hq hg hheld
  obtain ⟨p1, p2, _, _, _⟩ := C02.get_recv_pops_head s w.len b sock .epr n q rest hn hq
  obtain ⟨_, _, _, _, hall⟩ := heldAt_info w.base hheld
  obtain ⟨t, ht⟩ := C01.held_defined w.base hall
  have hbase : (VNetX.stepX s (.getEprRecv b sock)).st.base = s.base := p1
  refine ⟨hdel, hbase, fun j => ?_, t, ht, List.mem_filterMap.2 ⟨g, hheld, ht⟩, ?_⟩
  · show toksAt _ j = toksAt s.base j
    rw [hbase]
  · have p2' : VNetX.queueOf (VNetX.stepX s (.getEprRecv b sock)).st b .epr sock = rest := p2
    rw [sockInbox_eq, sockInbox_eq, hbase, hq, p2', List.filterMap_cons]
    simp [recEntry, hg, hheld, ht]

/-- node 0 creates a qubit and hands it to node 1 on socket 1; node 1 polls the socket -/
def xState : VNetX.NetX := (VNetX.runX (VNetX.initX [(2, 5), (2, 5)]) [.base (.new 0), .nqSendEpr 0 (some 0) 1 7 1 42]).1

example : (absNodeX xState 0).held = [] ∧ (absNodeX xState 1).held = [0] ∧ sockInbox xState 1 1 = [(0, 0)] ∧
    (absNodeX xState 1).inbox = [(1, 0, 0)] ∧
    (VNetX.stepX xState (.getEprRecv 1 1)).res = .eprRef (some 1) (some 42) ∧
    sockInbox (VNetX.stepX xState (.getEprRecv 1 1)).st 1 1 = [] := by decide

/-! ### (e) what C11's model does not have: simulated qubits and registers -/

/-- (e) the register side of node `i` is determined by the token partition: its simulated qubits are as many
as the held handles — of ANY node — whose qubit is simulated at `i`, every register holds at least one of
them, and the register counter is exact -/
theorem registers_determined {s : Net} (hwf : WF s) {i : Nat} {nd : VNet.Node} (hn : s.nodes[i]? = some nd) :
    nd.sim.length = (simulatedAt s i).length ∧ nd.numRegs = nd.regs.length ∧ nd.numRegs ≤ nd.sim.length ∧
    nd.numRegs ≤ (allHeld s).length := by
  obtain ⟨h1, h2⟩ := regs_le_sim hwf hn
  have h3 := sim_length hwf hn
  refine ⟨h3, h1, by omega, ?_⟩
  have : (simulatedAt s i).length ≤ (allHeld s).length := List.length_filter_le _ _
  omega

/-- (e) a node whose abstraction holds nothing holds no qubit; if, moreover, no other node holds a qubit
simulated at it, it has no simulated qubit and no register: `sim = []`, `numRegs = 0`.  This is C11's "the
node's number of held qubits and registers returns to what it was before the application started", at L2. -/
theorem released_node_is_empty {s : Net} (hwf : WF s) {i : Nat} {nd : VNet.Node} (hn : s.nodes[i]? = some nd)
    (hrel : (absNode s i).held = []) :
    nd.virt = [] ∧ (simulatedAt s i = [] → nd.sim = [] ∧ nd.regs = [] ∧ nd.numRegs = 0) := by
  obtain ⟨_, k2, _⟩ := absNode_counts hwf i nd hn
  rw [hrel] at k2
  exact ⟨List.length_eq_zero_iff.1 k2.symm, no_sim_no_regs hwf hn⟩

/-- the side condition is needed: node 0 has released everything, node 1 still holds a qubit simulated at
node 0, and node 0 keeps a register for it -/
example : (absNode (step C02.exState (.measure 0 false true)).1 0).held = [1] ∧
    simulatedAt C02.exState 0 = [0, 1, 3] ∧ heldAt C02.exState 1 = [3] := by decide

/-! ### histories -/

/-- (e) Along ANY history of the interpreter — any messages, programs, failures, arrivals — with the other
nodes doing anything in between (`d.sched`), the joint machine's interpreter half is the concrete machine of
C09/C11 (same state, replies, operations), the network stays well-formed, the driver never loses a handle or
sees an unnamed outcome, and as long as no disagreement is recorded the interpreter's node is the abstraction
of node `i` up to the renaming `hm`: same limit, tokens and handles in one-to-one correspondence in order —
in particular the same number of qubits. -/
theorem history_coupled (i p fuel : Nat) (ms : List Msg) (s : St CQ) (d : Drv) (env : Env)
    (h : Inv F ext s.q) (hwf : WF d.net) (hd : d.disc = none) (hc : Coupled i (core s.q.node) d) :
    let J := (runMsgs (joint i p) fuel (withNet s d) env ms [] []).1
    let C := (runMsgs concrete fuel s env ms [] []).1
    mapSt JSt.c J.st = C.st ∧ J.env = C.env ∧ J.ops = C.ops ∧ J.halt = C.halt ∧
    (runMsgs (joint i p) fuel (withNet s d) env ms [] []).2 = (runMsgs concrete fuel s env ms [] []).2 ∧
    WF J.st.q.d.net ∧ J.st.q.d.disc ≠ some .noHandle ∧ J.st.q.d.disc ≠ some .other ∧
    (J.st.q.d.disc = none →
      Coupled i (core C.st.q.node) J.st.q.d ∧ held J.st.q.d.net i = C.st.q.node.held.length ∧
      capAt J.st.q.d.net i = C.st.q.node.cap) := by
  intro J C
  obtain ⟨⟨_, p2, p3, _, p5, p6⟩, p7⟩ := proj_runMsgs (joint_projects i p) fuel ms (withNet s d) env [] []
  rw [mapSt_withNet] at p2 p3 p5 p6 p7
  obtain ⟨⟨_, j2, j3, j4⟩, _⟩ := NqExec.runMsgs_inv (joint_preserves (F := F) (ext := ext) i p) fuel ms (withNet s d) env [] []
    ⟨h, hwf, fun _ => hc, by show d.disc ≠ _ ∧ d.disc ≠ _; rw [hd]; exact ⟨by simp, by simp⟩⟩ (by simp)
  have hq : J.st.q.c = C.st.q := by
    have := congrArg (fun x : St CQ => x.q) p2
    exact this.symm
  refine ⟨p2.symm, p3.symm, p5.symm, p6.symm, p7.symm, j2, j4.1, j4.2, fun hnone => ?_⟩
  have c := j3 hnone
  rw [hq] at c
  exact ⟨c, c.count, c.cap.symm⟩

/-- (f) Stop restores the baseline OF THE VIRTUAL NODE (partial, as C11's T11.2).  Start with an interpreter
state satisfying C11's invariants with no application active, and a well-formed network whose node `i` is
coupled to the interpreter's node.  Run ANY history `ms` (any number of application generations, any
programs, aborted subroutines, created and received pair halves, other nodes acting in between) and then a
StopApp that is answered.  If no entanglement instruction failed between `cmd_new` / claiming a delivered
half and the hand-over to the unit module (`hleak`, C11's hypothesis: no leaked EPR temporaries) and the
driver recorded no disagreement (`hok`: no register-limit refusal, peer answers as the network gives them),
then

* node `i` of the network holds as many qubits as before the history, up to the pair halves that arrived /
  were claimed in between (the interpreter's receive queue), under the unchanged limit;
* if node `i` then holds nothing and no other node holds a qubit simulated at `i`, node `i` has no
  simulated qubit and no register: `virt = []`, `sim = []`, `numRegs = 0`.

FULL statement: the same without `hleak`.  FALSE of the current code (F13), also at this level:
`stop_restores_node_counterexample`. -/
theorem stop_restores_node_partial (i p fuel : Nat) (ms : List Msg) (app : Nat) (s : St CQ) (d : Drv) (env : Env)
    (h : Inv F ext s.q) (hl : InvL s.q) (hnone : s.q.um = none)
    (hwf : WF d.net) (hd : d.disc = none) (hc : Coupled i (core s.q.node) d)
    (hdone : (runMsg (joint i p) fuel (runMsgs (joint i p) fuel (withNet s d) env ms [] []).1.st
        (runMsgs (joint i p) fuel (withNet s d) env ms [] []).1.env (.stop app)).replies = [.done])
    (hleak : (runMsg (joint i p) fuel (runMsgs (joint i p) fuel (withNet s d) env ms [] []).1.st
        (runMsgs (joint i p) fuel (withNet s d) env ms [] []).1.env (.stop app)).st.q.c.leaked = s.q.leaked)
    (hok : (runMsg (joint i p) fuel (runMsgs (joint i p) fuel (withNet s d) env ms [] []).1.st
        (runMsgs (joint i p) fuel (withNet s d) env ms [] []).1.env (.stop app)).st.q.d.disc = none) :
    let fin := (runMsg (joint i p) fuel (runMsgs (joint i p) fuel (withNet s d) env ms [] []).1.st
        (runMsgs (joint i p) fuel (withNet s d) env ms [] []).1.env (.stop app)).st.q
    WF fin.d.net ∧ fin.c.um = none ∧ fin.c.qlist = s.q.qlist ∧ capAt fin.d.net i = capAt d.net i ∧
    held fin.d.net i + s.q.node.inbox.length = held d.net i + fin.c.node.inbox.length ∧
    ∀ nd, fin.d.net.nodes[i]? = some nd →
      (held fin.d.net i = 0 → nd.virt = [] ∧
        (simulatedAt fin.d.net i = [] → nd.sim = [] ∧ nd.regs = [] ∧ nd.numRegs = 0)) := by
  intro fin
  -- the interpreter half is the concrete machine, for the history and for the final StopApp
  obtain ⟨⟨_, p2, p3, _, _, _⟩, _⟩ := proj_runMsgs (joint_projects i p) fuel ms (withNet s d) env [] []
  rw [mapSt_withNet] at p2 p3
  have e : runMsg concrete fuel (runMsgs concrete fuel s env ms [] []).1.st (runMsgs concrete fuel s env ms [] []).1.env (.stop app) =
      runMsg concrete fuel (mapSt JSt.c (runMsgs (joint i p) fuel (withNet s d) env ms [] []).1.st)
        (runMsgs (joint i p) fuel (withNet s d) env ms [] []).1.env (.stop app) := by rw [p2, p3]
  obtain ⟨_, q2, _, q4, _, _⟩ := proj_runMsg (joint_projects i p) fuel
    (runMsgs (joint i p) fuel (withNet s d) env ms [] []).1.st (runMsgs (joint i p) fuel (withNet s d) env ms [] []).1.env (.stop app)
  rw [← e] at q2 q4
  have hq : (runMsg concrete fuel (runMsgs concrete fuel s env ms [] []).1.st (runMsgs concrete fuel s env ms [] []).1.env
      (.stop app)).st.q = fin.c := congrArg (fun x : St CQ => x.q) q2
  have base := stop_restores_baseline_partial (F := F) (ext := ext) fuel ms app s h hl hnone env (q4.trans hdone)
    (by rw [hq]; exact hleak)
  simp only [hq] at base
  obtain ⟨b1, b2, b3, b4⟩ := base
  -- the coupling survives the history and the StopApp
  obtain ⟨hJ, _⟩ := NqExec.runMsgs_inv (joint_preserves (F := F) (ext := ext) i p) fuel ms (withNet s d) env [] []
    ⟨h, hwf, fun _ => hc, by show d.disc ≠ _ ∧ d.disc ≠ _; rw [hd]; exact ⟨by simp, by simp⟩⟩ (by simp)
  obtain ⟨⟨_, j2, j3, _⟩, _⟩ := NqExec.runMsg_inv (joint_preserves (F := F) (ext := ext) i p) fuel hJ
    (runMsgs (joint i p) fuel (withNet s d) env ms [] []).1.env (.stop app)
  have c : Coupled i (core fin.c.node) fin.d := j3 hok
  have c1 : held fin.d.net i = fin.c.node.held.length := c.count
  have c2 : fin.c.node.cap = capAt fin.d.net i := c.cap
  have d1 : held d.net i = s.q.node.held.length := hc.count
  have d2 : s.q.node.cap = capAt d.net i := hc.cap
  refine ⟨j2, b2, b1, by rw [← c2, ← d2]; exact b3, by rw [c1, d1]; exact b4, fun nd hn h0 => ?_⟩
  have hv : held fin.d.net i = nd.virt.length := by simp [held, heldAt, hn]
  exact ⟨List.length_eq_zero_iff.1 (by omega), no_sim_no_regs j2 hn⟩

/-! ### non-vacuity: histories through both machines -/

/-- two nodes, two qubits each, five register slots -/
def net0 : Net := VNet.init [(2, 5), (2, 5)]

/-- a vanilla application at node 0: allocate two qubits, H, CNOT, measure one in place, reset the other, free
one; the other is left to StopApp -/
def localProg : List NqExec.Instr :=
  [.set 0 0, .set 1 1, .qalloc 0, .qalloc 1, .gate1 .H 0, .gate2 .cnot 0 1, .meas 0 16, .init 1, .qfree 0]

def localMsgs : List Msg := [.init 0 2, .sub 0 localProg]

def localEnv : Env := ⟨[true, true, false, true], [], []⟩

/-- meanwhile node 1 creates qubits of its own and entangles them -/
def localSched : List (List Op) := [[.new 1], [.new 1, .gate2 0 1 .CNOT]]

/-- the hypotheses of `history_coupled` / `stop_restores_node_partial` hold initially -/
example : Inv [] 0 (St.fresh 2 [1]).q ∧ InvL (St.fresh 2 [1]).q ∧ (St.fresh 2 [1]).q.um = none ∧ WF net0 ∧
    Coupled 0 (core (St.fresh 2 [1]).q.node) (Drv.init net0 localSched) :=
  ⟨NqExec.Inv.fresh 2, rfl, rfl, C02.wf_init _, by decide, rfl, by decide⟩

/-- the history through both machines: same replies and operations as the concrete machine alone; the
interpreter's tokens 0, 1 are the handles 2, 3 of node 0 (tokens 2, 3 of the network: node 1 took 0 and 1);
after the subroutine the interpreter's node holds its token 1, node 0 holds handle 3 -/
example : (runMsgs (joint 0 1) 100 (withNet (St.fresh 2 [1]) (Drv.init net0 localSched)) localEnv localMsgs [] []).2 =
      [[.done], [.done]] ∧
    (runMsgs (joint 0 1) 100 (withNet (St.fresh 2 [1]) (Drv.init net0 localSched)) localEnv localMsgs [] []).1.ops =
      [.new 0, .new 1, .gate1 .H 0, .gate2 .cnot 0 1, .meas 0 true true, .meas 1 true true, .gate1 .X 1, .meas 0 false false] ∧
    (runMsgs (joint 0 1) 100 (withNet (St.fresh 2 [1]) (Drv.init net0 localSched)) localEnv localMsgs [] []).1.ops =
      (runMsgs concrete 100 (St.fresh 2 [1]) localEnv localMsgs [] []).1.ops := by decide +kernel

example :
    (runMsgs (joint 0 1) 100 (withNet (St.fresh 2 [1]) (Drv.init net0 localSched)) localEnv localMsgs [] []).1.st.q.d.disc = none ∧
    (runMsgs (joint 0 1) 100 (withNet (St.fresh 2 [1]) (Drv.init net0 localSched)) localEnv localMsgs [] []).1.st.q.d.hm = [(1, 3)] ∧
    (runMsgs (joint 0 1) 100 (withNet (St.fresh 2 [1]) (Drv.init net0 localSched)) localEnv localMsgs [] []).1.st.q.c.node =
      ⟨2, [1], 2, []⟩ ∧
    absNode (runMsgs (joint 0 1) 100 (withNet (St.fresh 2 [1]) (Drv.init net0 localSched)) localEnv localMsgs [] []).1.st.q.d.net 0 =
      ⟨2, [3], 4, []⟩ := by decide +kernel

/-- … and the StopApp: answered, nothing leaked, no disagreement, and node 0 of the network is back at its
baseline: no held qubit, no simulated qubit, no register; node 1 keeps its two entangled qubits -/
example :
    (runMsg (joint 0 1) 100 (runMsgs (joint 0 1) 100 (withNet (St.fresh 2 [1]) (Drv.init net0 localSched)) localEnv localMsgs [] []).1.st
      (runMsgs (joint 0 1) 100 (withNet (St.fresh 2 [1]) (Drv.init net0 localSched)) localEnv localMsgs [] []).1.env (.stop 0)).replies = [.done] ∧
    (runMsg (joint 0 1) 100 (runMsgs (joint 0 1) 100 (withNet (St.fresh 2 [1]) (Drv.init net0 localSched)) localEnv localMsgs [] []).1.st
      (runMsgs (joint 0 1) 100 (withNet (St.fresh 2 [1]) (Drv.init net0 localSched)) localEnv localMsgs [] []).1.env (.stop 0)).st.q.c.leaked = 0 ∧
    (runMsg (joint 0 1) 100 (runMsgs (joint 0 1) 100 (withNet (St.fresh 2 [1]) (Drv.init net0 localSched)) localEnv localMsgs [] []).1.st
      (runMsgs (joint 0 1) 100 (withNet (St.fresh 2 [1]) (Drv.init net0 localSched)) localEnv localMsgs [] []).1.env (.stop 0)).st.q.d.disc = none ∧
    (runMsg (joint 0 1) 100 (runMsgs (joint 0 1) 100 (withNet (St.fresh 2 [1]) (Drv.init net0 localSched)) localEnv localMsgs [] []).1.st
      (runMsgs (joint 0 1) 100 (withNet (St.fresh 2 [1]) (Drv.init net0 localSched)) localEnv localMsgs [] []).1.env (.stop 0)).st.q.d.net.nodes.map
        (fun n => (n.virt, n.sim, n.numRegs)) = [([], [], 0), ([0, 1], [0, 1], 1)] := by decide +kernel

/-- create-and-keep towards node 1 (which has room, as `Env.sends` says), then StopApp: node 0 holds nothing
any more, but the half it handed to node 1 is still simulated at node 0 — `simulatedAt ≠ []`, one simulated
qubit and one register stay.  The side condition of `stop_restores_node_partial` / `released_node_is_empty` is
needed. -/
example :
    (runMsgs (joint 0 1) 100 (withNet (St.fresh 2 [1]) (Drv.init net0 [])) ⟨[true], [true], [[0, 0, 0, 0, 0, 0, 1, 1, 0, 0]]⟩
      (witness ++ [.stop 0]) [] []).1.st.q.d.disc = none ∧
    (runMsgs (joint 0 1) 100 (withNet (St.fresh 2 [1]) (Drv.init net0 [])) ⟨[true], [true], [[0, 0, 0, 0, 0, 0, 1, 1, 0, 0]]⟩
      (witness ++ [.stop 0]) [] []).1.st.q.d.net.nodes.map (fun n => (n.virt, n.sim, n.numRegs)) = [([], [1], 1), ([2], [], 0)] ∧
    simulatedAt (runMsgs (joint 0 1) 100 (withNet (St.fresh 2 [1]) (Drv.init net0 [])) ⟨[true], [true], [[0, 0, 0, 0, 0, 0, 1, 1, 0, 0]]⟩
      (witness ++ [.stop 0]) [] []).1.st.q.d.net 0 = [2] := by decide +kernel

/-- the disagreements are recorded: the environment says the peer refused the half although node 1 has room;
node 0 has one register slot only -/
example :
    (runMsgs (joint 0 1) 100 (withNet (St.fresh 2 [1]) (Drv.init net0 [])) witnessEnv witness [] []).1.st.q.d.disc = some .sendAnswer ∧
    (runMsgs (joint 0 1) 100 (withNet (St.fresh 2 [1]) (Drv.init (VNet.init [(2, 1), (2, 5)]) [])) localEnv localMsgs [] []).1.st.q.d.disc =
      some .regLimitNew := by decide +kernel

/-- the vanilla history above is an instance of `token_trace_agrees` -/
example : localMsgs.all Msg.vanilla = true := by decide

/-- node 1 is full: it refuses the half, as `witnessEnv` says -/
def fullPeer : Net := (run net0 [.new 1, .new 1]).1

/-- (f) at full strength is FALSE of the current code (F13), at the level of the virtual node as well: after
[create_keep towards a full receiver; stop] — StopApp answered, no disagreement between the two machines —
node 0 still holds both temporary qubits of `cmd_epr`, simulated in one register, and the interpreter's leak
counter moved by two. -/
theorem stop_restores_node_counterexample :
    (runMsg (joint 0 1) 100 (runMsgs (joint 0 1) 100 (withNet (St.fresh 2 [1]) (Drv.init fullPeer [])) witnessEnv witness [] []).1.st
      (runMsgs (joint 0 1) 100 (withNet (St.fresh 2 [1]) (Drv.init fullPeer [])) witnessEnv witness [] []).1.env (.stop 0)).replies = [.done] ∧
    (runMsg (joint 0 1) 100 (runMsgs (joint 0 1) 100 (withNet (St.fresh 2 [1]) (Drv.init fullPeer [])) witnessEnv witness [] []).1.st
      (runMsgs (joint 0 1) 100 (withNet (St.fresh 2 [1]) (Drv.init fullPeer [])) witnessEnv witness [] []).1.env (.stop 0)).st.q.d.disc = none ∧
    (runMsg (joint 0 1) 100 (runMsgs (joint 0 1) 100 (withNet (St.fresh 2 [1]) (Drv.init fullPeer [])) witnessEnv witness [] []).1.st
      (runMsgs (joint 0 1) 100 (withNet (St.fresh 2 [1]) (Drv.init fullPeer [])) witnessEnv witness [] []).1.env (.stop 0)).st.q.c.leaked = 2 ∧
    ¬ (held (runMsg (joint 0 1) 100 (runMsgs (joint 0 1) 100 (withNet (St.fresh 2 [1]) (Drv.init fullPeer [])) witnessEnv witness [] []).1.st
      (runMsgs (joint 0 1) 100 (withNet (St.fresh 2 [1]) (Drv.init fullPeer [])) witnessEnv witness [] []).1.env (.stop 0)).st.q.d.net 0 =
        held fullPeer 0) := by decide +kernel

example : held fullPeer 0 = 0 ∧ held (runMsg (joint 0 1) 100
    (runMsgs (joint 0 1) 100 (withNet (St.fresh 2 [1]) (Drv.init fullPeer [])) witnessEnv witness [] []).1.st
    (runMsgs (joint 0 1) 100 (withNet (St.fresh 2 [1]) (Drv.init fullPeer [])) witnessEnv witness [] []).1.env (.stop 0)).st.q.d.net 0 = 2 := by
  decide +kernel

end SqVerif.C11

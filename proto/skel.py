import ast, sys
src = open('/repo/simulaqron/virtual_node/virtual.py').read()
tree = ast.parse(src)
MUT_ATTRS = {"virtQubits","simQubits","registers","numRegs","num","register","simNode","simQubit","active","maxQubits","_next_reg_num"}
def callname(c):
    f=c.func
    if isinstance(f, ast.Attribute): return (ast.unparse(f.value), f.attr)
    if isinstance(f, ast.Name): return (None, f.id)
    return (None, ast.unparse(f))
def expr_events(e):
    ev=[]
    for n in ast.walk(e):
        if isinstance(n, ast.Call):
            tgt,name = callname(n)
            if name=="call_method":
                obj=ast.unparse(n.args[0]); m=n.args[1].value if isinstance(n.args[1], ast.Constant) else ast.unparse(n.args[1])
                if m=="get_global_lock": ev.append(f"acquire({obj})")
                elif m=="release_global_lock": ev.append(f"release({obj})")
                elif m=="lock": ev.append(f"qlock({obj})")
                elif m=="unlock": ev.append(f"qunlock({obj})")
                else: ev.append(f"call({obj},{m})")
            elif name in ("_get_global_lock",): ev.append(f"acquire({tgt})")
            elif name in ("_release_global_lock",): ev.append(f"release({tgt})")
            elif name in ("append","remove","pop") and tgt and tgt.split(".")[-1] in MUT_ATTRS: ev.append(f"mut({tgt}.{name})")
            elif tgt and (tgt=="self" or tgt.startswith("self.")) and (name.startswith("remote_") or name.startswith("_") or name.startswith("local_") or name.startswith("get_")): ev.append(f"inline({tgt}.{name})")
            elif name in ("absorb","absorb_parts","remove_qubit","add_fresh_qubit","make_fresh"): ev.append(f"engine({tgt}.{name})")
            elif name=="getattr": ev.append("engine(gate)")
    return ev
def stmts(body, ind=0):
    out=[]
    P="  "*ind
    for s in body:
        if isinstance(s, ast.Try):
            out.append(P+"try:"); out+=stmts(s.body, ind+1)
            for h in s.handlers: out.append(P+f"except {ast.unparse(h.type) if h.type else ''}:"); out+=stmts(h.body, ind+1)
            if s.finalbody: out.append(P+"finally:"); out+=stmts(s.finalbody, ind+1)
        elif isinstance(s, ast.If):
            out.append(P+f"if [{ast.unparse(s.test)[:60]}]:"); out+=stmts(s.body, ind+1)
            if s.orelse: out.append(P+"else:"); out+=stmts(s.orelse, ind+1)
        elif isinstance(s, (ast.For, ast.While)):
            out.append(P+"loop:"); out+=stmts(s.body, ind+1)
        elif isinstance(s, ast.Raise): out.append(P+f"raise {ast.unparse(s.exc)[:40]}")
        elif isinstance(s, ast.Return): 
            for e in expr_events(s): out.append(P+e)
            out.append(P+"return")
        elif isinstance(s, (ast.Assign, ast.AugAssign)):
            for e in expr_events(s.value): out.append(P+e)
            tg = s.targets if isinstance(s, ast.Assign) else [s.target]
            for t in tg:
                if isinstance(t, ast.Attribute) and t.attr in MUT_ATTRS: out.append(P+f"mut({ast.unparse(t)})")
                if isinstance(t, ast.Subscript) and isinstance(t.value, ast.Attribute) and t.value.attr in MUT_ATTRS: out.append(P+f"mut({ast.unparse(t.value)}[])")
        elif isinstance(s, ast.Expr):
            for e in expr_events(s.value): out.append(P+e)
        elif isinstance(s, ast.Assert): out.append(P+"assert")
    return out
for cls in [n for n in tree.body if isinstance(n, ast.ClassDef)]:
    for f in cls.body:
        if isinstance(f, ast.FunctionDef) and f.name in sys.argv[1:]:
            print(f"== {cls.name}.{f.name}")
            print("\n".join(stmts(f.body,1)))

import SqVerif.NqExec
import SqVerif.VNetSpec
import SqVerif.VNetX
/-
L5 over L2 — the abstract node of the NetQASM interpreter model (`NqExec.Node`:
tokens held, capacity, fresh-token counter, receive queue) as an ABSTRACTION of
one node of the virtual-node model (`VNet.Net`), driven the way the executioner
(`simulaqron/netqasm_backend/executioner.py`) drives it.  Core Lean only.

  executioner                               virtual node (`VNet.Op`)
  ----------------------------------------  ------------------------------------
  cmd_new (142-158)                         new i
  apply_single_qubit_gate (223-225)         gate1 h g
  apply_two_qubit_gate (207-214)            gate2 hc ht g      (two handles of node i)
  cmd_measure(inplace=True) (257-268)       measure h true o
  cmd_reset (270-280)                       measure h true o ; gate1 h X if o
  qfree / stop (837-841)                    measure h false o
  send_epr_half (651-695)                   send h p (+ enqueue at p: `VNetX.nqSendEpr`)
  cmd_epr_recv (761-813)                    `VNetX.getEprRecv`

`absNode s i` reads node `i` of a network state as an `NqExec.Node`: the tokens
its held handles denote (`tokOf`), its qubit limit, the network's fresh-token
counter.  For one step the abstraction commutes exactly (Props/C11Node.lean).
Along a history in which other nodes act as well the two fresh-token counters
drift apart (NqExec's is per node, `Net.nextTok` is global), so histories are
related through an explicit renaming `Drv.hm` : NqExec token ↦ handle at node
`i`; the token the engine sees is `tokOf` of that handle.

The joint machine `joint i p` is a `Backend` for the generic interpreter of
NqExec.lean: it runs the concrete backend `CQ` and, for every operation `CQ`
issues to its node (`TOp`) and every arrival, the corresponding `VNet.step` on
the real network state (`driveEv`).  Whatever the two sides can disagree on is
recorded in `Drv.disc`, never hidden:

  regLimitNew   `new` refused with quantumError: no free register slot at node i
                (NqExec's node knows the qubit limit only)
  regLimitGate  two-qubit gate refused with quantumError: both qubits simulated at two
                different other nodes and no register slot at node i
  sendAnswer    the peer's answer to `send_epr_half` in `Env.sends` differs from what
                the network does with `send h p`
  peer          an arrival that the sending node could not have produced (it is full,
                or it is node i itself); a hand-over to a peer `p` that does not exist or
                is node i itself
  noHandle / other   never happen from coupled well-formed states (NqVNetLemmasStep)
-/
namespace SqVerif.NqVNet

open SqVerif.NqExec (TOp Env QReq QRes QOut CQ Backend)
open SqVerif.VNet (Net Op Res Err step heldAt tokOf)

/-! ### the abstraction -/

/-- tokens held by node `i`, in the order of its list of held qubits (`C01.viewAt`) -/
def toksAt (s : Net) (i : Nat) : List Nat := (heldAt s i).filterMap (tokOf s)

/-- the qubit limit of node `i` -/
def capAt (s : Net) (i : Nat) : Nat := ((s.nodes[i]?).map (·.maxQubits)).getD 0

/-- node `i` of the network, seen as the node of the NetQASM interpreter model -/
def absNode (s : Net) (i : Nat) : NqExec.Node :=
  { cap := capAt s i, held := toksAt s i, next := s.nextTok, inbox := [] }

/-- the receive queue of socket `sock` at node `b`, as (sender, token) pairs: the records whose
delivered handle is still held at `b` -/
def sockInbox (s : VNetX.NetX) (b sock : Nat) : List (Nat × Nat) :=
  (VNetX.queueOf s b .epr sock).filterMap fun r =>
    match r.ghost with
    | some g => if g ∈ heldAt s.base b then (tokOf s.base g).map fun t => (r.frm, t) else none
    | none => none

/-- all receive queues of node `b`, socket by socket (in the order the sockets were first used) -/
def inboxOf (s : VNetX.NetX) (b : Nat) : List (Int × Int × Nat) :=
  ((VNetX.extOf s b).epr.map (·.1)).eraseDups.flatMap fun sock =>
    (sockInbox s b sock).map fun e => ((sock : Int), (e.1 : Int), e.2)

/-- node `i` of the extended network: `absNode` with the receive queues -/
def absNodeX (s : VNetX.NetX) (i : Nat) : NqExec.Node := { absNode s.base i with inbox := inboxOf s i }

/-! ### gates

`VNet.G1` was written before the repair F4 and has no constructor for S.  `VNet.stepGate1`
depends on the gate only through `supported` and copies it into the engine call, so S is
carried by the supported diagonal Clifford `Z` (`g1_supported`). -/

def g1 : NqExec.G1 → VNet.G1
  | .X => .X | .Y => .Y | .Z => .Z | .H => .H | .K => .K | .S => .Z | .T => .T | .Rot => .Rot

def g2 : NqExec.G2 → VNet.G2
  | .cnot => .CNOT | .cphase => .CPHASE

/-- `cmd_reset` (executioner.py:270-280) as the operations it issues: in-place measurement, X if the outcome is 1 -/
def resetOps (h : Nat) (o : Bool) : List Op := .measure h true o :: (if o then [.gate1 h .X] else [])

/-! ### what happens to the node of the interpreter model, event by event -/

/-- node-level events of a history: an operation the QNodeOS issues, or a pair half delivered by a
peer (which gets token `t` in the interpreter model) -/
inductive NEv where
  | op (o : TOp)
  | arrive (sock sender : Int) (t : Nat)
  deriving DecidableEq, Repr

/-- the node of the interpreter model after an event; `none`: the event is not possible in this state -/
def nodeEv (n : NqExec.Node) : NEv → Option NqExec.Node
  | .op (.new t) =>
    if n.held.length < n.cap ∧ t = n.next then some { n with held := n.held ++ [t], next := n.next + 1 } else none
  | .op (.gate1 g t) => if t ∈ n.held ∧ g.supported = true then some n else none
  | .op (.gate2 _ a b) => if a ∈ n.held ∧ b ∈ n.held ∧ a ≠ b then some n else none
  | .op (.meas t ip _) => if t ∈ n.held then some (if ip then n else n.drop t) else none
  | .op (.send t ok) => if t ∈ n.held then some (if ok then n.drop t else n) else none
  | .op (.claim _) => some n
  | .arrive _ _ t =>
    if n.held.length < n.cap ∧ t = n.next then some { n with held := n.held ++ [t], next := n.next + 1 } else none

def nodeEvs (n : NqExec.Node) : List NEv → Option NqExec.Node
  | [] => some n
  | e :: es => (nodeEv n e).bind fun n' => nodeEvs n' es

/-- the node without its receive queue (the queue is not part of the base network) -/
def core (n : NqExec.Node) : NqExec.Node := { n with inbox := [] }

/-- the events of one backend request: its operations; an accepted arrival -/
def evsOf (c : CQ) (req : QReq) (o : QOut CQ) : List NEv :=
  match req with
  | .arrive s d => if o.res = .ok none then [.arrive s d c.node.next] else []
  | _ => o.ops.map .op

/-! ### the driver -/

inductive Disc where
  | regLimitNew | regLimitGate | sendAnswer | peer | noHandle | other
  deriving DecidableEq, Repr

structure Drv where
  net : Net
  hm : List (Nat × Nat)        -- NqExec token ↦ handle held at node i, in the order of the node's list
  sched : List (List Op)       -- what the other nodes do before each request of this node
  disc : Option Disc           -- the first disagreement
  deriving DecidableEq, Repr

def Drv.fail (d : Drv) (x : Disc) : Drv := { d with disc := some x }

def lookup (hm : List (Nat × Nat)) (t : Nat) : Option Nat := (hm.find? fun e => e.1 == t).map (·.2)
def eraseTok (hm : List (Nat × Nat)) (t : Nat) : List (Nat × Nat) := hm.eraseP fun e => e.1 == t

/-- one operation of the QNodeOS of node `i`, carried out on the network; EPR halves go to node `p` -/
def driveOp (i p : Nat) (d : Drv) : TOp → Drv
  | .new t =>
    match step d.net (.new i) with
    | (s', .handle h, _) => { d with net := s', hm := d.hm ++ [(t, h)] }
    | (_, .err .quantum, _) => d.fail .regLimitNew
    | _ => d.fail .other
  | .gate1 g t =>
    match lookup d.hm t with
    | none => d.fail .noHandle
    | some h =>
      match step d.net (.gate1 h (g1 g)) with
      | (s', .unit, _) => { d with net := s' }
      | _ => d.fail .other
  | .gate2 g a b =>
    match lookup d.hm a, lookup d.hm b with
    | some ha, some hb =>
      match step d.net (.gate2 ha hb (g2 g)) with
      | (s', .unit, _) => { d with net := s' }
      | (_, .err .quantum, _) => d.fail .regLimitGate
      | _ => d.fail .other
    | _, _ => d.fail .noHandle
  | .meas t ip o =>
    match lookup d.hm t with
    | none => d.fail .noHandle
    | some h =>
      match step d.net (.measure h ip o) with
      | (s', .outcome _, _) => { d with net := s', hm := if ip then d.hm else eraseTok d.hm t }
      | _ => d.fail .other
  | .send t ok =>
    match lookup d.hm t with
    | none => d.fail .noHandle
    | some h =>
      match step d.net (.send h p), ok with
      | (s', .num _, _), true => { d with net := s', hm := eraseTok d.hm t }
      | (_, .err .noQubit, _), false => d               -- refused, as the environment said: nothing changed
      | (_, .num _, _), false => d.fail .sendAnswer
      | (_, .err .noQubit, _), true => d.fail .sendAnswer
      | (_, .err .virtNet, _), _ => d.fail .peer        -- there is no node `p`
      | (_, .selfSend, _), _ => d.fail .peer            -- `p` is node `i` itself
      | _, _ => d.fail .other
  | .claim _ => d      -- the QNodeOS takes a delivered half out of the receive queue: no node operation

/-- a peer delivers a pair half: node `sender` creates a qubit and sends it to node `i` -/
def driveArrive (i : Nat) (d : Drv) (sender t : Nat) : Drv :=
  match step d.net (.new sender) with
  | (s1, .handle h, _) =>
    match step s1 (.send h i) with
    | (s2, .num _, _) => { d with net := s2, hm := d.hm ++ [(t, s1.vqs.length)] }
    | _ => d.fail .peer
  | _ => d.fail .peer

def driveEv (i p : Nat) (d : Drv) (e : NEv) : Drv :=
  match d.disc with
  | some _ => d
  | none =>
    match e with
    | .op o => driveOp i p d o
    | .arrive _ sender t => driveArrive i d sender.toNat t

/-! ### the other nodes -/

/-- an operation that is not node `i`'s and does not deliver to it -/
def foreignH (s : Net) (i h : Nat) : Bool :=
  match s.vqs[h]? with
  | some v => v.virtNode != i
  | none => true

def foreign (s : Net) (i : Nat) : Op → Bool
  | .new a => a != i
  | .gate1 h _ => foreignH s i h
  | .gate2 hc ht _ => foreignH s i hc && foreignH s i ht
  | .send h b => foreignH s i h && b != i
  | .measure h _ _ => foreignH s i h

/-- run a batch of operations of the other nodes (operations that are node `i`'s are skipped) -/
def envRun (i : Nat) (s : Net) : List Op → Net
  | [] => s
  | op :: ops => envRun i (if foreign s i op then (step s op).1 else s) ops

def envStep (i : Nat) (d : Drv) : Drv :=
  match d.disc, d.sched with
  | none, b :: rest => { d with net := envRun i d.net b, sched := rest }
  | _, _ => d

/-! ### the joint machine -/

structure JSt where
  c : CQ
  d : Drv

/-- the concrete backend of NqExec, with the network behind its node carried along -/
def jointQ (i p : Nat) (j : JSt) (req : QReq) (env : Env) : QOut JSt :=
  let o := j.c.q req env
  ⟨⟨o.st, (evsOf j.c req o).foldl (driveEv i p) (envStep i j.d)⟩, o.env, o.ops, o.res⟩

def joint (i p : Nat) : Backend JSt := ⟨jointQ i p⟩

/-- NqExec token ↦ handle ↦ the token the engines see -/
def Drv.tokMap (d : Drv) : List (Nat × Option Nat) := d.hm.map fun e => (e.1, tokOf d.net e.2)

/-- the node of the interpreter model and node `i` of the network agree: same limit, and the tokens
held correspond one to one, in order, to the handles held -/
structure Coupled (i : Nat) (n : NqExec.Node) (d : Drv) : Prop where
  cap : n.cap = capAt d.net i
  toks : d.hm.map (·.1) = n.held
  hdls : d.hm.map (·.2) = heldAt d.net i

/-- a fresh driver state for a network in which node `i` holds nothing -/
def Drv.init (s : Net) (sched : List (List Op)) : Drv := { net := s, hm := [], sched := sched, disc := none }

/-! ### the register side of node `i` (what C11's model does not have) -/

/-- held handles, anywhere in the network, whose qubit is simulated at node `i` -/
def simulatedAt (s : Net) (i : Nat) : List Nat :=
  (VNet.allHeld s).filter fun h =>
    match s.vqs[h]? with
    | some v => v.simNode == i
    | none => false

end SqVerif.NqVNet

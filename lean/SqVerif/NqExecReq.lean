import SqVerif.NqExecInv
/-
L5 — every request of the concrete backend preserves the invariant `Inv`.
Core Lean only.
-/
namespace SqVerif.NqExec

open List

variable {F : List Nat} {ext : Nat}

theorem physOf_cases {k : Int} {p : Nat} (h : physOf k = p) : k = (p : Int) ∨ k = -(1 + (p : Int)) := by
  unfold physOf at h
  split at h <;> omega

/-- the state after a successful `cmd_new` -/
def CQ.registered (c : CQ) (k : Int) : CQ :=
  { c with node := { c.node with held := c.node.held ++ [c.node.next], next := c.node.next + 1 },
           qlist := aSet c.qlist k c.node.next }

theorem CQ.cmdNew_eq (c : CQ) (k : Int) :
    c.cmdNew k = if c.node.held.length ≥ c.node.cap then none else some (c.registered k, c.node.next) := by
  unfold CQ.cmdNew Node.new CQ.registered
  by_cases h : c.node.held.length ≥ c.node.cap <;> simp [h]

theorem CQ.cmdNew_some {c c' : CQ} {k : Int} {t : Nat} (h : c.cmdNew k = some (c', t)) :
    c' = c.registered k ∧ t = c.node.next := by
  rw [CQ.cmdNew_eq] at h
  split at h
  · cases h
  · cases h; exact ⟨rfl, rfl⟩

theorem Inv.registered {c : CQ} (h : Inv F ext c) {k : Int} (hk : k ∉ keys c.qlist) (hp : physOf k ∈ c.used)
    (hkneg : ∀ p ∈ mapped c, (-(1 + (p : Int))) ≠ k) : Inv F ext (c.registered k) :=
  h.reg hk hp hkneg

theorem keys_aSet_of_not_mem {l : List (Int × Nat)} {k : Int} (v : Nat) (h : k ∉ keys l) :
    keys (aSet l k v) = keys l ++ [k] := by
  rw [aSet_of_not_mem _ h, keys_append]; rfl

theorem mem_keys_aSet {l : List (Int × Nat)} {k k' : Int} (v : Nat) : k' ∈ keys (aSet l k v) ↔ (k' ∈ keys l ∧ k' ≠ k) ∨ k' = k := by
  unfold aSet
  rw [keys_append, mem_append, keys_aDel, mem_filter]
  simp [keys]

theorem Inv.initApp {c : CQ} (h : Inv F ext c) (m : Nat) (env : Env) : Inv F ext (c.initApp m env).st := by
  unfold CQ.initApp
  split
  · exact h
  · exact h.initUm m

theorem Inv.stopLoop : ∀ (ps : List (Nat × Bool)) (c : CQ) (ops : List TOp), Inv F ext c → c.um = none → (ps.map (·.1)).Nodup →
    (∀ p : Nat, p ∈ ps.map (·.1) → (-(1 + (p : Int))) ∉ keys c.qlist) → Inv F ext (c.stopLoop ps ops).1
  | [], c, ops, h, _, _, _ => h
  | (p, o) :: ps, c, ops, h, hum, hn, hneg => by
    have hmap : mapped c = [] := by simp [mapped, hum]
    have hneg_p := hneg p (by simp)
    unfold CQ.stopLoop
    split
    · exact h
    · dsimp only
      split
      · rename_i hg
        apply h.unuse p (by simp [hmap])
        intro k hk hph
        rcases physOf_cases hph with e | e
        · subst e
          have := aGet_isSome_of_mem_keys hk
          rw [show aGet c.qlist (p : Int) = none from hg] at this; cases this
        · subst e; exact hneg_p hk
      · rename_i t hg
        have h1 := h.kill (k := (p : Int)) (t := t) hg (by simp [hmap])
        have h2 := h1.unuse p (by simp [mapped, hum]) (by
          intro k hk hph
          rw [show ({ c with node := c.node.drop t, qlist := aDel c.qlist (p : Int) } : CQ).qlist = aDel c.qlist (p : Int) from rfl,
              keys_aDel, mem_filter] at hk
          rcases physOf_cases hph with e | e
          · subst e; simp at hk
          · subst e; exact hneg_p hk.1)
        simp only [map_cons, nodup_cons] at hn
        apply Inv.stopLoop ps _ _ h2 hum hn.2
        intro q hq hk
        rw [show ({ ({ c with used := c.used.erase p } : CQ) with node := c.node.drop t, qlist := aDel c.qlist (p : Int) } : CQ).qlist
              = aDel c.qlist (p : Int) from rfl, keys_aDel, mem_filter] at hk
        exact hneg q (by simp only [map_cons, mem_cons]; exact Or.inr hq) hk.1

theorem map_fst_zip_of_le {α β : Type} : ∀ (l : List α) (m : List β), l.length ≤ m.length → (l.zip m).map (·.1) = l
  | [], _, _ => by simp
  | a :: l, [], h => by simp at h
  | a :: l, b :: m, h => by
    simp only [zip_cons_cons, map_cons, length_cons] at h ⊢
    rw [map_fst_zip_of_le l m (by omega)]

theorem Inv.stopApp {c : CQ} (h : Inv F ext c) (env : Env) : Inv F ext (c.stopApp env).st := by
  unfold CQ.stopApp
  split
  · exact h
  · rename_i um hum
    dsimp only
    split
    · exact h
    · rename_i hlen
      have hz : ((um.filterMap id).zip env.outs).map (·.1) = um.filterMap id :=
        map_fst_zip_of_le _ _ (by omega)
      apply Inv.stopLoop _ _ _ h.clearUm rfl
      · rw [hz]; have := h.mapped_nodup; simpa [mapped, hum] using this
      · rw [hz]; intro p hp
        exact h.neg_keys p (by simpa [mapped, hum] using hp)

theorem Inv.arriveReq {c : CQ} (h : Inv F ext c) (s d : Int) (env : Env) : Inv F ext (c.arrive s d env).st := by
  unfold CQ.arrive
  split
  · exact h
  · exact h.arrive s d

theorem neg_ne_ofNat (p q : Nat) : (-(1 + (p : Int))) ≠ (q : Int) := by omega

theorem Inv.alloc {c : CQ} (h : Inv F ext c) (v : Int) (env : Env) : Inv F ext (c.alloc v env).st := by
  unfold CQ.alloc
  split
  · exact h
  · rename_i um hum
    split
    · exact h
    · exact h
    · rename_i i hs
      have hi := slotGet_empty hs
      have hfree := firstFree_not_mem c.used
      obtain ⟨hk1, hk2⟩ := h.not_key_of_not_used hfree
      dsimp only
      split
      · exact h
      · rename_i c' t hc
        obtain ⟨rfl, rfl⟩ := CQ.cmdNew_some hc
        have h1 := h.use (firstFree c.used)
        have h2 := h1.registered (k := (firstFree c.used : Int)) hk1 (by rw [physOf_ofNat]; exact mem_cons_self)
          (fun p _ => neg_ne_ofNat p _)
        have h3 := h2.mapSlot (um := um) hum hi (h.not_mapped_of_not_used hfree) mem_cons_self
          (by show _ ∈ keys (aSet _ _ _); rw [mem_keys_aSet]; exact Or.inr rfl)
          (by show _ ∉ keys (aSet _ _ _); rw [mem_keys_aSet]; intro hh; rcases hh with hh | hh
              · exact hk2 hh.1
              · exact neg_ne_ofNat _ _ hh)
        exact h3

theorem Inv.initReq {c : CQ} (h : Inv F ext c) (v : Int) (env : Env) : Inv F ext (c.init v env).st := by
  unfold CQ.init
  split
  · exact h
  · split <;> exact h

theorem Inv.gate1 {c : CQ} (h : Inv F ext c) (g : G1) (v : Int) (env : Env) : Inv F ext (c.gate1 g v env).st := by
  unfold CQ.gate1
  split
  · exact h
  · split <;> exact h

theorem Inv.gate2 {c : CQ} (h : Inv F ext c) (g : G2) (v w : Int) (env : Env) : Inv F ext (c.gate2 g v w env).st := by
  unfold CQ.gate2
  split
  · split <;> exact h
  · exact h

theorem Inv.meas {c : CQ} (h : Inv F ext c) (v : Int) (env : Env) : Inv F ext (c.meas v env).st := by
  unfold CQ.meas
  split
  · exact h
  · split <;> exact h

theorem Inv.free {c : CQ} (h : Inv F ext c) (v : Int) (env : Env) : Inv F ext (c.free v env).st := by
  unfold CQ.free
  split
  · exact h
  · rename_i um hum
    split
    · exact h
    · exact h
    · rename_i i p hs
      have hi := slotGet_full hs
      have hpm : p ∈ mapped c := by simp only [mapped, hum, Option.getD_some]; exact mem_filterMap_of_getElem? hi
      have hneg := h.neg_keys p hpm
      have h0 := h.unmapSlot hum hi
      have hnm := not_mapped_after_unmap h hum hi
      split
      · exact h
      · dsimp only
        split
        · exact h0
        · split
          · rename_i hg
            exfalso
            have := aGet_isSome_of_mem_keys (h.mapped_ql p hpm)
            rw [show aGet c.qlist (p : Int) = none from hg] at this; cases this
          · rename_i t hg
            have h1 := h0.kill (k := (p : Int)) (t := t) hg (by
              intro q hq e
              have : q = p := by exact_mod_cast e
              subst this; exact hnm hq)
            have h2 := h1.unuse p hnm (by
              intro k hk hph
              rw [show ({ ({ c with um := some (um.set i none) } : CQ) with
                    node := c.node.drop t, qlist := aDel c.qlist (p : Int) } : CQ).qlist = aDel c.qlist (p : Int) from rfl,
                  keys_aDel, mem_filter] at hk
              rcases physOf_cases hph with e | e
              · subst e; simp at hk
              · subst e; exact hneg hk.1)
            exact h2

/-- the hand-over of a delivered pair to the unit module -/
theorem Inv.handOver {c : CQ} (h : Inv F ext c) {q : Nat} (bad : Bool) (v : Option Int) (hq : q ∉ mapped c) (hu : q ∈ c.used)
    (hk : (q : Int) ∈ keys c.qlist) (hneg : (-(1 + (q : Int))) ∉ keys c.qlist) : Inv F ext (c.handOver q bad v).2 := by
  unfold CQ.handOver
  split
  · exact h.leak 1
  split
  · rename_i v um hum
    split
    · exact h.leak 1
    · split <;> exact h.leak 1
    · rename_i i hs
      exact h.mapSlot hum (slotGet_empty hs) hq hu hk hneg
  · exact h.leak 1

theorem Inv.eprCreate {c : CQ} (h : Inv F ext c) (ok bad : Bool) (v : Option Int) (env : Env) :
    Inv F ext (c.eprCreate ok bad v env).st := by
  have hfree := firstFree_not_mem c.used
  obtain ⟨hk1, hk2⟩ := h.not_key_of_not_used hfree
  have hnm := h.not_mapped_of_not_used hfree
  have h1 := h.use (firstFree c.used)
  unfold CQ.eprCreate
  dsimp only
  split
  · exact h1
  · split
    · exact h1
    · rename_i c2 t1 hc2
      obtain ⟨rfl, rfl⟩ := CQ.cmdNew_some hc2
      have h2 := h1.registered (k := (firstFree c.used : Int)) hk1 (by rw [physOf_ofNat]; exact mem_cons_self)
        (fun p _ => neg_ne_ofNat p _)
      split
      · exact h2.leak 1
      · rename_i c3 t2 hc3
        obtain ⟨rfl, rfl⟩ := CQ.cmdNew_some hc3
        have hk2' : (-(1 + (firstFree c.used : Int))) ∉ keys (aSet c.qlist (firstFree c.used : Int) c.node.next) := by
          rw [mem_keys_aSet]; intro hh; rcases hh with hh | hh
          · exact hk2 hh.1
          · exact neg_ne_ofNat _ _ hh
        have h3 := h2.registered (k := -(1 + (firstFree c.used : Int))) hk2' (by rw [physOf_neg]; exact mem_cons_self)
          (by intro p hp e
              have : p = firstFree c.used := by omega
              subst this; exact hnm hp)
        split
        · exact h3.leak 2
        · split
          · exact h3.leak 2
          · have h4 := h3.kill (k := -(1 + (firstFree c.used : Int))) (t := c.node.next + 1)
              (aGet_aSet_self _ _ _) (by intro p _; omega)
            apply Inv.handOver h4 bad v hnm mem_cons_self
            · show _ ∈ keys (aDel (aSet (aSet _ _ _) _ _) _)
              rw [keys_aDel, mem_filter]
              refine ⟨?_, by simpa using (neg_ne_ofNat _ _).symm⟩
              rw [mem_keys_aSet]; left
              exact ⟨by rw [mem_keys_aSet]; exact Or.inr rfl, (neg_ne_ofNat _ _).symm⟩
            · show _ ∉ keys (aDel (aSet (aSet _ _ _) _ _) _)
              rw [keys_aDel, mem_filter]; simp

theorem Inv.eprRecv {c : CQ} (h : Inv F ext c) (s r : Int) (bad : Bool) (v : Option Int) (env : Env) :
    Inv F ext (c.eprRecv s r bad v env).st := by
  have hfree := firstFree_not_mem c.used
  obtain ⟨hk1, hk2⟩ := h.not_key_of_not_used hfree
  have hnm := h.not_mapped_of_not_used hfree
  have h1 := h.use (firstFree c.used)
  unfold CQ.eprRecv
  dsimp only
  split
  · exact h1
  · rename_i s' sender t hf
    have hmem : (s', sender, t) ∈ c.node.inbox := mem_of_find?_eq_some hf
    split
    · rename_i hsome
      exfalso
      rw [aGet_eq_none_of_not_mem hk1] at hsome
      cases hsome
    · have h3 := h1.claim (e := (s', sender, t)) hmem (k := (firstFree c.used : Int)) hk1
        (by rw [physOf_ofNat]; exact mem_cons_self) (fun p _ => neg_ne_ofNat p _)
      split
      · exact h3.leak 1
      · apply Inv.handOver h3 bad v hnm mem_cons_self
        · show _ ∈ keys (aSet _ _ _); rw [mem_keys_aSet]; exact Or.inr rfl
        · show _ ∉ keys (aSet _ _ _); rw [mem_keys_aSet]; intro hh; rcases hh with hh | hh
          · exact hk2 hh.1
          · exact neg_ne_ofNat _ _ hh

/-- every request of the concrete backend preserves the invariant -/
theorem Inv.q {c : CQ} (h : Inv F ext c) (req : QReq) (env : Env) : Inv F ext (c.q req env).st := by
  cases req with
  | initApp m => exact h.initApp m env
  | stopApp => exact h.stopApp env
  | arrive s d => exact h.arriveReq s d env
  | alloc v => exact h.alloc v env
  | init v => exact h.initReq v env
  | gate1 g v => exact h.gate1 g v env
  | gate2 g v w => exact h.gate2 g v w env
  | meas v => exact h.meas v env
  | free v => exact h.free v env
  | eprCreate ok bad v => exact h.eprCreate ok bad v env
  | eprRecv s r bad v => exact h.eprRecv s r bad v env

end SqVerif.NqExec

import SqVerif.FramingErr
import SqVerif.FramingLemmas
/-
Helper lemmas for the failure extension of C10 (`Props/C10Err.lean`).
Two ideas: (1) forgetting the Error replies and the outcomes maps the node with failures onto the
node of `Framing.lean`, step by step — so framing, routing and the Done bookkeeping are inherited;
(2) `written` is always the concatenation of the reply rule over the log of handler ends.
-/
namespace SqVerif.Framing

variable {ok : Bytes → Bool}

/-! ### (1) forgetting failures -/

def doneOnly (ws : List Wr) : List (Nat × Nat × Nat) :=
  ws.filterMap (fun w => w.2.2.doneId?.map (fun i => (w.1, w.2.1, i)))

theorem doneOnly_append (a b : List Wr) : doneOnly (a ++ b) = doneOnly a ++ doneOnly b := by
  simp [doneOnly, List.filterMap_append]

theorem doneOnly_repliesOf (c : Nat) (f : Bytes) (o : Outcome) :
    doneOnly (repliesOf c f o) = [(c, c, (msgOf f).id)] := by
  cases o <;> rfl

theorem finish_forget (c : Nat) (f : Bytes) (o : Outcome) (s : NodeE) :
    (s.finish repliesOf c f o).forget =
      { s.forget with written := s.forget.written ++ [(c, c, (msgOf f).id)] } := by
  simp only [NodeE.finish, NodeE.forget]
  congr 1
  exact (doneOnly_append _ _).trans (by rw [doneOnly_repliesOf]; rfl)

theorem handle_forget (async : Bytes → Bool) (outcome : Bytes → Outcome) (c : Nat) (s : NodeE) (f : Bytes) :
    (NodeE.handle repliesOf async outcome c s f).forget = Node.handle async c s.forget f := by
  unfold NodeE.handle Node.handle
  by_cases h : async f = true
  · simp only [h, if_true]; rfl
  · simp only [h, if_false, Bool.false_eq_true]
    rw [finish_forget]; rfl

theorem foldl_handle_forget (async : Bytes → Bool) (outcome : Bytes → Outcome) (c : Nat) (fs : List Bytes)
    (s : NodeE) :
    (fs.foldl (NodeE.handle repliesOf async outcome c) s).forget =
      fs.foldl (Node.handle async c) s.forget := by
  induction fs generalizing s with
  | nil => rfl
  | cons f fs ih => rw [List.foldl_cons, List.foldl_cons, ih, handle_forget]

theorem step_forget (async : Bytes → Bool) (outcome : Bytes → Outcome) (s : NodeE) (e : EvE) :
    (stepE ok async outcome s e).forget = step ok async s.forget e.forget := by
  cases e with
  | connect => rfl
  | data c chunk =>
    show (stepG repliesOf ok async outcome s (.data c chunk)).forget = step ok async s.forget (.data c chunk)
    simp only [stepG, step]
    have hb : s.forget.bufs = s.bufs := rfl
    rw [hb]
    cases s.bufs[c]? with
    | none => rfl
    | some b =>
      simp only
      rw [foldl_handle_forget]
      rfl
  | complete k o =>
    show (stepG repliesOf ok async outcome s (.complete k o)).forget = step ok async s.forget (.complete k)
    simp only [stepG, step]
    have hp : s.forget.pending = s.pending := rfl
    rw [hp]
    cases s.pending[k]? with
    | none => rfl
    | some p =>
      obtain ⟨c, f⟩ := p
      simp only
      rw [finish_forget]
      rfl

theorem run_forget (async : Bytes → Bool) (outcome : Bytes → Outcome) (evs : List EvE) (s : NodeE) :
    (runE ok async outcome s evs).forget = run ok async s.forget (evs.map EvE.forget) := by
  induction evs generalizing s with
  | nil => rfl
  | cons e evs ih =>
    show (runG repliesOf ok async outcome (stepG repliesOf ok async outcome s e) evs).forget = _
    rw [List.map_cons]
    show _ = run ok async (step ok async s.forget e.forget) (evs.map EvE.forget)
    rw [← step_forget]
    exact ih _

theorem runG_append (rep : ReplyRule) (async : Bytes → Bool) (outcome : Bytes → Outcome) (s : NodeE)
    (e1 e2 : List EvE) :
    runG rep ok async outcome s (e1 ++ e2) = runG rep ok async outcome (runG rep ok async outcome s e1) e2 := by
  simp [runG, List.foldl_append]

theorem dataFor_forget (c : Nat) (evs : List EvE) : dataFor c (evs.map EvE.forget) = dataForE c evs := by
  induction evs with
  | nil => rfl
  | cons e evs ih =>
    cases e with
    | connect => simpa [dataFor, dataForE, EvE.forget] using ih
    | data c' chunk =>
      by_cases h : c' = c <;> simp [dataFor, dataForE, EvE.forget, h, ih]
    | complete k o => simpa [dataFor, dataForE, EvE.forget] using ih

/-- counting the Dones with a given id: the same before and after forgetting the Errors -/
theorem countP_doneOnly (ws : List Wr) (c i : Nat) :
    (doneOnly ws).countP (fun w => w.1 == c && w.2.2 == i) =
      ws.countP (fun w => w.1 == c && w.2.2 == Reply.done i) := by
  induction ws with
  | nil => rfl
  | cons w ws ih =>
    obtain ⟨a, b, r⟩ := w
    cases r with
    | error =>
      have h1 : doneOnly ((a, b, Reply.error) :: ws) = doneOnly ws := rfl
      rw [h1, ih, List.countP_cons]
      have : ((a, b, Reply.error).1 == c && (a, b, Reply.error).2.2 == Reply.done i) = false := by
        simp
      simp [this]
    | done j =>
      have h1 : doneOnly ((a, b, Reply.done j) :: ws) = (a, b, j) :: doneOnly ws := rfl
      rw [h1, List.countP_cons, List.countP_cons, ih]
      have : ((a, b, Reply.done j).1 == c && (a, b, Reply.done j).2.2 == Reply.done i) =
          ((a, b, j).1 == c && (a, b, j).2.2 == i) := by
        by_cases hj : j = i
        · simp [hj]
        · have e1 : (Reply.done j == Reply.done i) = false := by
            apply beq_eq_false_iff_ne.mpr
            intro h; cases h; exact hj rfl
          have e2 : (j == i) = false := beq_eq_false_iff_ne.mpr hj
          simp only [e1, e2]
      rw [this]

/-! ### (2) replies follow the ends of handlers -/

/-- the invariant behind `failed_message_is_answered`; holds for every reply rule -/
structure Answered (rep : ReplyRule) (async : Bytes → Bool) (outcome : Bytes → Outcome) (s : NodeE) : Prop where
  /-- what has been written = the reply rule applied to every end of a handler, in order -/
  written : s.written = s.finished.flatMap (fun e => rep e.1 e.2.1 e.2.2)
  /-- every call of the handler has ended at most once; exactly once unless still suspended -/
  once : ∀ c f, s.finished.countP (fun e => e.1 == c && e.2.1 == f) +
                s.pending.countP (fun p => p.1 == c && p.2 == f) =
                s.handled.countP (fun p => p.1 == c && p.2 == f)
  /-- only handlers that suspend are suspended -/
  pend : ∀ p ∈ s.pending, async p.2 = true
  /-- a handler that does not suspend ends the way `outcome` says -/
  sync : ∀ e ∈ s.finished, async e.2.1 = false → e.2.2 = outcome e.2.1

theorem handle_answered (rep : ReplyRule) (async : Bytes → Bool) (outcome : Bytes → Outcome) (c : Nat)
    (s : NodeE) (f : Bytes) (h : Answered rep async outcome s) :
    Answered rep async outcome (NodeE.handle rep async outcome c s f) := by
  unfold NodeE.handle
  by_cases ha : async f = true
  · simp only [ha, if_true]
    refine ⟨h.written, ?_, ?_, h.sync⟩
    · intro c' f'
      have := h.once c' f'
      simp only [List.countP_append, List.countP_cons, List.countP_nil]
      omega
    · intro p hp
      simp only [List.mem_append, List.mem_singleton] at hp
      rcases hp with hp | hp
      · exact h.pend p hp
      · subst hp; exact ha
  · simp only [ha, if_false, Bool.false_eq_true, NodeE.finish]
    refine ⟨?_, ?_, h.pend, ?_⟩
    · simp [h.written, List.flatMap_append]
    · intro c' f'
      have := h.once c' f'
      simp only [List.countP_append, List.countP_cons, List.countP_nil]
      omega
    · intro e he hae
      simp only [List.mem_append, List.mem_singleton] at he
      rcases he with he | he
      · exact h.sync e he hae
      · subst he; rfl

theorem foldl_handle_answered (rep : ReplyRule) (async : Bytes → Bool) (outcome : Bytes → Outcome) (c : Nat)
    (fs : List Bytes) (s : NodeE) (h : Answered rep async outcome s) :
    Answered rep async outcome (fs.foldl (NodeE.handle rep async outcome c) s) := by
  induction fs generalizing s with
  | nil => exact h
  | cons f fs ih => exact ih _ (handle_answered rep async outcome c s f h)

theorem step_answered (rep : ReplyRule) (async : Bytes → Bool) (outcome : Bytes → Outcome) (s : NodeE)
    (e : EvE) (h : Answered rep async outcome s) :
    Answered rep async outcome (stepG rep ok async outcome s e) := by
  cases e with
  | connect => exact ⟨h.written, h.once, h.pend, h.sync⟩
  | data c chunk =>
    simp only [stepG]
    split
    · exact h
    · exact foldl_handle_answered rep async outcome c _ _ ⟨h.written, h.once, h.pend, h.sync⟩
  | complete k o =>
    simp only [stepG]
    split
    · exact h
    · rename_i c f hk
      simp only [NodeE.finish]
      refine ⟨?_, ?_, ?_, ?_⟩
      · simp [h.written, List.flatMap_append]
      · intro c' f'
        have h1 := h.once c' f'
        have h2 := countP_eraseIdx (fun p => p.1 == c' && p.2 == f') s.pending k (c, f) hk
        simp only [List.countP_append, List.countP_cons, List.countP_nil] at h2 ⊢
        omega
      · intro p hp
        exact h.pend p (List.mem_of_mem_eraseIdx hp)
      · intro e he hae
        simp only [List.mem_append, List.mem_singleton] at he
        rcases he with he | he
        · exact h.sync e he hae
        · subst he
          have := h.pend (c, f) (List.mem_of_getElem? hk)
          simp only at hae this
          rw [this] at hae; cases hae

theorem run_answered (rep : ReplyRule) (async : Bytes → Bool) (outcome : Bytes → Outcome) (evs : List EvE)
    (s : NodeE) (h : Answered rep async outcome s) :
    Answered rep async outcome (runG rep ok async outcome s evs) := by
  induction evs generalizing s with
  | nil => exact h
  | cons e evs ih => exact ih _ (step_answered rep async outcome s e h)

theorem answered_init (rep : ReplyRule) (async : Bytes → Bool) (outcome : Bytes → Outcome) :
    Answered rep async outcome {} :=
  ⟨rfl, fun _ _ => rfl, fun _ hp => (by cases hp), fun _ he => (by cases he)⟩

/-! ### handlers that never suspend: replies in arrival order -/

theorem repliesOf_on (c c' : Nat) (f : Bytes) (o : Outcome) :
    ((repliesOf c' f o).filter (·.1 == c)).map (·.2.2) = if c' = c then answer o (msgOf f).id else [] := by
  by_cases h : c' = c
  · subst h; cases o <;> simp [repliesOf, answer]
  · cases o <;> simp [repliesOf, h]

theorem repliesOf_routed (c : Nat) (f : Bytes) (o : Outcome) : ∀ w ∈ repliesOf c f o, w.1 = c ∧ w.2.1 = c := by
  intro w hw
  cases o <;> simp [repliesOf] at hw <;> rcases hw with rfl | rfl <;> exact ⟨rfl, rfl⟩

/-- with `async = false` everywhere: the log of handler ends is the log of handler calls -/
def SyncInvE (outcome : Bytes → Outcome) (s : NodeE) : Prop :=
  s.pending = [] ∧ s.finished = s.handled.map (fun p => (p.1, p.2, outcome p.2))

theorem handle_syncE (outcome : Bytes → Outcome) (c : Nat) (s : NodeE) (f : Bytes) (h : SyncInvE outcome s) :
    SyncInvE outcome (NodeE.handle repliesOf (fun _ => false) outcome c s f) := by
  obtain ⟨h1, h2⟩ := h
  simp only [NodeE.handle, Bool.false_eq_true, if_false, NodeE.finish]
  exact ⟨h1, by simp [h2]⟩

theorem foldl_handle_syncE (outcome : Bytes → Outcome) (c : Nat) (fs : List Bytes) (s : NodeE)
    (h : SyncInvE outcome s) :
    SyncInvE outcome (fs.foldl (NodeE.handle repliesOf (fun _ => false) outcome c) s) := by
  induction fs generalizing s with
  | nil => exact h
  | cons f fs ih => exact ih _ (handle_syncE outcome c s f h)

theorem step_syncE (outcome : Bytes → Outcome) (s : NodeE) (e : EvE) (h : SyncInvE outcome s) :
    SyncInvE outcome (stepE ok (fun _ => false) outcome s e) := by
  cases e with
  | connect => exact h
  | data c chunk =>
    show SyncInvE outcome (stepG repliesOf ok (fun _ => false) outcome s (.data c chunk))
    simp only [stepG]
    split
    · exact h
    · exact foldl_handle_syncE outcome c _ _ h
  | complete k o =>
    show SyncInvE outcome (stepG repliesOf ok (fun _ => false) outcome s (.complete k o))
    simp only [stepG, h.1, List.getElem?_nil]
    exact h

theorem run_syncE (outcome : Bytes → Outcome) (evs : List EvE) (s : NodeE) (h : SyncInvE outcome s) :
    SyncInvE outcome (runE ok (fun _ => false) outcome s evs) := by
  induction evs generalizing s with
  | nil => exact h
  | cons e evs ih => exact ih _ (step_syncE outcome s e h)

/-- the replies on `c` of a list of handler ends, all answered by `repliesOf` -/
theorem replies_flatMap_on (outcome : Bytes → Outcome) (c : Nat) (l : List (Nat × Bytes)) :
    (((l.map (fun p => (p.1, p.2, outcome p.2))).flatMap (fun e => repliesOf e.1 e.2.1 e.2.2)).filter
        (·.1 == c)).map (·.2.2) =
      ((l.filter (·.1 == c)).map (·.2)).flatMap (fun f => answer (outcome f) (msgOf f).id) := by
  induction l with
  | nil => rfl
  | cons p l ih =>
    simp only [List.map_cons, List.flatMap_cons, List.filter_append, List.map_append]
    rw [ih, repliesOf_on]
    by_cases h : p.1 = c
    · simp [h]
    · simp [h]

/-! ### a bad frame -/

variable {sizeOf : Bytes → Option Nat}

/-- good frames followed by a complete frame that the deserialiser rejects: exactly the good ones
are handed over, then the read raises -/
theorem drain_goods_bad (hs : Stable sizeOf) (fs : List Bytes) (hfs : ∀ f ∈ fs, Good sizeOf ok f)
    (tail : Bytes) (ht : parseOne sizeOf ok tail = .malformed) :
    drain sizeOf ok (fs.flatten ++ tail) = ⟨fs, tail, true⟩ := by
  induction fs with
  | nil => simpa using drain_malformed ht
  | cons f fs ih =>
    have hp := parse_good_append (ok := ok) hs (hfs f (by simp)) (fs.flatten ++ tail)
    simp only [List.flatten_cons, List.append_assoc]
    rw [drain_frame hp, ih (fun g hg => hfs g (by simp [hg]))]

end SqVerif.Framing

"""C18 — settings persist across processes with the documented precedence
(simulaqron/settings.py).

Tie.  Random histories (set / rejected set / reset / reload / restart, with and
without a user override file, with and without a store left by earlier
sessions, values of every JSON type, documented and undocumented keys) are run
on the REAL class and on the Lean model `Settings` (driver `settings`):

  * mode "patched": the real `Config` object in this process, its two file
    paths redirected into a scratch directory by instance attributes set from
    outside; after every step a FRESH interpreter (`/venv/bin/python -c`, class
    attributes redirected to the same two files) constructs a settings object
    and prints every key;
  * mode "e2e": nothing patched at all — a private package directory (symlinks
    to the scratch copy plus its own `config/`) and a private HOME; every
    operation is its own interpreter (`from simulaqron.settings import
    simulaqron_settings`), as every `simulaqron set ...` CLI call is, and so is
    every reader.

Compared per step: outcome of the operation, memory of the writer, the store
file as parsed, outcome and every key of the fresh reader.

Oracle (independent of the Lean model): a last-writer table kept here.  A key
the user's file does not set must read back as the last value written through
the settings object (or its default after a reset, or what the old store had);
a key the user's file sets must read back as the user's value whenever the
stored `_read_user` switch is on; after a reset the store file itself must hold
every documented default; no operation on serialisable values may raise; every
later process must start.  While the stored switch is OFF the user's file must
have no influence at all: a fresh process reads, for every key the user's file
names too, exactly what the store holds (its default if the store does not name
it), and that is the last value written through the settings object — except
for a key whose stored value may stem from the user's file itself: a writer
that loaded its settings while overrides were still on holds the user's value
in memory and dumps it with its next write (the leak, outside the statement;
counted and noted).  The oracle tracks which keys that can be (`tainted`: set
at every load of the writer under a stored switch that is on, cleared by a
successful set of the key / a reset) and exempts only those.

CLI stage (harness/cli_cases.py, called at the end of run): histories of the
real commands `simulaqron set <key> <value>` (every settable key; documented,
ill-typed and borderline values), `get`, `set default`, `reset`, malformed
command lines, with and without user file / old store; one fresh interpreter
per command and a fresh reader after it; judged by the same Oracle (a rejected
command must leave the store untouched, `get` must print what a fresh process
reads, every later command must still start) and compared with the same
driver (a CLI process is `restart` + the operation)."""
import concurrent.futures as cf
import itertools
import json
import os
import shutil
import subprocess
import sys
import tempfile

from .. import core
from .. import cli_cases as cli    # CLI stage: the click commands `simulaqron set / get / reset`, one process per command
from ..gen import defaults as gendef

LEAN_TARGETS = ["SqVerif.Props.C18"]
PROPS_FILE = "SqVerif/Props/C18.lean"
DRIVE_TARGETS = ["SqVerif.Drive.Settings"]
GEN_FILE = os.path.join(core.LEAN_DIR, "SqVerif", "Gen", "Defaults.lean")
SETTINGS_PY = os.path.join("simulaqron", "settings.py")
PYTHON = "/venv/bin/python"

TRUSTED = [
    "model Settings.lean hand-written from settings.py:50-132; tied by differential execution (this check)",
    "harness/gen/defaults.py (AST translator of the default table) — its output is the model driver's default "
    "table, so a wrong table shows as a correspondence break",
    "a value is represented by its canonical JSON text; Python truthiness of `_read_user` is modelled on that text",
    "mode patched: redirecting the two file paths by attributes does not change the behaviour of Config "
    "(cross-checked by mode e2e, which patches nothing)",
    "CLI stage (harness/cli_cases.py): every `simulaqron set/get/reset` command is a fresh interpreter on the console entry "
    "point in a private installation directory + HOME; the package `daemons` (not installed here) is a recording stand-in "
    "(harness/cli_shims); the table of documented value types per key (cli_cases.SETTABLE) and the translation command -> "
    "model operation (process = restart, set default / reset = reset) are hand-written there",
]
ASSUMPTIONS = [
    "one writer at a time: a settings object, or a succession of processes each taking over from the previous one, "
    "plus any number of fresh readers (two long-lived writers overwrite each other's keys: set dumps all of memory)",
    "the user's override file, if present, is a JSON object and does not change during a history",
    "values are JSON values (None/bool/int/float/str/list/dict with string keys); a value json cannot serialise "
    "must be rejected without damage, which is checked",
    "no crash or power loss in the middle of a file write",
]

DOC_KEYS_FALLBACK = ["_read_user", "max_qubits", "t1"]
BAD_KINDS = ["enum", "set", "bytes", "object", "complex", "nested-enum"]
BAD_SRC = ("{'enum': SimBackend.PROJECTQ, 'set': {1, 2}, 'bytes': b'x', 'object': object(), 'complex': 1j, "
           "'nested-enum': {'a': [SimBackend.QUTIP]}}")

_OUTCOME = ("def _oc(e):\n"
            "    return 'KeyError' if isinstance(e, KeyError) else 'TypeError' if isinstance(e, TypeError) "
            "else 'crash:' + type(e).__name__\n")

PATCHED_READER = _OUTCOME + r'''
import sys, json
try:
    from simulaqron.settings import Config
    Config._internal_settings_file, Config._user_settings_file = sys.argv[1], sys.argv[2]
    Config._config = {}
    c = Config()
    out = {"outcome": "ok", "config": c._config,
           "props": {k: getattr(c, k) for k in Config._default_config if isinstance(getattr(Config, k, None), property)}}
except BaseException as e:
    out = {"outcome": _oc(e), "detail": str(e)[:200]}
print(json.dumps(out))
'''

E2E_READER = _OUTCOME + r'''
import sys, json
try:
    from simulaqron.settings import simulaqron_settings as c, Config
    out = {"outcome": "ok", "config": c._config, "files": [Config._internal_settings_file, Config._user_settings_file],
           "props": {k: getattr(c, k) for k in Config._default_config if isinstance(getattr(Config, k, None), property)}}
except BaseException as e:
    out = {"outcome": _oc(e), "detail": str(e)[:200]}
print(json.dumps(out))
'''

E2E_WRITER = _OUTCOME + r'''
import sys, json
op = json.loads(sys.argv[1])
try:
    from simulaqron.settings import simulaqron_settings as c, Config, SimBackend
except BaseException as e:
    print(json.dumps({"boot": _oc(e), "detail": str(e)[:200]}))
    sys.exit(0)
out = {"boot": "ok"}
try:
    if op[0] in ("set", "setbad"):
        value = op[2] if op[0] == "set" else ''' + BAD_SRC + r'''[op[2]]
        if op[1] in Config._default_config:
            setattr(c, op[1], value)
        else:
            c._set_setting(op[1], value)
    elif op[0] == "reset":
        c.default_settings()
    elif op[0] == "reload":
        c.update_settings()
    out["outcome"] = "ok"
except BaseException as e:
    out["outcome"] = _oc(e)
    out["detail"] = str(e)[:200]
out["config"] = json.loads(json.dumps(c._config, default=lambda o: "<unserialisable>"))
print(json.dumps(out))
'''


def outcome_of(e):
    if isinstance(e, KeyError):
        return "KeyError"
    if isinstance(e, TypeError):
        return "TypeError"
    return "crash:" + type(e).__name__


# --------------------------------------------------------------------------
# gen
# --------------------------------------------------------------------------

def gen(ctx):
    facts, changed = gendef.generate(os.path.join(core.REPO, SETTINGS_PY), GEN_FILE)
    ctx.c18_facts = facts
    return {
        "obligations": 0,     # the obligations on the generated table are theorems of Props/C18.lean (counted there)
        "generated_file": "lean/SqVerif/Gen/Defaults.lean",
        "regenerated_differs_from_previous_run": changed,
        "default_keys": [k for k, _ in facts["defaults"]],
        "untranslated": facts["opaque"],
        "checked_by": ["translated_completely", "defaults_wf", "defaults_have_switch",
                       "reset_restores_documented_defaults", "documented_single_writer_history",
                       "user_value_leaks_when_disabled"],
        "source_digest": core.source_digest([SETTINGS_PY]),
    }


# --------------------------------------------------------------------------
# rendering shared by the two sides of the tie
# --------------------------------------------------------------------------

class Env:
    """everything a history needs; built once per run"""

    def __init__(self, scratch, S, facts):
        self.scratch, self.S, self.facts = scratch, S, facts
        self.root = os.path.join(scratch, "c18")
        os.makedirs(self.root, exist_ok=True)
        self.bad = eval(BAD_SRC, {"SimBackend": S.SimBackend})
        self.doc_keys = list(S.Config._default_config.keys())
        self.subenv = dict(os.environ, PYTHONPATH=scratch, PYTHONDONTWRITEBYTECODE="1")

    def newdir(self):
        return tempfile.mkdtemp(prefix="h", dir=self.root)


def show_dict(d, sym):
    if not d:
        return "-"
    items = sorted((gendef.enc_key(k), enc(v, sym)) for k, v in d.items())
    return " ".join("%s=%s" % kv for kv in items)


def enc(v, sym):
    if isinstance(v, str) and v in sym:
        v = sym[v]
    try:
        return gendef.enc_value(v)
    except (TypeError, ValueError):
        return "<unserialisable>"


def file_text(items):
    """JSON text of an object with the items as listed (a repeated key stays repeated)"""
    return "{" + ", ".join("%s: %s" % (json.dumps(k), json.dumps(v)) for k, v in items) + "}"


def file_words(items, sym):
    if items is None:
        return "absent"
    return " ".join(["present"] + ["%s %s" % (gendef.enc_key(k), enc(v, sym)) for k, v in items])


def read_store(path):
    """('absent'|'ok'|'corrupt', dict|None, bytes|None)"""
    if not os.path.exists(path):
        return "absent", None, None
    raw = open(path, "rb").read()
    try:
        d = json.loads(raw.decode())
        if not isinstance(d, dict):
            return "corrupt", None, raw
        return "ok", d, raw
    except ValueError:
        return "corrupt", None, raw


def show_store(state, d, sym):
    return "absent" if state == "absent" else "corrupt" if state == "corrupt" else show_dict(d, sym)


def spawn(env, script, args, cwd, extra_env=None):
    e = env.subenv if not extra_env else dict(env.subenv, **extra_env)
    p = subprocess.run([PYTHON, "-c", script, *args], cwd=cwd, env=e, capture_output=True, text=True, timeout=120)
    line = p.stdout.strip().split("\n")[-1] if p.stdout.strip() else ""
    try:
        return json.loads(line)
    except ValueError:
        return {"outcome": "crash:interpreter", "detail": (p.stderr or p.stdout)[-300:]}


# --------------------------------------------------------------------------
# the two implementations of "a writer"
# --------------------------------------------------------------------------

class Patched:
    """the real Config object in this process, files redirected by instance attributes"""

    def __init__(self, env, d):
        self.env, self.d = env, d
        self.store = os.path.join(d, "settings.json")
        self.user = os.path.join(d, "user.json")
        self.sym = gendef.symbolic_paths(env.facts, env.S.Config.config_folder)
        self.c = None
        self.last_mem = {}

    def boot(self):
        Config = self.env.S.Config
        c = Config.__new__(Config)
        c._internal_settings_file, c._user_settings_file, c._config = self.store, self.user, {}
        try:
            c.__init__()
        except BaseException as e:
            self.c = None
            self.last_mem = dict(c._config)
            return outcome_of(e), str(e)[:200]
        self.c = c
        return "ok", ""

    def do(self, op):
        if op[0] == "restart":
            return self.boot()
        c = self.c
        try:
            if op[0] in ("set", "setbad"):
                value = op[2] if op[0] == "set" else self.env.bad[op[2]]
                if op[1] in self.env.doc_keys:
                    setattr(c, op[1], value)              # the public way: `simulaqron_settings.key = value`
                else:
                    c._set_setting(op[1], value)          # undocumented key
            elif op[0] == "reset":
                c.default_settings()
            elif op[0] == "reload":
                c.update_settings()
            return "ok", ""
        except BaseException as e:
            return outcome_of(e), str(e)[:200]

    def mem(self):
        return dict(self.c._config) if self.c is not None else self.last_mem

    def reader(self):
        return spawn(self.env, PATCHED_READER, [self.store, self.user], self.d)


class E2E:
    """nothing patched: a private package directory and HOME; every operation is its own interpreter"""

    def __init__(self, env, d):
        self.env, self.d = env, d
        pkg = os.path.join(d, "simulaqron")
        os.makedirs(os.path.join(pkg, "config"))
        src = os.path.join(env.scratch, "simulaqron")
        for n in os.listdir(src):
            if n not in ("config", "__pycache__"):
                os.symlink(os.path.join(src, n), os.path.join(pkg, n))
        self.home = os.path.join(d, "home")
        os.makedirs(self.home)
        self.store = os.path.join(pkg, "config", "settings.json")
        self.user = os.path.join(self.home, ".simulaqron.json")
        self.sym = gendef.symbolic_paths(env.facts, os.path.join(pkg, "config"))
        self.xenv = {"PYTHONPATH": d, "HOME": self.home}
        self.last = {}

    def boot(self):
        r = spawn(self.env, E2E_WRITER, [json.dumps(["noop"])], self.d, self.xenv)
        self.last = r.get("config", {})
        return r.get("boot", r.get("outcome", "crash:interpreter")), r.get("detail", "")

    def do(self, op):
        if op[0] == "restart":
            return self.boot()
        r = spawn(self.env, E2E_WRITER, [json.dumps(op)], self.d, self.xenv)
        self.last = r.get("config", {})
        if r.get("boot", "ok") != "ok":
            return "boot:" + r["boot"], r.get("detail", "")
        return r.get("outcome", "crash:interpreter"), r.get("detail", "")

    def mem(self):
        return self.last

    def reader(self):
        r = spawn(self.env, E2E_READER, [], self.d, self.xenv)
        if r.get("outcome") == "ok" and r.get("files") != [self.store, self.user]:
            r = {"outcome": "crash:wrong-files", "detail": str(r.get("files"))}
        return r


# --------------------------------------------------------------------------
# oracle: last-writer table
# --------------------------------------------------------------------------

class Oracle:
    def __init__(self, defaults, s0_items, u_items, sym, fresh_each_op=True):
        """fresh_each_op: every operation is a process of its own (mode e2e, the CLI stage): it loads before it acts"""
        self.sym = sym
        self.D = {k: enc(v, sym) for k, v in defaults.items()}
        self.Draw = defaults
        self.U = {k: enc(v, sym) for k, v in (u_items or [])}      # a repeated key keeps its last value
        self.T = dict(self.D)
        for k, v in (s0_items or []):
            self.T[k] = enc(v, sym)
        self.unjudged = set()
        self.counts = {}
        # keys of the user's file whose value in the writer's memory (hence in the store after its next write) may be
        # the user's: the writer loaded its settings while the stored switch was on
        self.tainted = set()
        self.fresh_each_op = fresh_each_op
        sw = self.Draw.get("_read_user", True)
        for k, v in (s0_items or []):
            if k == "_read_user":
                sw = v
        self.sw_store = bool(sw)          # the switch in the store as last seen (None: store unreadable)

    def loaded(self):
        """the writer (re)reads its settings: defaults, the store, the user's file if the stored switch is on"""
        if self.sw_store is None or self.sw_store:
            self.tainted |= set(self.U)

    def applied(self, op, outcome):
        """the operation `op` was executed with the given outcome"""
        if self.fresh_each_op or op[0] in ("init", "restart", "reload"):
            self.loaded()
        if op[0] == "set" and outcome == "ok":
            self.T[op[1]] = enc(op[2], self.sym)
            self.unjudged.discard(op[1])
            self.tainted.discard(op[1])
        elif op[0] == "setbad" and outcome == "ok":
            self.unjudged.add(op[1])      # accepted in some converted form: whatever that is, it is not judged
        elif op[0] == "reset" and outcome == "ok":
            for k, v in self.D.items():
                self.T[k] = v
                self.unjudged.discard(k)
                self.tainted.discard(k)       # (an undocumented key stays in memory through a reset)

    def judge(self, op, outcome, reader, store_state, store_dict, store_unchanged_by_reader):
        """list of (key, what) — failures of the property on this step"""
        bad = []
        kind = op[0]
        if kind != "setbad" and outcome != "ok":
            bad.append(("writer-raised:%s:%s" % (kind, outcome), "%s raised %s" % (kind, outcome)))
        if reader.get("outcome") != "ok":
            bad.append(("reader-crash:" + str(reader.get("outcome")),
                        "a process started after `%s` cannot construct its settings object (store file: %s): %s %s"
                        % (kind, store_state, reader.get("outcome"), reader.get("detail", ""))))
            return bad
        cfg = {k: enc(v, self.sym) for k, v in reader["config"].items()}
        for k, v in reader.get("props", {}).items():
            if enc(v, self.sym) != cfg.get(k):
                bad.append(("property-getter", "property %s returns %s, memory has %s" % (k, enc(v, self.sym), cfg.get(k))))
        if store_state != "ok":
            bad.append(("store-" + store_state, "after `%s` the store file is %s" % (kind, store_state)))
            enabled = None
        else:
            sw = store_dict.get("_read_user", self.Draw.get("_read_user"))
            enabled = bool(sw)
        self.sw_store = enabled if store_state != "absent" else bool(self.Draw.get("_read_user", True))
        if not store_unchanged_by_reader:
            bad.append(("reader-modified-store", "a fresh reader changed an existing store file"))
        for k in sorted(set(self.T) | set(cfg) | set(self.U)):
            if k in self.unjudged:
                continue
            got = cfg.get(k)
            if k in self.U:
                if enabled:
                    self.count("user-key-enabled")
                    if got != self.U[k]:
                        bad.append(("user-precedence", "user file sets %s=%s, overrides enabled, a fresh process reads %s"
                                    % (k, self.U[k], got)))
                elif enabled is not None:
                    # overrides are off in the store this process reads: the user's file has no say
                    stored = enc(store_dict[k], self.sym) if k in store_dict else self.D.get(k)
                    if got != stored:
                        bad.append(("user-file-read-overrides-off",
                                    "the store holds _read_user=%s (overrides off) and %s=%s, the user's file sets %s=%s: "
                                    "a fresh process reads %s" % (enc(sw, self.sym), k, stored, k, self.U[k], got)))
                    elif k in self.tainted:
                        self.count("user-key-exempt-overrides-off")       # the stored value may be the user's (leak)
                        if got != self.T.get(k):
                            self.count("user-value-leak-observed")
                    else:
                        self.count("user-key-overrides-off-judged")
                        if got != self.T.get(k):
                            bad.append(("read-after-write", "overrides are off; last value written for %s is %s, a fresh "
                                        "process reads %s (after `%s`; the user's file sets %s=%s)"
                                        % (k, self.T.get(k), got, kind, k, self.U[k])))
                continue
            want = self.T.get(k)
            if got != want:
                if kind == "reset" and k in self.D:
                    bad.append(("reset-not-default", "after reset a fresh process reads %s=%s, default is %s" % (k, got, want)))
                else:
                    bad.append(("read-after-write", "last value written for %s is %s, a fresh process reads %s (after `%s`)"
                                % (k, want, got, kind)))
        if kind == "reset" and outcome == "ok" and store_state == "ok":
            for k, v in self.D.items():
                if enc(store_dict.get(k, "<missing>"), self.sym) != v:
                    bad.append(("reset-store", "after reset the store holds %s=%s, documented default is %s"
                                % (k, enc(store_dict.get(k, "<missing>"), self.sym), v)))
        return bad

    def count(self, k):
        self.counts[k] = self.counts.get(k, 0) + 1


# --------------------------------------------------------------------------
# one history
# --------------------------------------------------------------------------

def op_words(op, sym):
    if op[0] == "set":
        return "set %s %s" % (gendef.enc_key(op[1]), enc(op[2], sym))
    if op[0] == "setbad":
        return "setbad %s" % gendef.enc_key(op[1])
    return op[0]


def run_history(env, case, keep_dir=False):
    """returns dict(lines=[(model line, expected output | None)], violations=[(key, what, step)], counts, steps)"""
    d = env.newdir()
    impl = (E2E if case["mode"] == "e2e" else Patched)(env, d)
    sym = impl.sym
    s0, u = case["S0"], case["U"]
    if s0 is not None:
        with open(impl.store, "w") as f:
            f.write(file_text(s0))
    if u is not None:
        with open(impl.user, "w") as f:
            f.write(file_text(u))
    defaults = dict(env.S.Config._default_config)
    if case["mode"] == "e2e":       # the installation-relative default of this private package
        for key, text in env.facts["symbolic"].items():
            conc = [c for c, t in sym.items() if t == text]
            if conc:
                defaults[key] = conc[0]
    oracle = Oracle(defaults, s0, u, sym, fresh_each_op=(case["mode"] == "e2e"))
    lines, violations = [], []
    steps = [["init"]] + [list(o) for o in case["ops"]]
    done = 0
    for i, op in enumerate(steps):
        if op[0] == "init":
            outcome, detail = impl.boot()
            line = "init %s | %s" % (file_words(s0, sym), file_words(u, sym))
        else:
            if case["mode"] == "e2e" and op[0] != "restart":
                lines.append(("restart", None))        # every e2e operation is a new process
            outcome, detail = impl.do(op)
            line = op_words(op, sym)
        oracle.applied(op, outcome)
        st_state, st_dict, raw_before = read_store(impl.store)
        reader = impl.reader()
        st_state2, _, raw_after = read_store(impl.store)
        unchanged = raw_before is None or raw_before == raw_after
        r_out = reader.get("outcome", "crash:?")
        expect = "%s W %s ; S %s ; R %s %s" % (
            outcome, show_dict(impl.mem(), sym), show_store(st_state, st_dict, sym), r_out,
            show_dict(reader.get("config") or {}, sym))
        lines.append((line, expect))
        for key, what in oracle.judge(op if op[0] != "init" else ["restart"], outcome, reader, st_state, st_dict, unchanged):
            violations.append((key, what + ((" [" + detail + "]") if detail and "raised" in what else ""), i))
        done = i + 1
        if (op[0] in ("init", "restart") and outcome != "ok") or outcome.startswith("boot:"):
            break          # the process could not construct its settings object: nothing left to operate
    if not keep_dir:
        shutil.rmtree(d, ignore_errors=True)
    return {"lines": lines, "violations": violations, "counts": oracle.counts, "steps": done}


def run_reader_first(env, case):
    """a fresh reader on the given files when no writer has run (the reader creates an absent store)"""
    d = env.newdir()
    impl = Patched(env, d)
    sym = impl.sym
    s0, u = case["S0"], case["U"]
    if s0 is not None:
        open(impl.store, "w").write(file_text(s0))
    if u is not None:
        open(impl.user, "w").write(file_text(u))
    oracle = Oracle(dict(env.S.Config._default_config), s0, u, sym)
    reader = impl.reader()
    st_state, st_dict, _ = read_store(impl.store)
    expect = "R %s %s ; S %s" % (reader.get("outcome"), show_dict(reader.get("config") or {}, sym),
                                 show_store(st_state, st_dict, sym))
    line = "read %s | %s" % (file_words(s0, sym), file_words(u, sym))
    viol = [(k, w, 0) for k, w in oracle.judge(["restart"], "ok", reader, st_state, st_dict, True)]
    shutil.rmtree(d, ignore_errors=True)
    return {"lines": [(line, expect)], "violations": viol, "counts": oracle.counts, "steps": 1}


# --------------------------------------------------------------------------
# case generation
# --------------------------------------------------------------------------

EXTRA_KEYS = ["vnode_file", "custom", "backend", "a b", "clé", "%", "x=y", "", "|", "absent"]


def rand_value(rng, depth=0):
    r = rng.random()
    if r < 0.06:
        return None
    if r < 0.18:
        return rng.choice([True, False])
    if r < 0.42:
        return rng.choice([0, 1, -1, 7, 20, 50, 2 ** 70, -2 ** 40, rng.randrange(-1000, 1000), rng.randrange(0, 100)])
    if r < 0.62:
        return rng.choice([0.0, -0.0, 0.5, 1.0, 2.5, 1e-9, 1e300, -3.25, 0.1, rng.random() * 100, rng.uniform(-1, 1)])
    if r < 0.82:
        return rng.choice(["", "a", "projectq", "qutip", "stabilizer", "with space", "café ☃", "100%", "0",
                           'q"uo\\te', "/tmp/net work.json", "false", "null", "[]", "line\nbreak", "tab\t", "\U0001F600"])
    if depth >= 2:
        return rng.choice([[], {}])
    if r < 0.91:
        return [rand_value(rng, depth + 1) for _ in range(rng.randrange(0, 4))]
    return {rng.choice(["a", "b", "z y", "k%", ""]): rand_value(rng, depth + 1) for _ in range(rng.randrange(0, 4))}


def value_type(v):
    return {type(None): "null", bool: "bool", int: "int", float: "float", str: "str", list: "list", dict: "dict"}[type(v)]


def rand_key(rng, doc_keys, p_extra=0.15):
    if rng.random() < p_extra:
        return rng.choice(EXTRA_KEYS)
    return rng.choice(doc_keys)


def rand_file(rng, doc_keys, p_absent, p_switch):
    """None or a list of [key, value] items (sometimes with a repeated key, sometimes empty)"""
    if rng.random() < p_absent:
        return None
    n = rng.choice([0, 1, 1, 2, 2, 3, 4])
    items = [[rand_key(rng, doc_keys, 0.25), rand_value(rng)] for _ in range(n)]
    if rng.random() < p_switch:
        items.append(["_read_user", rng.choice([False, True, 0, 1, None, "", "no", [], [0], {}, 0.0])])
        rng.shuffle(items)
    seen, out = set(), []
    dup = rng.random() < 0.12
    for k, v in items:
        if k in seen and not dup:
            continue
        seen.add(k)
        out.append([k, v])
    return out


def rand_ops(rng, doc_keys, n, e2e=False):
    ops = []
    for _ in range(n):
        r = rng.random()
        if r < 0.50:
            k = rand_key(rng, doc_keys)
            if k == "_read_user" or rng.random() < 0.08:
                k, v = "_read_user", rng.choice([False, True, 0, 1, None, "", "off", [], {}, 0.0, -0.0, [False]])
            else:
                v = rand_value(rng)
            ops.append(["set", k, v])
        elif r < 0.58:
            ops.append(["setbad", rand_key(rng, doc_keys), rng.choice(BAD_KINDS)])
        elif r < 0.72:
            ops.append(["reset"])
        elif r < 0.86:
            ops.append(["reload"])
        else:
            ops.append(["restart"])
    return ops


def e2e_safe(case):
    """mode e2e imports the whole package in every process, and `simulaqron/__init__` looks at
    `network_config_file` (os.path.exists; a default network file is created there when missing): keep that key a
    plain relative file name — it resolves inside the history's own directory."""
    def fix(k, v):
        if k != "network_config_file":
            return v
        if not isinstance(v, str):
            return "my_network.json"
        return "".join(ch if ch.isascii() and (ch.isalnum() or ch in "._-") else "_" for ch in v) or "n.json"
    for f in ("S0", "U"):
        if case[f] is not None:
            case[f] = [[k, fix(k, v)] for k, v in case[f]]
    case["ops"] = [[o[0], o[1], fix(o[1], o[2])] if o[0] == "set" else o for o in case["ops"]]
    return case


def gen_cases(ctx, env):
    rng = ctx.rng
    doc = env.doc_keys or DOC_KEYS_FALLBACK
    cases = []
    n_patched = ctx.scale(260, 3600)
    n_e2e = ctx.scale(14, 160)
    n_first = ctx.scale(20, 200)
    # a few fixed histories first: the plain statement, the CLI usage, the leak, a rejected value
    fixed = [
        {"mode": "patched", "S0": None, "U": None, "ops": [["set", "max_qubits", 7], ["set", "sim_backend", "projectq"],
                                                               ["reset"]]},
        {"mode": "patched", "S0": None, "U": [["max_qubits", 5]], "ops": [["set", "t1", 2.0], ["set", "max_qubits", 9],
                                                                          ["set", "_read_user", False], ["reset"]]},
        {"mode": "patched", "S0": None, "U": None, "ops": [["set", "max_qubits", 7], ["setbad", "sim_backend", "enum"],
                                                           ["set", "t1", 2.0], ["restart"]]},
        {"mode": "e2e", "S0": None, "U": [["log_level", 10]], "ops": [["set", "max_qubits", 7], ["set", "log_level", 50],
                                                                      ["setbad", "t1", "set"], ["reset"]]},
    ]
    cases.extend(fixed)
    # every history of length 2 (thorough: 3) over a small alphabet x 6 file configurations; shorter histories are
    # prefixes (a reader runs after every step), so this enumerates all interactions of up to 2 (3) operations
    k1 = "max_qubits" if "max_qubits" in doc else doc[-1]
    alphabet = [["set", k1, 7], ["set", k1, 0], ["set", "_read_user", False], ["set", "_read_user", True],
                ["setbad", k1, "enum"], ["reset"], ["reload"], ["restart"]]
    configs = [(s0, u) for s0 in (None, [[k1, 11]])
               for u in (None, [[k1, 5]], [[k1, 5], ["_read_user", False]])]
    for hist in itertools.product(alphabet, repeat=ctx.scale(2, 3)):
        for s0, u in configs:
            cases.append({"mode": "patched", "S0": s0, "U": u, "ops": [list(o) for o in hist], "enumerated": True})
    for _ in range(n_patched):
        n = rng.choice([1, 2, 3, 4, 5, 6, 7, 8]) if not ctx.thorough else rng.randrange(1, 13)
        cases.append({"mode": "patched",
                      "S0": rand_file(rng, doc, 0.6, 0.15),
                      "U": rand_file(rng, doc, 0.4, 0.2),
                      "ops": rand_ops(rng, doc, n)})
    for _ in range(n_e2e):
        cases.append(e2e_safe({"mode": "e2e", "S0": rand_file(rng, doc, 0.7, 0.15), "U": rand_file(rng, doc, 0.4, 0.2),
                               "ops": [o for o in rand_ops(rng, doc, rng.randrange(1, 6)) if o[0] != "reload"]}))
    for _ in range(n_first):
        cases.append({"mode": "reader-first", "S0": rand_file(rng, doc, 0.5, 0.2), "U": rand_file(rng, doc, 0.4, 0.3),
                      "ops": []})
    return cases


# --------------------------------------------------------------------------
# shrinking
# --------------------------------------------------------------------------

def run_case(env, case):
    if case["mode"] == "reader-first":
        return run_reader_first(env, case)
    return run_history(env, case)


def has_key(out, key):
    return [v for v in out["violations"] if v[0] == key]


def shrink(env, case, key, budget=40):
    """greedy: cut after the failing step, drop operations, drop file items — while the same key still fails"""
    best = json.loads(json.dumps(case))
    out = run_case(env, best)
    hit = has_key(out, key)
    if not hit:
        return case, None
    step = min(v[2] for v in hit)
    best["ops"] = best["ops"][:step]
    what = hit[0][1]

    def attempt(cand):
        nonlocal best, what, budget
        if budget <= 0:
            return False
        budget -= 1
        h = has_key(run_case(env, cand), key)
        if h:
            best, what = cand, h[0][1]
            return True
        return False

    changed = True
    while changed and budget > 0:
        changed = False
        for i in range(len(best["ops"]) - 1, -1, -1):
            cand = json.loads(json.dumps(best))
            del cand["ops"][i]
            if attempt(cand):
                changed = True
        for f in ("U", "S0"):
            if best[f] is not None:
                cand = json.loads(json.dumps(best))
                cand[f] = None
                if attempt(cand):
                    changed = True
                    continue
                for i in range(len(best[f]) - 1, -1, -1):
                    cand = json.loads(json.dumps(best))
                    del cand[f][i]
                    if attempt(cand):
                        changed = True
    return best, what


# --------------------------------------------------------------------------
# run
# --------------------------------------------------------------------------

def run(ctx):
    scratch = core.scratch_repo()
    import simulaqron.settings as S          # writes only inside the scratch copy

    for p in (S.Config._internal_settings_file, S.Config._user_settings_file):
        if not os.path.abspath(p).startswith(scratch + os.sep):
            raise core.MachineryError("settings file %s is outside the scratch directory" % p)
    facts = getattr(ctx, "c18_facts", None) or gendef.extract(os.path.join(core.REPO, SETTINGS_PY))
    env = Env(scratch, S, facts)
    res = core.Result()
    res.rule = ("ALL histories of 2 (thorough 3) operations over an 8-operation alphabet x 6 file configurations; random "
                "single-writer histories of 1..8 (thorough 1..12) operations set/setbad/reset/reload/restart over the "
                "documented keys (85%) and undocumented ones, values of every JSON type, with/without user file and "
                "pre-existing store (each sometimes with a repeated key or a `_read_user` entry); fresh interpreter after "
                "every step; plus unpatched e2e histories and reader-first cases; non-trivial = >= 2 operations with a "
                "successful set; distinct by the whole case")

    # ---- CLI stage, replay of one of its histories ------------------------------------------------------------------
    if ctx.replay and ctx.replay["input"].get("cli") == "c18":
        cli.stage_c18(ctx, res, sys.modules[__name__], env, replay_case=ctx.replay["input"])
        return res
    # ----------------------------------------------------------------------------------------------------------------
    if ctx.replay:
        cases = [ctx.replay["input"]]
    else:
        cases = gen_cases(ctx, env)

    workers = min(16, os.cpu_count() or 4)
    with cf.ThreadPoolExecutor(max_workers=workers) as pool:
        outs = list(pool.map(lambda c: run_case(env, c), cases))

    lines, expect, owner = [], [], []
    seen_keys = {}
    for ci, (case, out) in enumerate(zip(cases, outs)):
        nontrivial = len(case["ops"]) >= 2 and any(o[0] == "set" for o in case["ops"])
        res.case(case, nontrivial=nontrivial)
        res.count("mode:" + case["mode"] + (":enumerated" if case.get("enumerated") else ""))
        res.count("user-file:" + ("absent" if case["U"] is None else "present"))
        res.count("old-store:" + ("absent" if case["S0"] is None else "present"))
        res.count("reader-processes", out["steps"])
        for o in case["ops"]:
            res.count("op:" + o[0])
            if o[0] == "set":
                res.count("value:" + value_type(o[2]))
                res.count("key:" + ("documented" if o[1] in env.doc_keys else "undocumented"))
        for k, n in out["counts"].items():
            res.count(k, n)
        for line, want in out["lines"]:
            lines.append(line)
            expect.append(want)
            owner.append(ci)
        for key, what, step in out["violations"]:
            seen_keys.setdefault(key, (ci, what))

    # one report per failure signature; every failure that needs a rejected (unserialisable) value in its minimal
    # history is one and the same signature, whatever symptom it shows later
    final = {}
    for key, (ci, what) in sorted(seen_keys.items()):
        small, what2 = shrink(env, cases[ci], key) if not ctx.replay else (cases[ci], what)
        if any(o[0] == "setbad" for o in small["ops"]):
            key = "rejected-value-damages-store"
        if key not in final or len(small["ops"]) < len(final[key][1]["ops"]):
            final[key] = (what2 or what, small)
    for key, (what, small) in sorted(final.items()):
        res.violation(key, what, small)

    leaks = res.dist.get("user-value-leak-observed", 0)
    res.notes.append(
        "outside the statement, observed %d times in this run: a key the user's override file sets leaks into the store "
        "when any key is set (the merged memory is dumped), so with overrides later switched off a fresh process reads "
        "the user's old value, not the last value set; the statement exempts keys the user's file sets "
        "(Lean: user_value_leaks_when_disabled)" % leaks)
    res.notes.append("two long-lived settings objects overwrite each other's keys (set dumps all of memory); the property "
                     "quantifies over one writer at a time plus fresh readers, so this is not claimed")

    if ctx.lean_ok and lines:
        got = core.lean_run("settings", lines)
        for g, w, ci in zip(got, expect, owner):
            if w is None:
                continue
            res.traces += 1
            if g != w and len(res.tie_breaks) < 20:
                res.tie_break("Settings model vs settings.Config", cases[ci], g, w)
            elif g != w:
                res.tie_breaks.append({"what": "more", "input": None, "model": "", "impl": ""})
    # ---- CLI stage (harness/cli_cases.py): the same oracle and the same model driver behind the real commands ------
    if not ctx.replay:
        cli.stage_c18(ctx, res, sys.modules[__name__], env)
    # ----------------------------------------------------------------------------------------------------------------
    shutil.rmtree(env.root, ignore_errors=True)
    return res


def search(ctx, res, broken):
    res.notes.append("targeted search = the last-writer oracle over every generated history (it runs on all of them, "
                     "with a fresh interpreter after each step); no failing input beyond those reported")

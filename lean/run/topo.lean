import SqVerif.Drive.Topo
/- `lake env lean --run run/topo.lean`: one operation per input line, one canonical observation per output line. -/
def main : IO Unit := SqVerif.Drive.loopStateless SqVerif.Drive.Topo.handle

import SqVerif.JointLemmasEng
/-
C01 joint layer, part 6 — what each emitted engine call (`VNetEng.applyEOp`) does to the joint
group, to the invariant `JInv` and to the set of slot labels:

  `eop_newReg`        a new empty register: nothing changes;
  `eop_addFresh`      `TAdded` with the next fresh label;
  `eop_gate1/2`       conjugation at the token(s) labelling the addressed slot(s);
  `eop_measInplace`   `TCollapsed` at the token, with the outcome the engine returns; `±Z` transfer;
  `eop_remove`        `TRestricted` (after an in-place measurement of the same slot);
  `eop_delEmpty`      deleting a register without qubits: nothing changes;
  `blk_absorb`        `[absorb n r1 r2, delReg n r2]`: joint group unchanged (tensor product);
  `blk_pull`          `[exportDel sn sr, delReg sn sr, absorbParts n r sn sr]`: unchanged.
-/
set_option linter.unusedSimpArgs false
set_option linter.unusedVariables false
namespace SqVerif.Joint
open SqVerif.Stab SqVerif.Stab.Meas SqVerif.VNet SqVerif.VNetEng SqVerif.Engine

theorem mem_eraseIdx_nodup : ∀ (l : List Nat) (j x y : Nat), l.Nodup → l[j]? = some x →
    (y ∈ l.eraseIdx j ↔ (y ∈ l ∧ y ≠ x))
  | [], j, x, y, _, h => by simp at h
  | a :: l, 0, x, y, hn, h => by
    simp only [List.getElem?_cons_zero, Option.some.injEq] at h
    subst h
    rw [List.nodup_cons] at hn
    simp only [List.eraseIdx_cons_zero, List.mem_cons]
    constructor
    · intro hy; exact ⟨.inr hy, fun e => hn.1 (e ▸ hy)⟩
    · rintro ⟨hy | hy, hne⟩
      · exact absurd hy hne
      · exact hy
  | a :: l, j + 1, x, y, hn, h => by
    simp only [List.getElem?_cons_succ] at h
    rw [List.nodup_cons] at hn
    have hx : x ∈ l := List.mem_of_getElem? h
    have hax : a ≠ x := fun e => hn.1 (e ▸ hx)
    simp only [List.eraseIdx_cons_succ, List.mem_cons, mem_eraseIdx_nodup l j x y hn.2 h]
    constructor
    · rintro (hy | ⟨hy, hne⟩)
      · exact ⟨.inl hy, hy ▸ hax⟩
      · exact ⟨.inr hy, hne⟩
    · rintro ⟨hy | hy, hne⟩
      · exact .inl hy
      · exact .inr ⟨hy, hne⟩

theorem onReg_some {e e' : EngSt} {k : Key} {c : Call} {ls : List Nat} (h : e.onReg k c ls = some e') :
    ∃ en en', aget e.regs k = some en ∧ en.call c ls = some en' ∧ e' = { e with regs := aset e.regs k en' } := by
  unfold EngSt.onReg at h
  cases hk : aget e.regs k with
  | none => rw [hk] at h; cases h
  | some en =>
    rw [hk] at h
    simp only at h
    cases hc : en.call c ls with
    | none => rw [hc] at h; cases h
    | some en' =>
      rw [hc] at h
      simp only [Option.map_some, Option.some.injEq] at h
      exact ⟨en, en', rfl, hc, h.symm⟩

theorem mem_allSlots_adel {l : List (Key × LEng)} {k : Key} {x : Nat} (h : x ∈ allSlots (adel l k)) : x ∈ allSlots l := by
  obtain ⟨p, hp, hx⟩ := mem_allSlots.1 h
  exact mem_allSlots.2 ⟨p, (mem_adel hp).1, hx⟩

/-- replacing the engine under `k` -/
theorem jinv_replace {e : EngSt} {k : Key} {en' : LEng} {nxt : Nat} (h : JInv e) (ok' : en'.OK)
    (hn : (en'.lab.slots ++ allSlots (adel e.regs k)).Nodup) (hf : ∀ x, x ∈ en'.lab.slots → x < nxt)
    (hnx : e.next ≤ nxt) : JInv { e with regs := aset e.regs k en', next := nxt } := by
  refine ⟨keys_aset_nodup _ _ _ h.keys, ?_, hn, ?_, h.flight⟩
  · intro p hp
    rcases List.mem_cons.1 hp with rfl | hp
    · exact ok'
    · exact h.ok p (mem_adel hp).1
  · intro x hx
    rcases List.mem_append.1 hx with hx | hx
    · exact hf x hx
    · exact Nat.lt_of_lt_of_le (h.fresh x (mem_allSlots_adel hx)) hnx

/-- … when the slot labels of that engine do not change -/
theorem jinv_replace_same {e : EngSt} {k : Key} {en en' : LEng} (h : JInv e) (hk : aget e.regs k = some en)
    (ok' : en'.OK) (hs : en'.lab.slots = en.lab.slots) :
    JInv { e with regs := aset e.regs k en' } ∧
      ∀ y, y ∈ allSlots (aset e.regs k en') ↔ y ∈ allSlots e.regs := by
  obtain ⟨hp, _, _, _⟩ := h.view hk
  have hps := allSlots_perm hp
  have hn : (en'.lab.slots ++ allSlots (adel e.regs k)).Nodup := by
    rw [hs]; exact hps.nodup_iff.1 h.slots
  refine ⟨jinv_replace (nxt := e.next) h ok' hn ?_ (Nat.le_refl _), ?_⟩
  · intro x hx
    rw [hs] at hx
    exact h.fresh x (hps.mem_iff.2 (List.mem_append_left _ hx))
  · intro y
    rw [hps.mem_iff]
    show y ∈ en'.lab.slots ++ _ ↔ y ∈ en.lab.slots ++ _
    rw [hs]

theorem g1Call_eq {g : G1} {g' : Gate1} (hg : g1Gate g = some g') (p : Nat) : g1Call g p = .gate1 g' p := by
  cases g <;> simp [g1Gate] at hg <;> subst hg <;> rfl

theorem eop_gate1 {rc : Bool} {e e' : EngSt} {g : G1} {g' : Gate1} {n r p x : Nat} {en : LEng} (hJ : JInv e)
    (hg : g1Gate g = some g') (hk : aget e.regs (n, r) = some en) (hj : en.lab.slots[p]? = some x)
    (h : applyEOp rc e (.gate1 g n r p) = some e') :
    JInv e' ∧ e'.next = e.next ∧ (∀ y, y ∈ allSlots e'.regs ↔ y ∈ allSlots e.regs) ∧
      ∀ t, JointGroup e' t ↔ ∃ t0, JointGroup e t0 ∧ t ≈ₜ t0.conj1 g' x := by
  simp only [applyEOp] at h
  obtain ⟨en0, en', hk0, hcall, rfl⟩ := onReg_some h
  rw [hk] at hk0; cases hk0
  rw [g1Call_eq hg] at hcall
  obtain ⟨_, ok, hfo, hJG⟩ := hJ.view hk
  obtain ⟨ok', hs, hg1⟩ := call_gate1 ok hcall
  obtain ⟨hJ', hsl⟩ := jinv_replace_same hJ hk ok' hs
  refine ⟨hJ', rfl, hsl, fun t => ?_⟩
  show ProdG ((en'.lab.slots, grp en'.eng.st) :: facs (adel e.regs (n, r))) t ↔ _
  rw [hs, stfac_gate1 (FacsOK.headOK hfo) (leng_valid ok).toCommuting hj hg1 t]
  constructor
  · rintro ⟨t0, h0, ht⟩; exact ⟨t0, (hJG t0).2 h0, ht⟩
  · rintro ⟨t0, h0, ht⟩; exact ⟨t0, (hJG t0).1 h0, ht⟩

theorem eop_gate2 {rc : Bool} {e e' : EngSt} {g : G2} {n r pc pt c d : Nat} {en : LEng} (hJ : JInv e)
    (hk : aget e.regs (n, r) = some en) (hjc : en.lab.slots[pc]? = some c) (hjd : en.lab.slots[pt]? = some d)
    (h : applyEOp rc e (.gate2 g n r pc pt) = some e') :
    JInv e' ∧ e'.next = e.next ∧ (∀ y, y ∈ allSlots e'.regs ↔ y ∈ allSlots e.regs) ∧
      ∀ t, JointGroup e' t ↔ ∃ t0, JointGroup e t0 ∧ t ≈ₜ t0.conj2 (g2Gate g) c d := by
  simp only [applyEOp] at h
  obtain ⟨en0, en', hk0, hcall, rfl⟩ := onReg_some h
  rw [hk] at hk0; cases hk0
  obtain ⟨_, ok, hfo, hJG⟩ := hJ.view hk
  obtain ⟨ok', hs, hg2⟩ := call_gate2 ok hcall
  obtain ⟨hJ', hsl⟩ := jinv_replace_same hJ hk ok' hs
  refine ⟨hJ', rfl, hsl, fun t => ?_⟩
  show ProdG ((en'.lab.slots, grp en'.eng.st) :: facs (adel e.regs (n, r))) t ↔ _
  rw [hs, stfac_gate2 (FacsOK.headOK hfo) (leng_valid ok).toCommuting hjc hjd hg2 t]
  constructor
  · rintro ⟨t0, h0, ht⟩; exact ⟨t0, (hJG t0).2 h0, ht⟩
  · rintro ⟨t0, h0, ht⟩; exact ⟨t0, (hJG t0).1 h0, ht⟩

theorem tcollapsed_congr {S S' : TOp → Prop} (h : ∀ t, S t ↔ S' t) (x : Nat) (o : Bool) (t : TOp) :
    TCollapsed S x o t ↔ TCollapsed S' x o t := by
  constructor
  · rintro ⟨t0, h0, h1⟩; exact ⟨t0, (h t0).1 h0, h1⟩
  · rintro ⟨t0, h0, h1⟩; exact ⟨t0, (h t0).2 h0, h1⟩

theorem trestricted_congr {S S' : TOp → Prop} (h : ∀ t, S t ↔ S' t) (x : Nat) (o : Bool) (t : TOp) :
    TRestricted S x o t ↔ TRestricted S' x o t := by
  constructor
  · rintro ⟨t0, h0, h1⟩; exact ⟨t0, (h t0).1 h0, h1⟩
  · rintro ⟨t0, h0, h1⟩; exact ⟨t0, (h t0).2 h0, h1⟩

theorem tadded_congr {S S' : TOp → Prop} (h : ∀ t, S t ↔ S' t) (x : Nat) (t : TOp) :
    TAdded S x t ↔ TAdded S' x t := by
  constructor
  · rintro ⟨t0, b, h0, h1⟩; exact ⟨t0, b, (h t0).1 h0, h1⟩
  · rintro ⟨t0, b, h0, h1⟩; exact ⟨t0, b, (h t0).2 h0, h1⟩

/-- `±Z` at a token is in the joint group iff `±Z` at its slot is in the group of its register -/
theorem joint_z {e : EngSt} {k : Key} {en : LEng} {p x : Nat} (hJ : JInv e) (hk : aget e.regs k = some en)
    (hj : en.lab.slots[p]? = some x) (b : Bool) :
    JointGroup e (TOp.z x b) ↔ InGroup en.eng.st.n en.eng.st.rows (zAt en.eng.st.n p b) := by
  obtain ⟨_, ok, hfo, hJG⟩ := hJ.view hk
  rw [hJG]
  have h := prodG_z (toks := en.lab.slots) (G := grp en.eng.st) b hfo hj
  rw [← ok.size] at h
  exact h

theorem eop_measInplace {rc : Bool} {e e' : EngSt} {n r p x : Nat} {oc : Bool} {en : LEng} (hJ : JInv e)
    (hk : aget e.regs (n, r) = some en) (hj : en.lab.slots[p]? = some x)
    (h : applyEOp rc e (.measInplace n r p oc) = some e') :
    ∃ o en', engOutcome e (.measInplace n r p oc) = some o ∧
      Stab.measure en.eng.st p true oc = some (o, en'.eng.st) ∧
      aget e'.regs (n, r) = some en' ∧ en'.lab.slots = en.lab.slots ∧
      InGroup en'.eng.st.n en'.eng.st.rows (zAt en'.eng.st.n p o) ∧
      JInv e' ∧ e'.next = e.next ∧ (∀ y, y ∈ allSlots e'.regs ↔ y ∈ allSlots e.regs) ∧
      ∀ t, JointGroup e' t ↔ TCollapsed (JointGroup e) x o t := by
  simp only [applyEOp] at h
  obtain ⟨en0, en', hk0, hcall, rfl⟩ := onReg_some h
  rw [hk] at hk0; cases hk0
  obtain ⟨_, ok, hfo, hJG⟩ := hJ.view hk
  obtain ⟨ok', hs, o, hm, hout⟩ := call_measInplace ok hcall
  obtain ⟨hJ', hsl⟩ := jinv_replace_same hJ hk ok' hs
  have hpl : p < en.eng.st.n := by rw [ok.size]; exact (List.getElem?_eq_some_iff.1 hj).1
  refine ⟨o, en', ?_, hm, by simp [aget_aset], hs, z_after_inplace (leng_valid ok) hpl hm, hJ', rfl, hsl, fun t => ?_⟩
  · simp only [engOutcome, hk, hout]
  · show ProdG ((en'.lab.slots, grp en'.eng.st) :: facs (adel e.regs (n, r))) t ↔ _
    rw [hs, stfac_meas_inplace (FacsOK.headOK hfo) (leng_valid ok) ok.size.symm hj hm t]
    exact tcollapsed_congr (fun t0 => (hJG t0).symm) x o t

theorem eop_remove {rc : Bool} {e e' : EngSt} {n r p x : Nat} {o : Bool} {en : LEng} (hJ : JInv e)
    (hk : aget e.regs (n, r) = some en) (hj : en.lab.slots[p]? = some x)
    (hz : InGroup en.eng.st.n en.eng.st.rows (zAt en.eng.st.n p o))
    (h : applyEOp rc e (.remove n r p) = some e') :
    ∃ en', aget e'.regs (n, r) = some en' ∧ en'.lab.slots = en.lab.slots.eraseIdx p ∧
      JInv e' ∧ e'.next = e.next ∧ (∀ y, y ∈ allSlots e'.regs ↔ (y ∈ allSlots e.regs ∧ y ≠ x)) ∧
      ∀ t, JointGroup e' t ↔ TRestricted (JointGroup e) x o t := by
  simp only [applyEOp] at h
  obtain ⟨en0, en', hk0, hcall, rfl⟩ := onReg_some h
  rw [hk] at hk0; cases hk0
  obtain ⟨hp, ok, hfo, hJG⟩ := hJ.view hk
  obtain ⟨ok', hs, o2, hm⟩ := call_remove ok hcall
  obtain ⟨_, hgrp⟩ := stfac_remove (rest := facs (adel e.regs (n, r))) (FacsOK.headOK hfo) (leng_valid ok)
    ok.size.symm hj hz hm
  have hps := allSlots_perm hp
  have hnd : (en.lab.slots ++ allSlots (adel e.regs (n, r))).Nodup := hps.nodup_iff.1 hJ.slots
  have hnd' := List.nodup_append.1 hnd
  have hsub : (en.lab.slots.eraseIdx p).Sublist en.lab.slots := List.eraseIdx_sublist _ _
  have hx : x ∈ en.lab.slots := List.mem_of_getElem? hj
  have hmem : ∀ y, y ∈ en.lab.slots.eraseIdx p ↔ (y ∈ en.lab.slots ∧ y ≠ x) :=
    fun y => mem_eraseIdx_nodup _ p x y hnd'.1 hj
  have hn' : (en'.lab.slots ++ allSlots (adel e.regs (n, r))).Nodup := by
    rw [hs]
    exact List.nodup_append.2 ⟨hsub.nodup hnd'.1, hnd'.2.1, fun a ha b hb => hnd'.2.2 a (hsub.subset ha) b hb⟩
  have hJ' : JInv { e with regs := aset e.regs (n, r) en' } :=
    jinv_replace (nxt := e.next) hJ ok' hn' (fun y hy => by
      rw [hs] at hy
      exact hJ.fresh y (hps.mem_iff.2 (List.mem_append_left _ (hsub.subset hy)))) (Nat.le_refl _)
  refine ⟨en', by simp [aget_aset], hs, hJ', rfl, fun y => ?_, fun t => ?_⟩
  · rw [hps.mem_iff]
    show y ∈ en'.lab.slots ++ _ ↔ (y ∈ en.lab.slots ++ _ ∧ y ≠ x)
    rw [hs, List.mem_append, List.mem_append, hmem y]
    constructor
    · rintro (⟨h1, h2⟩ | h1)
      · exact ⟨.inl h1, h2⟩
      · exact ⟨.inr h1, fun e => hnd'.2.2 x hx y h1 e.symm⟩
    · rintro ⟨h1 | h1, h2⟩
      · exact .inl ⟨h1, h2⟩
      · exact .inr h1
  · show ProdG ((en'.lab.slots, grp en'.eng.st) :: facs (adel e.regs (n, r))) t ↔ _
    rw [hs, hgrp t]
    exact trestricted_congr (fun t0 => (hJG t0).symm) x o t

/-! ### registers come and go -/

theorem facOf_fresh : facOf LEng.fresh = ([], grp Stab.empty) := rfl

theorem fresh_ok : LEng.fresh.OK := ⟨rfl, rfl, Reachable.empty⟩

theorem eop_newReg {rc : Bool} {e e' : EngSt} {n r : Nat} (hJ : JInv e) (hnone : aget e.regs (n, r) = none)
    (h : applyEOp rc e (.newReg n r) = some e') :
    JInv e' ∧ e'.next = e.next ∧ (∀ y, y ∈ allSlots e'.regs ↔ y ∈ allSlots e.regs) ∧
      (∀ t, JointGroup e' t ↔ JointGroup e t) ∧ aget e'.regs (n, r) = some LEng.fresh := by
  simp only [applyEOp, Option.some.injEq] at h
  subst h
  have had : adel e.regs (n, r) = e.regs := adel_of_notin (aget_eq_none.1 hnone)
  have hJ' : JInv { e with regs := aset e.regs (n, r) LEng.fresh } := by
    refine jinv_replace (nxt := e.next) hJ fresh_ok ?_ (fun x hx => by cases hx) (Nat.le_refl _)
    rw [had]; exact hJ.slots
  refine ⟨hJ', rfl, fun y => ?_, fun t => ?_, by simp [aget_aset]⟩
  · show y ∈ allSlots ((_, LEng.fresh) :: adel e.regs (n, r)) ↔ _
    rw [had]; exact Iff.rfl
  · show ProdG (facOf LEng.fresh :: facs (adel e.regs (n, r))) t ↔ _
    rw [had, facOf_fresh]
    exact prodG_nil_fac (grp_zero rfl rfl) t

theorem eop_addFresh {rc : Bool} {e e' : EngSt} {n r : Nat} {en : LEng} (hJ : JInv e)
    (hk : aget e.regs (n, r) = some en) (h : applyEOp rc e (.addFresh n r) = some e') :
    ∃ en', aget e'.regs (n, r) = some en' ∧ en'.lab.slots = en.lab.slots ++ [e.next] ∧
      JInv e' ∧ e'.next = e.next + 1 ∧ (∀ y, y ∈ allSlots e'.regs ↔ (y ∈ allSlots e.regs ∨ y = e.next)) ∧
      ∀ t, JointGroup e' t ↔ TAdded (JointGroup e) e.next t := by
  simp only [applyEOp] at h
  cases h1 : e.onReg (n, r) .addFresh [e.next] with
  | none => rw [h1] at h; cases h
  | some ea =>
    rw [h1] at h
    simp only [Option.map_some, Option.some.injEq] at h
    subst h
    obtain ⟨en0, en', hk0, hcall, rfl⟩ := onReg_some h1
    rw [hk] at hk0; cases hk0
    obtain ⟨hp, ok, hfo, hJG⟩ := hJ.view hk
    obtain ⟨ok', hs, hst⟩ := call_addFresh ok hcall
    have hps := allSlots_perm hp
    have hnd : (en.lab.slots ++ allSlots (adel e.regs (n, r))).Nodup := hps.nodup_iff.1 hJ.slots
    have hnd' := List.nodup_append.1 hnd
    have hfr : ∀ y, y ∈ en.lab.slots ++ allSlots (adel e.regs (n, r)) → y < e.next :=
      fun y hy => hJ.fresh y (hps.mem_iff.2 hy)
    have hx1 : e.next ∉ en.lab.slots := fun hm => Nat.lt_irrefl _ (hfr _ (List.mem_append_left _ hm))
    have hx2 : e.next ∉ allSlots (adel e.regs (n, r)) := fun hm => Nat.lt_irrefl _ (hfr _ (List.mem_append_right _ hm))
    have hn' : (en'.lab.slots ++ allSlots (adel e.regs (n, r))).Nodup := by
      rw [hs]
      refine List.nodup_append.2 ⟨List.nodup_append.2 ⟨hnd'.1, (by simp), ?_⟩, hnd'.2.1, ?_⟩
      · intro a ha b hb
        rw [List.mem_singleton] at hb; subst hb
        exact fun e => hx1 (e ▸ ha)
      · intro a ha b hb
        rcases List.mem_append.1 ha with ha | ha
        · exact hnd'.2.2 a ha b hb
        · rw [List.mem_singleton] at ha; subst ha
          exact fun e => hx2 (e ▸ hb)
    have hJ' : JInv { e with regs := aset e.regs (n, r) en', next := e.next + 1 } :=
      jinv_replace (nxt := e.next + 1) hJ ok' hn' (fun y hy => by
        rw [hs] at hy
        rcases List.mem_append.1 hy with hy | hy
        · exact Nat.lt_succ_of_lt (hfr y (List.mem_append_left _ hy))
        · rw [List.mem_singleton] at hy; subst hy; exact Nat.lt_succ_self _) (Nat.le_succ _)
    refine ⟨en', by simp [aget_aset], hs, hJ', rfl, fun y => ?_, fun t => ?_⟩
    · rw [hps.mem_iff]
      show y ∈ en'.lab.slots ++ _ ↔ (y ∈ en.lab.slots ++ _ ∨ _)
      rw [hs]
      simp only [List.mem_append, List.mem_singleton]
      constructor
      · rintro ((h | h) | h)
        · exact .inl (.inl h)
        · exact .inr h
        · exact .inl (.inr h)
      · rintro ((h | h) | h)
        · exact .inl (.inl h)
        · exact .inr h
        · exact .inl (.inr h)
    · show ProdG ((en'.lab.slots, grp en'.eng.st) :: facs (adel e.regs (n, r))) t ↔ _
      rw [hs, hst, stfac_add (FacsOK.headOK hfo) (leng_valid ok).toCommuting (leng_valid ok).count hx1 ?_ t]
      · exact tadded_congr (fun t0 => (hJG t0).symm) e.next t
      · intro F hF hxF
        obtain ⟨p, hp', rfl⟩ := List.mem_map.1 hF
        exact hx2 (mem_allSlots.2 ⟨p, hp', hxF⟩)

theorem delReg_some {rc : Bool} {e e' : EngSt} {n r : Nat} (h : applyEOp rc e (.delReg n r) = some e') :
    ∃ en, aget e.regs (n, r) = some en ∧ e' = { e with regs := adel e.regs (n, r) } := by
  simp only [applyEOp] at h
  cases hk : aget e.regs (n, r) with
  | none => rw [hk] at h; cases h
  | some en =>
    rw [hk] at h
    simp only [Option.some.injEq] at h
    exact ⟨en, rfl, h.symm⟩

theorem eop_delEmpty {rc : Bool} {e e' : EngSt} {n r : Nat} {en : LEng} (hJ : JInv e)
    (hk : aget e.regs (n, r) = some en) (hs : en.lab.slots = [])
    (h : applyEOp rc e (.delReg n r) = some e') :
    JInv e' ∧ e'.next = e.next ∧ (∀ y, y ∈ allSlots e'.regs ↔ y ∈ allSlots e.regs) ∧
      (∀ t, JointGroup e' t ↔ JointGroup e t) := by
  obtain ⟨_, _, rfl⟩ := delReg_some h
  obtain ⟨hp, ok, hfo, hJG⟩ := hJ.view hk
  have hps := allSlots_perm hp
  have hnd : (en.lab.slots ++ allSlots (adel e.regs (n, r))).Nodup := hps.nodup_iff.1 hJ.slots
  rw [hs, List.nil_append] at hnd
  refine ⟨⟨keys_adel_nodup _ _ hJ.keys, fun p hp' => hJ.ok p (mem_adel hp').1, hnd,
    fun x hx => hJ.fresh x (mem_allSlots_adel hx), hJ.flight⟩, rfl, fun y => ?_, fun t => ?_⟩
  · rw [hps.mem_iff]
    show _ ↔ y ∈ en.lab.slots ++ allSlots (adel e.regs (n, r))
    rw [hs, List.nil_append]
  · rw [hJG t]
    have hn0 : en.eng.st.n = 0 := by rw [ok.size, hs]; rfl
    show _ ↔ ProdG ((en.lab.slots, grp en.eng.st) :: _) t
    rw [hs]
    exact (prodG_nil_fac (grp_zero hn0 (leng_valid ok).count) t).symm

/-! ### merges -/

theorem runOps_cons {rc : Bool} {e e' : EngSt} {op : EOp} {ops : List EOp} (h : runOps rc e (op :: ops) = some e') :
    ∃ e1, applyEOp rc e op = some e1 ∧ runOps rc e1 ops = some e' := by
  simp only [runOps] at h
  cases h1 : applyEOp rc e op with
  | none => rw [h1] at h; cases h
  | some e1 => rw [h1] at h; exact ⟨e1, rfl, h⟩

theorem runOps_nil {rc : Bool} {e e' : EngSt} (h : runOps rc e [] = some e') : e' = e := by
  simp only [runOps, Option.some.injEq] at h; exact h.symm

/-- two registers are replaced by one whose state is their tensor product and whose slots are
the concatenation: invariant kept, same slot labels, same joint group -/
theorem merge_finish {e : EngSt} {k1 k2 : Key} {e1 e2 e1' : LEng} {R : List (Key × LEng)} (hJ : JInv e)
    (hperm : e.regs.Perm ((k1, e1) :: (k2, e2) :: R)) (ok' : e1'.OK)
    (hs : e1'.lab.slots = e1.lab.slots ++ e2.lab.slots) (hst : e1'.eng.st = tensor e1.eng.st e2.eng.st)
    (hkeys : (((k1, e1') :: R).map (·.1)).Nodup) :
    JInv { e with regs := (k1, e1') :: R } ∧ (∀ y, y ∈ allSlots ((k1, e1') :: R) ↔ y ∈ allSlots e.regs) ∧
      (∀ t, ProdG (facs ((k1, e1') :: R)) t ↔ JointGroup e t) := by
  have hps := allSlots_perm hperm
  have heq : allSlots ((k1, e1') :: R) = allSlots ((k1, e1) :: (k2, e2) :: R) := by
    simp only [allSlots_cons, hs, List.append_assoc]
  have hok1 : e1.OK := hJ.ok _ (hperm.mem_iff.2 List.mem_cons_self)
  have hok2 : e2.OK := hJ.ok _ (hperm.mem_iff.2 (List.mem_cons_of_mem _ List.mem_cons_self))
  have hfo : FacsOK (facOf e1 :: facOf e2 :: facs R) := hJ.facsOK.perm (facs_perm hperm)
  refine ⟨⟨hkeys, ?_, ?_, ?_, hJ.flight⟩, fun y => ?_, fun t => ?_⟩
  · intro p hp
    rcases List.mem_cons.1 hp with rfl | hp
    · exact ok'
    · exact hJ.ok p (hperm.mem_iff.2 (List.mem_cons_of_mem _ (List.mem_cons_of_mem _ hp)))
  · show (allSlots ((k1, e1') :: R)).Nodup
    rw [heq]; exact hps.nodup_iff.1 hJ.slots
  · intro x hx
    have hx' : x ∈ allSlots ((k1, e1') :: R) := hx
    rw [heq] at hx'
    exact hJ.fresh x (hps.mem_iff.2 hx')
  · rw [heq, hps.mem_iff]
  · rw [show JointGroup e t ↔ ProdG (facOf e1 :: facOf e2 :: facs R) t from prodG_perm (facs_perm hperm) t]
    show ProdG ((e1'.lab.slots, grp e1'.eng.st) :: facs R) t ↔ _
    rw [hs, hst]
    have v1 := leng_valid hok1
    have v2 := leng_valid hok2
    refine prodG_merge (GA := grp e1.eng.st) (GB := grp e2.eng.st) (fun p => ?_) hfo.head.width ?_ t
    · show InGroup (tensor e1.eng.st e2.eng.st).n (tensor e1.eng.st e2.eng.st).rows p ↔ _
      rw [Engine.tensor_n]
      exact C13.tensor_group e1.eng.st e2.eng.st v1.toCommuting v2.toCommuting v1.count v2.count p
    · intro x hx hx2
      exact hfo.disj hx (facOf e2) List.mem_cons_self hx2

theorem absorb_some {rc : Bool} {e e' : EngSt} {n r1 r2 : Nat} (h : applyEOp rc e (.absorb n r1 r2) = some e') :
    ∃ e1 e2 e1', aget e.regs (n, r1) = some e1 ∧ aget e.regs (n, r2) = some e2 ∧
      e1.raiseThen e2.eng.active (.absorb e2.eng) e2.lab.slots = some e1' ∧
      e' = { e with regs := aset e.regs (n, r1) e1' } := by
  simp only [applyEOp] at h
  cases hk1 : aget e.regs (n, r1) with
  | none => rw [hk1] at h; cases h
  | some e1 =>
    cases hk2 : aget e.regs (n, r2) with
    | none => rw [hk1, hk2] at h; cases h
    | some e2 =>
      rw [hk1, hk2] at h
      simp only at h
      cases hr : e1.raiseThen e2.eng.active (.absorb e2.eng) e2.lab.slots with
      | none => rw [hr] at h; cases h
      | some e1' =>
        rw [hr] at h
        simp only [Option.map_some, Option.some.injEq] at h
        exact ⟨e1, e2, e1', rfl, rfl, hr, h.symm⟩

/-- `local_merge_regs`: `reg1.absorb(reg2)` then `registers.pop(reg2)` -/
theorem blk_absorb {rc : Bool} {e e' : EngSt} {n r1 r2 : Nat} (hJ : JInv e) (hne : r1 ≠ r2)
    (h : runOps rc e [.absorb n r1 r2, .delReg n r2] = some e') :
    JInv e' ∧ e'.next = e.next ∧ (∀ y, y ∈ allSlots e'.regs ↔ y ∈ allSlots e.regs) ∧
      (∀ t, JointGroup e' t ↔ JointGroup e t) := by
  obtain ⟨ea, ha, h⟩ := runOps_cons h
  obtain ⟨eb, hb, h⟩ := runOps_cons h
  have := runOps_nil h; subst this
  obtain ⟨e1, e2, e1', hk1, hk2, hr, rfl⟩ := absorb_some ha
  obtain ⟨_, _, rfl⟩ := delReg_some hb
  have hkne : ((n, r1) : Key) ≠ (n, r2) := fun e => hne (by cases e; rfl)
  have hp1 := perm_of_aget hJ.keys hk1
  have hk2' : aget (adel e.regs (n, r1)) (n, r2) = some e2 := by
    rw [aget_adel, if_neg (fun e => hkne e.symm)]; exact hk2
  have hp2 := perm_of_aget (keys_adel_nodup _ _ hJ.keys) hk2'
  have hperm : e.regs.Perm (((n, r1), e1) :: ((n, r2), e2) :: adel (adel e.regs (n, r1)) (n, r2)) :=
    hp1.trans (hp2.cons _)
  have hok1 : e1.OK := hJ.ok _ (mem_of_aget _ _ _ hk1)
  have hok2 : e2.OK := hJ.ok _ (mem_of_aget _ _ _ hk2)
  obtain ⟨en1, ok1, s1, t1, hcall⟩ := raiseThen_some hok1 hr
  obtain ⟨ok', hs, hst⟩ := call_absorb ok1 hok2.size hok2.reach hcall
  rw [s1] at hs; rw [t1] at hst
  have hregs : adel (aset e.regs (n, r1) e1') (n, r2) =
      ((n, r1), e1') :: adel (adel e.regs (n, r1)) (n, r2) := adel_cons_ne _ _ _ hkne
  have hkeys : ((((n, r1), e1') :: adel (adel e.regs (n, r1)) (n, r2)).map (·.1)).Nodup := by
    rw [← hregs]; exact keys_adel_nodup _ _ (keys_aset_nodup _ _ _ hJ.keys)
  obtain ⟨hJ', hsl, hgrp⟩ := merge_finish hJ hperm ok' hs hst hkeys
  show JInv { e with regs := adel (aset e.regs (n, r1) e1') (n, r2) } ∧ _
  rw [hregs]
  exact ⟨hJ', rfl, hsl, hgrp⟩

theorem exportDel_some {rc : Bool} {e e' : EngSt} {n r : Nat} (h : applyEOp rc e (.exportDel n r) = some e') :
    ∃ en, aget e.regs (n, r) = some en ∧
      e' = { e with flight := aset e.flight (n, r)
                      { R := en.eng.getRegisterRI.1, activeQ := en.eng.active, labs := en.lab.slots } } := by
  simp only [applyEOp] at h
  cases hk : aget e.regs (n, r) with
  | none => rw [hk] at h; cases h
  | some en =>
    rw [hk] at h
    simp only [Option.some.injEq] at h
    exact ⟨en, rfl, h.symm⟩

theorem absorbParts_some {rc : Bool} {e e' : EngSt} {n r sn sr : Nat}
    (h : applyEOp rc e (.absorbParts n r sn sr) = some e') :
    ∃ en f en', aget e.regs (n, r) = some en ∧ aget e.flight (sn, sr) = some f ∧
      en.raiseThen f.activeQ (.absorbParts f.R f.activeQ) f.labs = some en' ∧
      e' = { e with regs := aset e.regs (n, r) en', flight := adel e.flight (sn, sr) } := by
  simp only [applyEOp] at h
  cases hk1 : aget e.regs (n, r) with
  | none => rw [hk1] at h; cases h
  | some en =>
    cases hk2 : aget e.flight (sn, sr) with
    | none => rw [hk1, hk2] at h; cases h
    | some f =>
      rw [hk1, hk2] at h
      simp only at h
      cases hr : en.raiseThen f.activeQ (.absorbParts f.R f.activeQ) f.labs with
      | none => rw [hr] at h; cases h
      | some en' =>
        rw [hr] at h
        simp only [Option.map_some, Option.some.injEq] at h
        exact ⟨en, f, en', rfl, rfl, hr, h.symm⟩

/-- `remote_merge_from`: `get_register_del` at the old simulator (export, `registers.pop`), then
`absorb_parts` of the exported matrix at the new one -/
theorem blk_pull {rc : Bool} {e e' : EngSt} {n r sn sr : Nat} (hJ : JInv e)
    (h : runOps rc e [.exportDel sn sr, .delReg sn sr, .absorbParts n r sn sr] = some e') :
    JInv e' ∧ e'.next = e.next ∧ (∀ y, y ∈ allSlots e'.regs ↔ y ∈ allSlots e.regs) ∧
      (∀ t, JointGroup e' t ↔ JointGroup e t) := by
  obtain ⟨ea, ha, h⟩ := runOps_cons h
  obtain ⟨eb, hb, h⟩ := runOps_cons h
  obtain ⟨ec, hc, h⟩ := runOps_cons h
  have := runOps_nil h; subst this
  obtain ⟨e2, hk2, rfl⟩ := exportDel_some ha
  obtain ⟨_, _, rfl⟩ := delReg_some hb
  obtain ⟨e1, f, e1', hk1, hf, hr, rfl⟩ := absorbParts_some hc
  simp only at hk1 hf
  rw [hJ.flight] at hf
  have hf' : f = { R := e2.eng.getRegisterRI.1, activeQ := e2.eng.active, labs := e2.lab.slots } := by
    simp [aset, adel, aget] at hf; exact hf.symm
  subst hf'
  have hkne : ((n, r) : Key) ≠ (sn, sr) := by
    intro e0
    rw [aget_adel, if_pos e0] at hk1; cases hk1
  rw [aget_adel, if_neg hkne] at hk1
  have hp2 := perm_of_aget hJ.keys hk2
  have hk1' : aget (adel e.regs (sn, sr)) (n, r) = some e1 := by
    rw [aget_adel, if_neg hkne]; exact hk1
  have hp1 := perm_of_aget (keys_adel_nodup _ _ hJ.keys) hk1'
  have hperm : e.regs.Perm (((n, r), e1) :: ((sn, sr), e2) :: adel (adel e.regs (sn, sr)) (n, r)) :=
    (hp2.trans (hp1.cons _)).trans (List.Perm.swap _ _ _)
  have hok1 : e1.OK := hJ.ok _ (mem_of_aget _ _ _ hk1)
  have hok2 : e2.OK := hJ.ok _ (mem_of_aget _ _ _ hk2)
  obtain ⟨en1, ok1, s1, t1, hcall⟩ := raiseThen_some hok1 hr
  have hq : ofArray (e2.eng.getRegisterRI.1) = some e2.eng.st :=
    ofArray_toArray _ (regOK_of_reachable _ hok2.reach)
  obtain ⟨ok', hs, hst⟩ := call_absorbParts ok1 hok2.size hq hok2.size hok2.reach hcall
  rw [s1] at hs; rw [t1] at hst
  have hkeys : ((((n, r), e1') :: adel (adel e.regs (sn, sr)) (n, r)).map (·.1)).Nodup :=
    keys_aset_nodup _ _ _ (keys_adel_nodup _ _ hJ.keys)
  obtain ⟨hJ', hsl, hgrp⟩ := merge_finish hJ hperm ok' hs hst hkeys
  have hfl : adel (aset ([] : List (Key × Flight)) (sn, sr)
      { R := e2.eng.getRegisterRI.1, activeQ := e2.eng.active, labs := e2.lab.slots }) (sn, sr) = [] := by
    simp [aset, adel]
  refine ⟨⟨hJ'.keys, hJ'.ok, hJ'.slots, hJ'.fresh, ?_⟩, rfl, hsl, hgrp⟩
  show adel (aset e.flight (sn, sr) _) (sn, sr) = []
  rw [hJ.flight]; exact hfl

end SqVerif.Joint

import SqVerif.NqVNet
import SqVerif.NqExecAcct
import SqVerif.NqExecRefine
/-
L5 over L2 — the NqExec side of the coupling: the node of the concrete backend `CQ`
changes exactly as the events of a request say (`node_trace`): for every request, in every
state satisfying the C11 invariant, replaying the emitted operations (and an accepted
arrival) on the node gives the node of the resulting state, and every replayed event is
possible (the token it names is held, a `new` finds room and gets the next token).
-/
namespace SqVerif.NqVNet

open SqVerif.NqExec List

variable {F : List Nat} {ext : Nat}

theorem nodeEvs_append (n : NqExec.Node) (a b : List NEv) :
    nodeEvs n (a ++ b) = (nodeEvs n a).bind fun n' => nodeEvs n' b := by
  induction a generalizing n with
  | nil => rfl
  | cons e a ih =>
    simp only [cons_append, nodeEvs]
    cases nodeEv n e with
    | none => rfl
    | some n' => exact ih n'

theorem held_of_aGet {c : CQ} (h : Inv F ext c) {k : Int} {t : Nat} (hg : aGet c.qlist k = some t) : t ∈ c.node.held :=
  h.toks_held t (mem_map.2 ⟨(k, t), mem_of_aGet hg, rfl⟩)

theorem held_of_resolve {c : CQ} (h : Inv F ext c) {v : Int} {p t : Nat} (hr : c.resolve v = some (p, t)) :
    t ∈ c.node.held := held_of_aGet h (resolve_entry hr)

theorem nodeEv_new {n : NqExec.Node} (hc : ¬ n.held.length ≥ n.cap) :
    nodeEv n (.op (.new n.next)) = some { n with held := n.held ++ [n.next], next := n.next + 1 } := by
  have : n.held.length < n.cap := by omega
  simp [nodeEv, this]

theorem cmdNew_cases (c : CQ) (k : Int) :
    (c.node.held.length ≥ c.node.cap ∧ c.cmdNew k = none) ∨
    (¬ c.node.held.length ≥ c.node.cap ∧ c.cmdNew k = some (c.registered k, c.node.next)) := by
  rw [CQ.cmdNew_eq]
  by_cases hc : c.node.held.length ≥ c.node.cap
  · exact Or.inl ⟨hc, if_pos hc⟩
  · exact Or.inr ⟨hc, if_neg hc⟩

/-- the abstract `new` of NqExec and the event agree -/
theorem nodeEv_new_iff (n : NqExec.Node) :
    (∀ n' t, n.new = some (n', t) → nodeEv n (.op (.new t)) = some n') ∧
    (n.new = none → ∀ t, nodeEv n (.op (.new t)) = none) := by
  unfold NqExec.Node.new
  by_cases hc : n.held.length ≥ n.cap
  · rw [if_pos hc]
    refine ⟨fun _ _ h => (nomatch h), fun _ t => ?_⟩
    have : ¬ n.held.length < n.cap := by omega
    simp [nodeEv, this]
  · rw [if_neg hc]
    refine ⟨fun n' t h => ?_, fun h => (nomatch h)⟩
    cases h
    exact nodeEv_new hc

/-! ### stop -/

theorem trace_stopLoop : ∀ (ps : List (Nat × Bool)) (c : CQ) (ops : List TOp), Inv F ext c → c.um = none →
    (ps.map (·.1)).Nodup →
    (∀ p : Nat, p ∈ ps.map (·.1) → p ∈ c.used ∧ (p : Int) ∈ keys c.qlist ∧ (-(1 + (p : Int))) ∉ keys c.qlist) →
    ∃ new, (c.stopLoop ps ops).2.1 = ops ++ new ∧
      nodeEvs (core c.node) (new.map .op) = some (core (c.stopLoop ps ops).1.node)
  | [], c, ops, _, _, _, _ => ⟨[], by simp [CQ.stopLoop], rfl⟩
  | (p, o) :: ps, c, ops, h, hum, hn, hall => by
    have hmap : mapped c = [] := by simp [mapped, hum]
    obtain ⟨hpu, hpk, hpn⟩ := hall p (by simp)
    unfold CQ.stopLoop
    rw [if_neg (by simpa using hpu)]
    dsimp only
    cases hg : aGet c.qlist (p : Int) with
    | none =>
      have := aGet_isSome_of_mem_keys hpk
      rw [hg] at this; cases this
    | some t =>
      dsimp only
      have h1 := h.kill (k := (p : Int)) (t := t) hg (by simp [hmap])
      have h2 := h1.unuse p (by simp [mapped, hum]) (by
        intro k hk hph
        rw [show ({ c with node := c.node.drop t, qlist := aDel c.qlist (p : Int) } : CQ).qlist = aDel c.qlist (p : Int) from rfl,
            keys_aDel, mem_filter] at hk
        rcases physOf_cases hph with e | e
        · subst e; simp at hk
        · subst e; exact hpn hk.1)
      simp only [map_cons, nodup_cons] at hn
      obtain ⟨new, e1, e2⟩ := trace_stopLoop ps
        { ({ c with used := c.used.erase p } : CQ) with node := c.node.drop t, qlist := aDel c.qlist (p : Int) }
        (ops ++ [.meas t false o]) h2 hum hn.2 (by
          intro q hq
          obtain ⟨hqu, hqk, hqn⟩ := hall q (by simp only [map_cons, mem_cons]; exact Or.inr hq)
          have hne : q ≠ p := fun e => hn.1 (e ▸ hq)
          refine ⟨(mem_erase_of_ne hne).2 hqu, ?_, ?_⟩
          · show (q : Int) ∈ keys (aDel c.qlist (p : Int))
            rw [keys_aDel, mem_filter]; exact ⟨hqk, by simpa using (by exact_mod_cast hne : (q : Int) ≠ p)⟩
          · show (-(1 + (q : Int))) ∉ keys (aDel c.qlist (p : Int))
            rw [keys_aDel, mem_filter]; exact fun hh => hqn hh.1)
      refine ⟨TOp.meas t false o :: new, by rw [e1]; simp, ?_⟩
      have hth : t ∈ (core c.node).held := held_of_aGet h hg
      simp only [map_cons, nodeEvs, nodeEv]
      rw [if_pos hth]
      exact e2

theorem trace_stopApp {c : CQ} (h : Inv F ext c) (env : Env) :
    nodeEvs (core c.node) ((c.stopApp env).ops.map .op) = some (core (c.stopApp env).st.node) := by
  unfold CQ.stopApp
  cases hum : c.um with
  | none => rfl
  | some um =>
    dsimp only
    by_cases hshort : env.outs.length < (um.filterMap id).length
    · rw [if_pos hshort]; rfl
    · rw [if_neg hshort]
      have hz : ((um.filterMap id).zip env.outs).map (·.1) = um.filterMap id :=
        map_fst_zip_of_le _ _ (by omega)
      obtain ⟨new, e1, e2⟩ := trace_stopLoop (F := F) (ext := ext) ((um.filterMap id).zip env.outs)
        { c with um := none } [] h.clearUm rfl
        (by rw [hz]; have := h.mapped_nodup; simpa [mapped, hum] using this)
        (by rw [hz]; intro p hp
            have hpm : p ∈ mapped c := by simpa [mapped, hum] using hp
            exact ⟨h.mapped_used p hpm, h.mapped_ql p hpm, h.neg_keys p hpm⟩)
      simp only [CQ.out]
      rw [e1]
      exact e2

/-! ### the other requests -/

theorem trace_alloc {c : CQ} (v : Int) (env : Env) :
    nodeEvs (core c.node) ((c.alloc v env).ops.map .op) = some (core (c.alloc v env).st.node) := by
  unfold CQ.alloc
  cases c.um with
  | none => rfl
  | some um =>
    dsimp only
    cases slotGet um v with
    | bad => rfl
    | full _ _ => rfl
    | empty i =>
      dsimp only
      rcases cmdNew_cases { c with um := some (um.set i (some (firstFree c.used))), used := firstFree c.used :: c.used }
        (firstFree c.used : Int) with ⟨_, e⟩ | ⟨hc, e⟩ <;> rw [e]
      · rfl
      · simp only [CQ.out, map_cons, map_nil, nodeEvs]
        have : nodeEv (core c.node) (.op (.new c.node.next)) = _ := nodeEv_new (n := core c.node) hc
        rw [this]
        rfl

theorem trace_resolved1 {c : CQ} (h : Inv F ext c) {v : Int} {p t : Nat} (hr : c.resolve v = some (p, t)) :
    t ∈ (core c.node).held := held_of_resolve h hr

theorem trace_init {c : CQ} (h : Inv F ext c) (v : Int) (env : Env) :
    nodeEvs (core c.node) ((c.init v env).ops.map .op) = some (core (c.init v env).st.node) := by
  rw [CQ.init_st]
  unfold CQ.init
  cases hr : c.resolve v with
  | none => rfl
  | some pt =>
    obtain ⟨p, t⟩ := pt
    have ht := trace_resolved1 h hr
    dsimp only
    cases env.outs with
    | nil => rfl
    | cons o rest =>
      cases o <;> simp [CQ.out, nodeEvs, nodeEv, ht, NqExec.G1.supported]

theorem trace_gate1 {c : CQ} (h : Inv F ext c) (g : NqExec.G1) (v : Int) (env : Env) :
    nodeEvs (core c.node) ((c.gate1 g v env).ops.map .op) = some (core (c.gate1 g v env).st.node) := by
  rw [CQ.gate1_st]
  unfold CQ.gate1
  cases hr : c.resolve v with
  | none => rfl
  | some pt =>
    obtain ⟨p, t⟩ := pt
    have ht := trace_resolved1 h hr
    dsimp only
    split
    · rename_i hg
      simp [CQ.out, nodeEvs, nodeEv, ht, hg]
    · rfl

theorem trace_gate2 {c : CQ} (h : Inv F ext c) (g : NqExec.G2) (v w : Int) (env : Env) :
    nodeEvs (core c.node) ((c.gate2 g v w env).ops.map .op) = some (core (c.gate2 g v w env).st.node) := by
  rw [CQ.gate2_st]
  unfold CQ.gate2
  cases hr1 : c.resolve v with
  | none => rfl
  | some pt1 =>
    cases hr2 : c.resolve w with
    | none => rfl
    | some pt2 =>
      obtain ⟨p1, t1⟩ := pt1
      obtain ⟨p2, t2⟩ := pt2
      have ht1 := trace_resolved1 h hr1
      have ht2 := trace_resolved1 h hr2
      dsimp only
      split
      · rfl
      · rename_i hne
        have hne' : t1 ≠ t2 := by
          intro e; subst e
          have := h.tok_inj (resolve_entry hr1) (resolve_entry hr2)
          exact hne (by exact_mod_cast this)
        simp [CQ.out, nodeEvs, nodeEv, ht1, ht2, hne']

theorem trace_meas {c : CQ} (h : Inv F ext c) (v : Int) (env : Env) :
    nodeEvs (core c.node) ((c.meas v env).ops.map .op) = some (core (c.meas v env).st.node) := by
  rw [CQ.meas_st]
  unfold CQ.meas
  cases hr : c.resolve v with
  | none => rfl
  | some pt =>
    obtain ⟨p, t⟩ := pt
    have ht := trace_resolved1 h hr
    dsimp only
    cases env.outs with
    | nil => rfl
    | cons o rest => simp [CQ.out, nodeEvs, nodeEv, ht]

theorem trace_free {c : CQ} (h : Inv F ext c) (v : Int) (env : Env) :
    nodeEvs (core c.node) ((c.free v env).ops.map .op) = some (core (c.free v env).st.node) := by
  unfold CQ.free
  cases c.um with
  | none => rfl
  | some um =>
    dsimp only
    cases slotGet um v with
    | bad => rfl
    | empty _ => rfl
    | full i p =>
      dsimp only
      cases env.outs with
      | nil => rfl
      | cons o rest =>
        dsimp only
        split
        · rfl
        · cases hg : aGet (c.qlist) (p : Int) with
          | none => rfl
          | some t =>
            have ht : t ∈ c.node.held := held_of_aGet h hg
            simp [CQ.out, nodeEvs, nodeEv, ht, core, NqExec.Node.drop]

theorem handOver_node (c : CQ) (q : Nat) (bad : Bool) (v : Option Int) : (c.handOver q bad v).2.node = c.node := by
  unfold CQ.handOver CQ.leak
  repeat' split
  all_goals rfl

theorem trace_eprCreate {c : CQ} (ok bad : Bool) (v : Option Int) (env : Env) :
    nodeEvs (core c.node) ((c.eprCreate ok bad v env).ops.map .op) = some (core (c.eprCreate ok bad v env).st.node) := by
  unfold CQ.eprCreate
  cases ok with
  | false => rfl
  | true =>
    dsimp only
    simp only [Bool.not_true, Bool.false_eq_true, if_false]
    rcases cmdNew_cases { c with used := firstFree c.used :: c.used } (firstFree c.used : Int) with ⟨_, e⟩ | ⟨hc1, e⟩ <;> rw [e]
    · rfl
    · dsimp only
      have hc1' : c.node.held.length < c.node.cap := by
        have : ¬ c.node.held.length ≥ c.node.cap := hc1
        omega
      rcases cmdNew_cases (CQ.registered { c with used := firstFree c.used :: c.used } (firstFree c.used : Int))
        (-(1 + (firstFree c.used : Int))) with ⟨_, e'⟩ | ⟨hc2, e'⟩ <;> rw [e']
      · simp [CQ.out, CQ.leak, nodeEvs, nodeEv, core, CQ.registered, hc1']
      · dsimp only
        have hc2' : c.node.held.length + 1 < c.node.cap := by
          have : ¬ (c.node.held ++ [c.node.next]).length ≥ c.node.cap := hc2
          simp only [length_append, length_cons, length_nil] at this
          omega
        cases env.sends with
        | nil => simp [CQ.out, CQ.leak, nodeEvs, nodeEv, core, CQ.registered, hc1', hc2', NqExec.G1.supported]
        | cons okS rest =>
          dsimp only
          cases okS with
          | false => simp [CQ.out, CQ.leak, nodeEvs, nodeEv, core, CQ.registered, hc1', hc2', NqExec.G1.supported]
          | true =>
            simp only [Bool.not_true, Bool.false_eq_true, if_false, CQ.out]
            rw [handOver_node]
            simp [nodeEvs, nodeEv, core, CQ.registered, hc1', hc2', NqExec.Node.drop, NqExec.G1.supported]

theorem trace_eprRecv {c : CQ} (s r : Int) (bad : Bool) (v : Option Int) (env : Env) :
    nodeEvs (core c.node) ((c.eprRecv s r bad v env).ops.map .op) = some (core (c.eprRecv s r bad v env).st.node) := by
  unfold CQ.eprRecv
  dsimp only
  split
  · rfl
  · split
    · rfl
    · split
      · rfl
      · simp only [CQ.out, map_cons, map_nil, nodeEvs, nodeEv, Option.bind]
        rw [handOver_node]
        rfl

theorem trace_arrive (c : CQ) (s d : Int) (env : Env) :
    nodeEvs (core c.node) (evsOf c (.arrive s d) (c.arrive s d env)) = some (core (c.arrive s d env).st.node) := by
  unfold CQ.arrive evsOf
  by_cases hc : c.node.held.length ≥ c.node.cap
  · simp only [hc, if_true, CQ.out]
    rw [if_neg (by simp)]; rfl
  · simp only [hc, if_false, CQ.out, if_true, nodeEvs, nodeEv]
    rw [if_pos ⟨by show c.node.held.length < c.node.cap; omega, rfl⟩]
    rfl

/-- T1: replaying the events of a request on the node gives the node of the resulting state -/
theorem node_trace {c : CQ} (h : Inv F ext c) (req : QReq) (env : Env) :
    nodeEvs (core c.node) (evsOf c req (c.q req env)) = some (core (c.q req env).st.node) := by
  cases req with
  | initApp m =>
    simp only [CQ.q, evsOf]
    unfold CQ.initApp
    split <;> rfl
  | stopApp => exact trace_stopApp h env
  | arrive s d => exact trace_arrive c s d env
  | alloc v => exact trace_alloc v env
  | init v => exact trace_init h v env
  | gate1 g v => exact trace_gate1 h g v env
  | gate2 g v w => exact trace_gate2 h g v w env
  | meas v => exact trace_meas h v env
  | free v => exact trace_free h v env
  | eprCreate ok bad v => exact trace_eprCreate ok bad v env
  | eprRecv s r bad v => exact trace_eprRecv s r bad v env

end SqVerif.NqVNet

import SqVerif.SkelDynLemmas
import SqVerif.SkelDynLemmasLegal
import SqVerif.SkelTwoPLTrans
/-!
# From paths of pointer skeletons to annotated transactions — layer L3, serves C03 (dynamic-guard bridge)

`transD ρ st ts i tr` translates an event trace of a pointer skeleton (`SkelDyn.DEv`) into an annotated
transaction (`SkelDyn.AAct`) under an assignment `ρ` (which locks / pointer resources / data resources / effects
the references, handles and positions of the trace denote).  The symbolic monitor state `st` is carried along (it
decides which comparisons count as validations), and so is the concrete state `ts`: the lock every capture slot
holds, the pointer resource every handle denotes (a `bind` makes the loop variable another handle — possibly one
that `c` or `t` also denote), and the concrete discipline state.

* `transD_disciplined`   a trace on which the monitor raises neither `violR` nor `violW` translates into a
                         transaction accepted by the concrete discipline `aRun` — whatever handles alias each other —
                         provided the transaction never re-acquires a lock it holds (true of every transaction of
                         a lock-exclusive schedule).
* `transD_weakTP`        … and into a transaction that is two-phase modulo aborted attempts.
-/
namespace SqVerif.SkelDyn
open SqVerif.Skel (Handle Exit union mem_union_nil)
open SqVerif.TwoPL SqVerif.SkelTwoPL SqVerif.TwoPLDyn

variable {V : Type}

/-- what the references, handles and positions of a trace denote in one run -/
structure DAsg (V : Type) where
  /-- the lock of `self`, `recv`, `peer`, `arg s` -/
  node : LRef → Lock
  /-- the lock of the node read by the (dirty) capture at position `i` -/
  cap : Nat → Lock
  /-- the pointer resource of each handle at entry -/
  hptr0 : Handle → Res
  /-- the pointer resource of the handle bound at position `i` -/
  hptr : Nat → Res
  /-- the data footprint of the use at position `i` -/
  data : Nat → List Res
  /-- the effect at position `i` -/
  F : Nat → St V → St V

/-- the concrete side of the translation state -/
structure TS where
  cur : Nat → Lock
  pt : Handle → Res
  cs : ASt

def lkOf (ρ : DAsg V) (ts : TS) : LRef → Lock
  | .cap k => ts.cur k
  | x => ρ.node x

def cvLookup (cs : ASt) (r : Res) : Option Lock :=
  match cs.valid.find? (fun p => p.1 == r) with
  | some p => some p.2
  | none => none

def setCur (ts : TS) (k : Nat) (l : Lock) : TS := { ts with cur := fun k' => if k' = k then l else ts.cur k' }
def setPt (ts : TS) (h : Handle) (r : Res) : TS := { ts with pt := fun h' => if h' = h then r else ts.pt h' }

/-- the concrete locks of a set of references, without repetition -/
def lksOf (ρ : DAsg V) (ts : TS) (g : List LRef) : List Lock := union [] (g.map (lkOf ρ ts))

/-- the annotated actions of one event -/
def transActs (ρ : DAsg V) (st : DSt) (ts : TS) (i : Nat) : DEv → List (AAct V)
  | .acq ls false => (lksOf ρ ts ls).map AAct.acq
  | .rel ls =>
    match groupOfAll st ls with
    | some g => (lksOf ρ ts g).map AAct.rel
    | none => []
  | .reval h l true =>
    match st.groupOf l with
    | some g => if decide (g ∈ st.held) then [AAct.val (ts.pt h) (lkOf ρ ts l) (ρ.F i)] else []
    | none => []
  | .use h =>
    match st.lookup h, cvLookup ts.cs (ts.pt h) with
    | some _, some l => [AAct.use (ts.pt h) (ρ.data i) l (ρ.F i)]
    | _, _ => []
  | .repoint h new =>
    match st.lookup h, st.groupOf new with
    | some _, some g => if decide (g ∈ st.held) then [AAct.rep (ts.pt h) (lkOf ρ ts new) (ρ.F i)] else []
    | _, _ => []
  | _ => []

def aRunD (cs : ASt) (a : List (AAct V)) : ASt :=
  match aRun cs a with
  | some c => c
  | none => cs

/-- the concrete state after one event -/
def transTS (ρ : DAsg V) (st : DSt) (ts : TS) (i : Nat) (e : DEv) : TS :=
  match e with
  | .readPtr h k =>
    match st.lookup h, cvLookup ts.cs (ts.pt h) with
    | some _, some l => setCur ts k l
    | _, _ => setCur ts k (ρ.cap i)
  | .bind h => setPt ts h (ρ.hptr i)
  | e => { ts with cs := aRunD ts.cs (transActs ρ st ts i e) }

def transD (ρ : DAsg V) : DSt → TS → Nat → List DEv → List (AAct V)
  | _, _, _, [] => []
  | st, ts, i, e :: rest => transActs ρ st ts i e ++ transD ρ (dStep st e) (transTS ρ st ts i e) (i + 1) rest

def ts0 (ρ : DAsg V) : TS := ⟨fun _ => 0, ρ.hptr0, ⟨[], []⟩⟩

/-! ### `aRun` on lists of acquires / releases, and appended -/

theorem aRun_append (a b : List (AAct V)) : ∀ cs, aRun cs (a ++ b) = (aRun cs a).bind (fun c => aRun c b) := by
  induction a with
  | nil => intro cs; rfl
  | cons x xs ih =>
    intro cs
    simp only [List.cons_append, aRun]
    cases aStep cs x with
    | none => rfl
    | some c => exact ih c

theorem aRun_acqs (L : List Lock) : ∀ cs : ASt, ∃ c, aRun cs (L.map (AAct.acq : Lock → AAct V)) = some c ∧
    c.valid = cs.valid ∧ ∀ l, l ∈ c.held ↔ l ∈ L ∨ l ∈ cs.held := by
  induction L with
  | nil => intro cs; exact ⟨cs, rfl, rfl, fun l => by simp⟩
  | cons x xs ih =>
    intro cs
    obtain ⟨c, hc, hv, hh⟩ := ih { cs with held := x :: cs.held }
    refine ⟨c, by simpa [aRun, aStep] using hc, hv, ?_⟩
    intro l
    rw [hh l]
    simp only [List.mem_cons]
    constructor
    · rintro (h | h | h)
      · exact Or.inl (Or.inr h)
      · exact Or.inl (Or.inl h)
      · exact Or.inr h
    · rintro ((h | h) | h)
      · exact Or.inr (Or.inl h)
      · exact Or.inl h
      · exact Or.inr (Or.inr h)

theorem aRun_rels (L : List Lock) : ∀ cs : ASt, ∃ c, aRun cs (L.map (AAct.rel : Lock → AAct V)) = some c ∧
    (∀ l, l ∈ c.held ↔ l ∈ cs.held ∧ l ∉ L) ∧ (∀ p, p ∈ c.valid ↔ p ∈ cs.valid ∧ p.2 ∉ L) := by
  induction L with
  | nil => intro cs; exact ⟨cs, rfl, fun l => by simp, fun p => by simp⟩
  | cons x xs ih =>
    intro cs
    obtain ⟨c, hc, hh, hv⟩ :=
      ih { held := cs.held.filter (fun l' => l' != x), valid := cs.valid.filter (fun p => p.2 != x) }
    refine ⟨c, by simpa [aRun, aStep] using hc, ?_, ?_⟩
    · intro l
      rw [hh l]
      simp only [List.mem_filter, bne_iff_ne, ne_eq, List.mem_cons, not_or]
      constructor
      · rintro ⟨⟨h1, h2⟩, h3⟩; exact ⟨h1, h2, h3⟩
      · rintro ⟨h1, h2, h3⟩; exact ⟨⟨h1, h2⟩, h3⟩
    · intro p
      rw [hv p]
      simp only [List.mem_filter, bne_iff_ne, ne_eq, List.mem_cons, not_or]
      constructor
      · rintro ⟨⟨h1, h2⟩, h3⟩; exact ⟨h1, h2, h3⟩
      · rintro ⟨h1, h2, h3⟩; exact ⟨⟨h1, h2⟩, h3⟩

theorem aRun_held (a : List (AAct V)) : ∀ cs c, aRun cs a = some c → c.held = holds cs.held (a.map AAct.erase) := by
  induction a with
  | nil => intro cs c h; simp only [aRun, Option.some.injEq] at h; subst h; rfl
  | cons x xs ih =>
    intro cs c h
    simp only [aRun] at h
    cases hs : aStep cs x with
    | none => rw [hs] at h; cases h
    | some c1 =>
      rw [hs] at h
      rw [ih c1 c h, aStep_held cs c1 x hs]
      simp [holds]

theorem map_erase_acq (L : List Lock) : (L.map (AAct.acq : Lock → AAct V)).map AAct.erase = L.map Act.acq := by
  induction L with
  | nil => rfl
  | cons x xs ih => simp only [List.map_cons, ih]; rfl

theorem map_erase_rel (L : List Lock) : (L.map (AAct.rel : Lock → AAct V)).map AAct.erase = L.map Act.rel := by
  induction L with
  | nil => rfl
  | cons x xs ih => simp only [List.map_cons, ih]; rfl

/-! ### facts about the monitor state -/

theorem lookup_mem (st : DSt) (h : Handle) (g : Grp) (hl : st.lookup h = some g) : (h, g) ∈ st.valid := by
  unfold DSt.lookup at hl
  cases hf : st.valid.find? (fun p => p.1 == h) with
  | none => rw [hf] at hl; cases hl
  | some p =>
    rw [hf] at hl
    simp only [Option.some.injEq] at hl
    have hm := List.mem_of_find?_eq_some hf
    have hp := List.find?_some hf
    simp only [beq_iff_eq] at hp
    cases p with
    | mk a b => simp only at hl hp; subst hl; subst hp; exact hm

theorem slot_mem (st : DSt) (k : Nat) (g : Grp) (hl : st.slot k = some g) : (k, g) ∈ st.slots := by
  unfold DSt.slot at hl
  cases hf : st.slots.find? (fun p => p.1 == k) with
  | none => rw [hf] at hl; cases hl
  | some p =>
    rw [hf] at hl
    simp only [Option.some.injEq] at hl
    have hm := List.mem_of_find?_eq_some hf
    have hp := List.find?_some hf
    simp only [beq_iff_eq] at hp
    cases p with
    | mk a b => simp only at hl hp; subst hl; subst hp; exact hm

theorem cvLookup_mem (cs : ASt) (r : Res) (l : Lock) (hl : cvLookup cs r = some l) : (r, l) ∈ cs.valid := by
  unfold cvLookup at hl
  cases hf : cs.valid.find? (fun p => p.1 == r) with
  | none => rw [hf] at hl; cases hl
  | some p =>
    rw [hf] at hl
    simp only [Option.some.injEq] at hl
    have hm := List.mem_of_find?_eq_some hf
    have hp := List.find?_some hf
    simp only [beq_iff_eq] at hp
    cases p with
    | mk a b => simp only at hl hp; subst hl; subst hp; exact hm

theorem cvLookup_some (cs : ASt) (r : Res) (l : Lock) (hm : (r, l) ∈ cs.valid) : ∃ l', cvLookup cs r = some l' := by
  unfold cvLookup
  cases hf : cs.valid.find? (fun p => p.1 == r) with
  | none =>
    have := List.find?_eq_none.1 hf (r, l) hm
    simp at this
  | some p => exact ⟨p.2, rfl⟩

theorem find_group_spec (held : List Grp) (x : LRef) (g : Grp)
    (h : held.find? (fun g => decide (x ∈ g)) = some g) : g ∈ held ∧ x ∈ g := by
  have hm := List.mem_of_find?_eq_some h
  have hp := List.find?_some h
  exact ⟨hm, by simpa using hp⟩

/-- the held set a reference belongs to: through a slot, or as a member -/
theorem groupOf_spec (st : DSt) (x : LRef) (g : Grp) (h : st.groupOf x = some g) :
    (∃ k, x = .cap k ∧ (k, g) ∈ st.slots) ∨ (g ∈ st.held ∧ x ∈ g) := by
  cases x with
  | cap k =>
    simp only [DSt.groupOf] at h
    cases hs : st.slot k with
    | some g' =>
      rw [hs] at h
      simp only [Option.some.injEq] at h
      subst h
      exact Or.inl ⟨k, rfl, slot_mem st k g' hs⟩
    | none =>
      rw [hs] at h
      exact Or.inr (find_group_spec _ _ _ h)
  | self => exact Or.inr (find_group_spec _ _ _ h)
  | recv => exact Or.inr (find_group_spec _ _ _ h)
  | peer => exact Or.inr (find_group_spec _ _ _ h)
  | arg s => exact Or.inr (find_group_spec _ _ _ h)

theorem groupOfAll_spec (st : DSt) (ls : List LRef) (g : Grp) (h : groupOfAll st ls = some g) :
    ∀ l, l ∈ ls → st.groupOf l = some g := by
  induction ls with
  | nil => intro l hl; cases hl
  | cons a r ih =>
    intro l hl
    cases r with
    | nil =>
      simp only [groupOfAll] at h
      simp only [List.mem_singleton] at hl
      subst hl; exact h
    | cons b r' =>
      simp only [groupOfAll] at h
      cases ha : st.groupOf a with
      | none => rw [ha] at h; cases h
      | some g1 =>
        rw [ha] at h
        cases hr : groupOfAll st (b :: r') with
        | none => rw [hr] at h; cases h
        | some g2 =>
          rw [hr] at h
          simp only at h
          split at h
          · rename_i heq
            simp only [Option.some.injEq] at h
            subst h
            rcases List.mem_cons.1 hl with rfl | hl
            · exact ha
            · exact ih (by rw [hr, heq]) l hl
          · cases h

theorem dStep_violR_mono (st : DSt) (e : DEv) (h : (dStep st e).violR = false) : st.violR = false := by
  cases e with
  | readPtr hh k =>
    simp only [dStep] at h
    split at h
    · cases h
    · split at h <;> exact h
  | acq ls b =>
    cases b with
    | true => exact h
    | false =>
      simp only [dStep] at h
      split at h
      · cases h
      · exact h
  | rel ls =>
    simp only [dStep] at h
    split at h
    · split at h
      · exact h
      · cases h
    · cases h
  | cancel => simp [dStep] at h
  | reval hh l ok =>
    cases ok with
    | false => exact h
    | true =>
      simp only [dStep] at h
      split at h
      · split at h <;> exact h
      · exact h
  | use hh =>
    simp only [dStep] at h
    split at h
    · exact h
    · cases h
  | repoint hh new =>
    simp only [dStep] at h
    split at h
    · split at h <;> exact h
    · exact h
  | bind hh => exact h
  | requires l =>
    simp only [dStep] at h
    split at h
    · split at h
      · exact h
      · cases h
    · cases h
  | iter l => exact h

theorem dStep_violW_mono (st : DSt) (e : DEv) (h : (dStep st e).violW = false) : st.violW = false := by
  cases e with
  | readPtr hh k =>
    simp only [dStep] at h
    split at h
    · exact h
    · split at h <;> exact h
  | acq ls b =>
    cases b with
    | true => exact h
    | false =>
      simp only [dStep] at h
      split at h <;> exact h
  | rel ls =>
    simp only [dStep] at h
    split at h
    · split at h <;> exact h
    · exact h
  | cancel => exact h
  | reval hh l ok =>
    cases ok with
    | false => exact h
    | true =>
      simp only [dStep] at h
      split at h
      · split at h <;> exact h
      · exact h
  | use hh =>
    simp only [dStep] at h
    split at h <;> exact h
  | repoint hh new =>
    simp only [dStep] at h
    split at h
    · split at h
      · exact h
      · cases h
    · cases h
  | bind hh => exact h
  | requires l =>
    simp only [dStep] at h
    split at h
    · split at h <;> exact h
    · exact h
  | iter l => exact h

theorem fold_violR_mono (tr : List DEv) : ∀ st : DSt, (tr.foldl dStep st).violR = false → st.violR = false := by
  induction tr with
  | nil => intro _ h; exact h
  | cons e rest ih => intro st h; exact dStep_violR_mono st e (ih _ h)

theorem fold_violW_mono (tr : List DEv) : ∀ st : DSt, (tr.foldl dStep st).violW = false → st.violW = false := by
  induction tr with
  | nil => intro _ h; exact h
  | cons e rest ih => intro st h; exact dStep_violW_mono st e (ih _ h)

/-! ### the simulation invariant -/

/-- what the symbolic account of the monitor means concretely -/
structure RInv (ρ : DAsg V) (st : DSt) (ts : TS) : Prop where
  nodup : st.held.Nodup
  heldSub : ∀ g, g ∈ st.held → ∀ x, x ∈ g → lkOf ρ ts x ∈ ts.cs.held
  disj : ∀ g1, g1 ∈ st.held → ∀ g2, g2 ∈ st.held → g1 ≠ g2 → ∀ x1, x1 ∈ g1 → ∀ x2, x2 ∈ g2 →
    lkOf ρ ts x1 ≠ lkOf ρ ts x2
  valid : ∀ h g, (h, g) ∈ st.valid → g ∈ st.held ∧ ∃ x, x ∈ g ∧ (ts.pt h, lkOf ρ ts x) ∈ ts.cs.valid
  slots : ∀ k g, (k, g) ∈ st.slots → g ∈ st.held ∧ ∃ x, x ∈ g ∧ ts.cur k = lkOf ρ ts x
  cvalid : ∀ r l, (r, l) ∈ ts.cs.valid → l ∈ ts.cs.held
  cuniq : ∀ r l l', (r, l) ∈ ts.cs.valid → (r, l') ∈ ts.cs.valid → l = l'

theorem rinv0 (ρ : DAsg V) : RInv ρ (dInit [] []) (ts0 ρ) where
  nodup := List.nodup_nil
  heldSub := fun g hg => by cases hg
  disj := fun g1 hg => by cases hg
  valid := fun h g hm => by cases hm
  slots := fun k g hm => by cases hm
  cvalid := fun r l hm => by cases hm
  cuniq := fun r l l' hm => by cases hm

/-- the concrete lock of a reference that belongs to the held set `g` is the lock of a member of `g` -/
theorem groupOf_lk (ρ : DAsg V) (st : DSt) (ts : TS) (hR : RInv ρ st ts) (x : LRef) (g : Grp)
    (h : st.groupOf x = some g) : ∃ y, y ∈ g ∧ lkOf ρ ts x = lkOf ρ ts y := by
  rcases groupOf_spec st x g h with ⟨k, rfl, hk⟩ | ⟨_, hx⟩
  · obtain ⟨_, y, hy, hc⟩ := hR.slots k g hk
    exact ⟨y, hy, hc⟩
  · exact ⟨x, hx, rfl⟩

theorem holds_iff (st : DSt) (x : LRef) : st.holds x = true ↔ ∃ g, g ∈ st.held ∧ x ∈ g := by
  unfold DSt.holds
  simp only [List.any_eq_true, decide_eq_true_eq]

theorem mem_lksOf (ρ : DAsg V) (ts : TS) (g : List LRef) (l : Lock) :
    l ∈ lksOf ρ ts g ↔ ∃ x, x ∈ g ∧ lkOf ρ ts x = l := by
  unfold lksOf
  rw [mem_union_nil, List.mem_map]

/-- updating the concrete discipline state only -/
theorem lkOf_cs (ρ : DAsg V) (ts : TS) (c : ASt) (x : LRef) : lkOf ρ { ts with cs := c } x = lkOf ρ ts x := by
  cases x <;> rfl

theorem lkOf_setCur_ne (ρ : DAsg V) (ts : TS) (k : Nat) (l : Lock) (x : LRef) (hx : x ≠ .cap k) :
    lkOf ρ (setCur ts k l) x = lkOf ρ ts x := by
  cases x with
  | cap k' =>
    have : k' ≠ k := fun e => hx (by rw [e])
    simp [lkOf, setCur, this]
  | self => rfl
  | recv => rfl
  | peer => rfl
  | arg s => rfl

theorem lkOf_setPt (ρ : DAsg V) (ts : TS) (h : Handle) (r : Res) (x : LRef) :
    lkOf ρ (setPt ts h r) x = lkOf ρ ts x := by
  cases x <;> rfl

theorem mem_setValid (st : DSt) (h h' : Handle) (g g' : Grp) (hm : (h', g') ∈ st.setValid h g) :
    (h' = h ∧ g' = g) ∨ ((h', g') ∈ st.valid ∧ h' ≠ h ∧ g' = g) := by
  unfold DSt.setValid at hm
  rcases List.mem_cons.1 hm with he | hm
  · left; simpa using he
  · right
    obtain ⟨h1, h2⟩ := List.mem_filter.1 hm
    simp only [Bool.and_eq_true, bne_iff_ne, ne_eq, beq_iff_eq] at h2
    exact ⟨h1, h2.1, h2.2⟩

/-- re-validating / re-pointing the pointer of `h` to the lock `l` of a member of the held set `g` -/
theorem rinv_setValid (ρ : DAsg V) (st : DSt) (ts : TS) (hR : RInv ρ st ts) (h : Handle) (g : Grp) (l : Lock)
    (hg : g ∈ st.held) (hl : ∃ y, y ∈ g ∧ l = lkOf ρ ts y) (e s : Bool) :
    RInv ρ { st with valid := st.setValid h g, eff := e, shrinking := s }
      { ts with cs := { ts.cs with valid := (ts.pt h, l) :: ts.cs.valid.filter (fun p => p.1 != ts.pt h) } } where
  nodup := hR.nodup
  heldSub := fun g1 hg1 x hx => by rw [lkOf_cs]; exact hR.heldSub g1 hg1 x hx
  disj := fun g1 hg1 g2 hg2 hne x1 hx1 x2 hx2 => by
    simp only [lkOf_cs]; exact hR.disj g1 hg1 g2 hg2 hne x1 hx1 x2 hx2
  valid := by
    intro h' g' hm
    obtain ⟨y, hy, hly⟩ := hl
    rcases mem_setValid st h h' g g' hm with ⟨rfl, rfl⟩ | ⟨hm', hne, rfl⟩
    · refine ⟨hg, y, hy, ?_⟩
      rw [lkOf_cs, ← hly]
      exact List.mem_cons_self
    · refine ⟨hg, ?_⟩
      obtain ⟨_, x, hx, hv⟩ := hR.valid h' g' hm'
      by_cases hp : ts.pt h' = ts.pt h
      · refine ⟨y, hy, ?_⟩
        rw [lkOf_cs, ← hly]
        show (ts.pt h', l) ∈ (ts.pt h, l) :: _
        rw [hp]
        exact List.mem_cons_self
      · refine ⟨x, hx, ?_⟩
        rw [lkOf_cs]
        exact List.mem_cons_of_mem _ (List.mem_filter.2 ⟨hv, by simpa using hp⟩)
  slots := fun k g1 hm => by
    obtain ⟨a, x, hx, hc⟩ := hR.slots k g1 hm
    exact ⟨a, x, hx, by rw [lkOf_cs]; exact hc⟩
  cvalid := by
    intro r l' hm
    obtain ⟨y, hy, hly⟩ := hl
    rcases List.mem_cons.1 hm with he | hm
    · simp only [Prod.mk.injEq] at he
      rw [he.2, hly]
      exact hR.heldSub g hg y hy
    · exact hR.cvalid r l' (List.mem_filter.1 hm).1
  cuniq := by
    intro r l1 l2 h1 h2
    rcases List.mem_cons.1 h1 with e1 | h1
    · rcases List.mem_cons.1 h2 with e2 | h2
      · simp only [Prod.mk.injEq] at e1 e2; rw [e1.2, e2.2]
      · simp only [Prod.mk.injEq] at e1
        have := (List.mem_filter.1 h2).2
        simp [e1.1] at this
    · rcases List.mem_cons.1 h2 with e2 | h2
      · simp only [Prod.mk.injEq] at e2
        have := (List.mem_filter.1 h1).2
        simp [e2.1] at this
      · exact hR.cuniq r l1 l2 (List.mem_filter.1 h1).1 (List.mem_filter.1 h2).1

theorem rinv_congr (ρ : DAsg V) (st st' : DSt) (ts : TS) (h1 : st'.held = st.held) (h2 : st'.valid = st.valid)
    (h3 : st'.slots = st.slots) (hR : RInv ρ st ts) : RInv ρ st' ts where
  nodup := by rw [h1]; exact hR.nodup
  heldSub := by rw [h1]; exact hR.heldSub
  disj := by rw [h1]; exact hR.disj
  valid := by rw [h1, h2]; exact hR.valid
  slots := by rw [h1, h3]; exact hR.slots
  cvalid := hR.cvalid
  cuniq := hR.cuniq

/-- a capture into slot `k`, whose name is not held: the new content is either nothing (`news = none`, a dirty
    read) or a node of the held set `g` -/
theorem rinv_readPtr (ρ : DAsg V) (st : DSt) (ts : TS) (hR : RInv ρ st ts) (k : Nat) (l : Lock)
    (hnh : st.holds (.cap k) = false) (slots' : List (Nat × Grp))
    (hs : ∀ k' g', (k', g') ∈ slots' → (k' ≠ k ∧ (k', g') ∈ st.slots) ∨
      (k' = k ∧ g' ∈ st.held ∧ ∃ x, x ∈ g' ∧ l = lkOf ρ ts x)) :
    RInv ρ { st with slots := slots' } (setCur ts k l) := by
  have hne : ∀ g, g ∈ st.held → ∀ x, x ∈ g → x ≠ .cap k := by
    intro g hg x hx he
    subst he
    have : st.holds (.cap k) = true := (holds_iff st _).2 ⟨g, hg, hx⟩
    rw [hnh] at this; cases this
  have hlk : ∀ g, g ∈ st.held → ∀ x, x ∈ g → lkOf ρ (setCur ts k l) x = lkOf ρ ts x :=
    fun g hg x hx => lkOf_setCur_ne ρ ts k l x (hne g hg x hx)
  exact {
    nodup := hR.nodup
    heldSub := fun g hg x hx => by rw [hlk g hg x hx]; exact hR.heldSub g hg x hx
    disj := fun g1 hg1 g2 hg2 hn x1 hx1 x2 hx2 => by
      rw [hlk g1 hg1 x1 hx1, hlk g2 hg2 x2 hx2]; exact hR.disj g1 hg1 g2 hg2 hn x1 hx1 x2 hx2
    valid := fun h g hm => by
      obtain ⟨hg, x, hx, hv⟩ := hR.valid h g hm
      exact ⟨hg, x, hx, by rw [hlk g hg x hx]; exact hv⟩
    slots := fun k' g' hm => by
      rcases hs k' g' hm with ⟨hk, hm'⟩ | ⟨hk, hg, x, hx, hl⟩
      · obtain ⟨hg, x, hx, hc⟩ := hR.slots k' g' hm'
        refine ⟨hg, x, hx, ?_⟩
        rw [hlk g' hg x hx]
        simp only [setCur, if_neg hk]
        exact hc
      · refine ⟨hg, x, hx, ?_⟩
        rw [hlk g' hg x hx, hk]
        simp only [setCur, if_true]
        exact hl
    cvalid := hR.cvalid
    cuniq := hR.cuniq }

theorem mem_filter_slot {k k' : Nat} {g' : Grp} {v : List (Nat × Grp)}
    (h : (k', g') ∈ v.filter (fun p => p.1 != k)) : k' ≠ k ∧ (k', g') ∈ v := by
  obtain ⟨h1, h2⟩ := List.mem_filter.1 h
  exact ⟨by simpa using h2, h1⟩

/-- **one event**: if the monitor raises no reader/writer violation on `e`, the actions `e` translates into are
    accepted by the concrete discipline, and the invariant is kept -/
theorem trans_step (ρ : DAsg V) (st : DSt) (ts : TS) (i : Nat) (e : DEv) (hR : RInv ρ st ts)
    (hvR : (dStep st e).violR = false) (hvW : (dStep st e).violW = false)
    (hnr : noReacqFrom ts.cs.held ((transActs ρ st ts i e).map AAct.erase)) :
    ∃ c, aRun ts.cs (transActs ρ st ts i e) = some c ∧ (transTS ρ st ts i e).cs = c ∧
      RInv ρ (dStep st e) (transTS ρ st ts i e) := by
  cases e with
  | readPtr h k =>
    refine ⟨ts.cs, rfl, ?_, ?_⟩
    · simp only [transTS]
      split <;> rfl
    · simp only [dStep] at hvR ⊢
      split at hvR
      · cases hvR
      · rename_i hnh
        have hnh' : st.holds (.cap k) = false := by simpa using hnh
        rw [if_neg hnh]
        simp only [transTS]
        cases hl : st.lookup h with
        | none =>
          simp only
          apply rinv_readPtr ρ st ts hR k _ hnh'
          intro k' g' hm
          exact Or.inl (mem_filter_slot hm)
        | some g =>
          obtain ⟨hg, x, hx, hv⟩ := hR.valid h g (lookup_mem st h g hl)
          obtain ⟨l', hl'⟩ := cvLookup_some ts.cs (ts.pt h) _ hv
          rw [hl']
          simp only
          have hll : l' = lkOf ρ ts x := hR.cuniq _ _ _ (cvLookup_mem _ _ _ hl') hv
          apply rinv_readPtr ρ st ts hR k l' hnh'
          intro k' g' hm
          rcases List.mem_cons.1 hm with he | hm
          · simp only [Prod.mk.injEq] at he
            right
            rw [he.1, he.2]
            exact ⟨rfl, hg, x, hx, hll⟩
          · exact Or.inl (mem_filter_slot hm)
  | acq ls b =>
    cases b with
    | true => exact ⟨ts.cs, rfl, rfl, hR⟩
    | false =>
      simp only [dStep] at hvR ⊢
      split at hvR
      · cases hvR
      · rename_i hc
        rw [if_neg hc]
        simp only [Bool.or_eq_true, not_or, Bool.not_eq_true] at hc
        obtain ⟨⟨⟨_, _⟩, hnheld⟩, hnemp⟩ := hc
        simp only [transActs] at hnr ⊢
        rw [map_erase_acq] at hnr
        have hfresh := noReacqFrom_acqs (V := V) _ _ hnr
        obtain ⟨c, hc, hcv, hch⟩ := aRun_acqs (V := V) (lksOf ρ ts ls) ts.cs
        have hts : (transTS ρ st ts i (.acq ls false)).cs = c := by
          simp only [transTS, transActs, aRunD, hc]
        refine ⟨c, hc, hts, ?_⟩
        have htseq : transTS ρ st ts i (.acq ls false) = { ts with cs := c } := by
          simp only [transTS, transActs, aRunD, hc]
        rw [htseq]
        have hnh : ∀ x, x ∈ ls → ∀ g, g ∈ st.held → x ∉ g := by
          intro x hx g hg hxg
          have h1 : st.holds x = true := (holds_iff st x).2 ⟨g, hg, hxg⟩
          have h2 := List.any_eq_false.1 hnheld x hx
          rw [h1] at h2; exact h2 rfl
        have hnotin : ls ∉ st.held := by
          intro hin
          cases ls with
          | nil => simp at hnemp
          | cons x xs => exact hnh x (by simp) _ hin (by simp)
        exact {
          nodup := by
            simp only
            rw [List.nodup_append]
            refine ⟨hR.nodup, by simp, ?_⟩
            intro a ha b hb
            simp only [List.mem_singleton] at hb
            subst hb
            intro he; subst he; exact hnotin ha
          heldSub := by
            intro g hg x hx
            rw [lkOf_cs]
            simp only [List.mem_append, List.mem_singleton] at hg
            rw [hch]
            rcases hg with hg | rfl
            · exact Or.inr (hR.heldSub g hg x hx)
            · exact Or.inl ((mem_lksOf ρ ts _ _).2 ⟨x, hx, rfl⟩)
          disj := by
            intro g1 hg1 g2 hg2 hne x1 hx1 x2 hx2
            simp only [lkOf_cs]
            simp only [List.mem_append, List.mem_singleton] at hg1 hg2
            rcases hg1 with hg1 | rfl
            · rcases hg2 with hg2 | rfl
              · exact hR.disj g1 hg1 g2 hg2 hne x1 hx1 x2 hx2
              · intro he
                apply hfresh (lkOf ρ ts x2) ((mem_lksOf ρ ts _ _).2 ⟨x2, hx2, rfl⟩)
                rw [← he]; exact hR.heldSub g1 hg1 x1 hx1
            · rcases hg2 with hg2 | rfl
              · intro he
                apply hfresh (lkOf ρ ts x1) ((mem_lksOf ρ ts _ _).2 ⟨x1, hx1, rfl⟩)
                rw [he]; exact hR.heldSub g2 hg2 x2 hx2
              · exact absurd rfl hne
          valid := by
            intro h g hm
            obtain ⟨hg, x, hx, hv⟩ := hR.valid h g hm
            exact ⟨List.mem_append_left _ hg, x, hx, by rw [lkOf_cs]; simp only; rw [hcv]; exact hv⟩
          slots := by
            intro k g hm
            obtain ⟨hg, x, hx, hcu⟩ := hR.slots k g hm
            exact ⟨List.mem_append_left _ hg, x, hx, by rw [lkOf_cs]; exact hcu⟩
          cvalid := by
            intro r l hm
            simp only at hm ⊢
            rw [hcv] at hm
            rw [hch]
            exact Or.inr (hR.cvalid r l hm)
          cuniq := by
            intro r l l' h1 h2
            simp only at h1 h2
            rw [hcv] at h1 h2
            exact hR.cuniq r l l' h1 h2 }
  | rel ls =>
    simp only [dStep] at hvR ⊢
    cases hga : groupOfAll st ls with
    | none => rw [hga] at hvR; simp only at hvR; cases hvR
    | some g =>
      rw [hga] at hvR
      simp only at hvR ⊢
      split at hvR
      · rename_i hc
        rw [if_pos hc]
        simp only [Bool.and_eq_true, decide_eq_true_eq] at hc
        obtain ⟨hg, _⟩ := hc
        obtain ⟨c, hc, hch, hcv⟩ := aRun_rels (V := V) (lksOf ρ ts g) ts.cs
        have hacts : transActs ρ st ts i (.rel ls) = (lksOf ρ ts g).map AAct.rel := by
          simp only [transActs, hga]
        have htseq : transTS ρ st ts i (.rel ls) = { ts with cs := c } := by
          simp only [transTS, hacts, aRunD, hc]
        rw [hacts, htseq]
        refine ⟨c, hc, rfl, ?_⟩
        have hmem : ∀ g2, g2 ∈ st.held.erase g → g2 ∈ st.held ∧ g2 ≠ g := by
          intro g2 h2
          exact ⟨List.mem_of_mem_erase h2, fun e => by
            subst e; exact (List.Nodup.mem_erase_iff hR.nodup).1 h2 |>.1 rfl⟩
        exact {
          nodup := hR.nodup.erase g
          heldSub := by
            intro g2 hg2 x hx
            obtain ⟨hin, hne⟩ := hmem g2 hg2
            rw [lkOf_cs, hch]
            refine ⟨hR.heldSub g2 hin x hx, ?_⟩
            intro hl
            obtain ⟨y, hy, hye⟩ := (mem_lksOf ρ ts _ _).1 hl
            exact hR.disj g hg g2 hin (fun e => hne e.symm) y hy x hx hye
          disj := by
            intro g1 hg1 g2 hg2 hne x1 hx1 x2 hx2
            simp only [lkOf_cs]
            exact hR.disj g1 (hmem g1 hg1).1 g2 (hmem g2 hg2).1 hne x1 hx1 x2 hx2
          valid := fun h g' hm => by cases hm
          slots := fun k g' hm => by cases hm
          cvalid := by
            intro r l hm
            simp only at hm ⊢
            rw [hcv] at hm
            rw [hch]
            exact ⟨hR.cvalid r l hm.1, hm.2⟩
          cuniq := by
            intro r l l' h1 h2
            simp only at h1 h2
            rw [hcv] at h1 h2
            exact hR.cuniq r l l' h1.1 h2.1 }
      · cases hvR
  | cancel => simp [dStep] at hvR
  | reval h l ok =>
    cases ok with
    | false => exact ⟨ts.cs, rfl, rfl, hR⟩
    | true =>
      simp only [dStep, transActs]
      cases hgo : st.groupOf l with
      | none => exact ⟨ts.cs, rfl, by simp [transTS, transActs, hgo, aRunD, aRun], by
          have : transTS ρ st ts i (.reval h l true) = ts := by simp [transTS, transActs, hgo, aRunD, aRun]
          rw [this]; exact hR⟩
      | some g =>
        simp only
        by_cases hg : g ∈ st.held
        · simp only [hg, decide_true, if_true]
          obtain ⟨y, hy, hly⟩ := groupOf_lk ρ st ts hR l g hgo
          have hheld : lkOf ρ ts l ∈ ts.cs.held := by rw [hly]; exact hR.heldSub g hg y hy
          have hrun : aRun ts.cs [AAct.val (ts.pt h) (lkOf ρ ts l) (ρ.F i)] =
              some { ts.cs with valid := (ts.pt h, lkOf ρ ts l) :: ts.cs.valid.filter (fun p => p.1 != ts.pt h) } := by
            simp only [aRun, aStep, if_pos hheld]
          have htseq : transTS ρ st ts i (.reval h l true) =
              { ts with cs := { ts.cs with valid := (ts.pt h, lkOf ρ ts l) :: ts.cs.valid.filter (fun p => p.1 != ts.pt h) } } := by
            simp only [transTS, transActs, hgo, hg, decide_true, if_true, aRunD, hrun]
          rw [htseq]
          exact ⟨_, hrun, rfl, rinv_setValid ρ st ts hR h g _ hg ⟨y, hy, hly⟩ true st.shrinking⟩
        · simp only [hg, decide_false, Bool.false_eq_true, if_false]
          have : transTS ρ st ts i (.reval h l true) = ts := by
            simp [transTS, transActs, hgo, hg, aRunD, aRun]
          rw [this]
          exact ⟨ts.cs, rfl, rfl, hR⟩
  | use h =>
    simp only [dStep] at hvR ⊢
    cases hl : st.lookup h with
    | none => rw [hl] at hvR; cases hvR
    | some g =>
      simp only
      obtain ⟨hg, x, hx, hv⟩ := hR.valid h g (lookup_mem st h g hl)
      obtain ⟨l', hl'⟩ := cvLookup_some ts.cs (ts.pt h) _ hv
      have hm := cvLookup_mem _ _ _ hl'
      have hacts : transActs ρ st ts i (.use h) = [AAct.use (ts.pt h) (ρ.data i) l' (ρ.F i)] := by
        simp only [transActs, hl, hl']
      have hrun : aRun ts.cs [AAct.use (ts.pt h) (ρ.data i) l' (ρ.F i)] = some ts.cs := by
        simp only [aRun, aStep, if_pos (And.intro hm (hR.cvalid _ _ hm))]
      have htseq : transTS ρ st ts i (.use h) = ts := by
        simp only [transTS, hacts, aRunD, hrun]
      rw [hacts, htseq]
      exact ⟨ts.cs, hrun, rfl, rinv_congr ρ st _ ts rfl rfl rfl hR⟩
  | repoint h new =>
    simp only [dStep] at hvW ⊢
    cases hl : st.lookup h with
    | none => rw [hl] at hvW; cases hvW
    | some g0 =>
      cases hgo : st.groupOf new with
      | none => rw [hl, hgo] at hvW; cases hvW
      | some g =>
        rw [hl, hgo] at hvW
        simp only at hvW ⊢
        split at hvW
        · rename_i hg
          rw [if_pos hg]
          have hg' : g ∈ st.held := by simpa using hg
          obtain ⟨y, hy, hly⟩ := groupOf_lk ρ st ts hR new g hgo
          have hheld : lkOf ρ ts new ∈ ts.cs.held := by rw [hly]; exact hR.heldSub g hg' y hy
          obtain ⟨_, x, hx, hv⟩ := hR.valid h g0 (lookup_mem st h g0 hl)
          have hany : ts.cs.valid.any (fun p => p.1 == ts.pt h) = true :=
            List.any_eq_true.2 ⟨_, hv, by simp⟩
          have hacts : transActs ρ st ts i (.repoint h new) = [AAct.rep (ts.pt h) (lkOf ρ ts new) (ρ.F i)] := by
            simp only [transActs, hl, hgo, hg, if_true]
          have hrun : aRun ts.cs [AAct.rep (ts.pt h) (lkOf ρ ts new) (ρ.F i)] =
              some { ts.cs with valid := (ts.pt h, lkOf ρ ts new) :: ts.cs.valid.filter (fun p => p.1 != ts.pt h) } := by
            simp only [aRun, aStep, if_pos (And.intro hany hheld)]
          have htseq : transTS ρ st ts i (.repoint h new) =
              { ts with cs := { ts.cs with valid := (ts.pt h, lkOf ρ ts new) :: ts.cs.valid.filter (fun p => p.1 != ts.pt h) } } := by
            simp only [transTS, hacts, aRunD, hrun]
          rw [hacts, htseq]
          exact ⟨_, hrun, rfl, rinv_setValid ρ st ts hR h g _ hg' ⟨y, hy, hly⟩ true st.shrinking⟩
        · cases hvW
  | bind h =>
    refine ⟨ts.cs, rfl, rfl, ?_⟩
    simp only [dStep, transTS]
    exact {
      nodup := hR.nodup
      heldSub := fun g hg x hx => by rw [lkOf_setPt]; exact hR.heldSub g hg x hx
      disj := fun g1 hg1 g2 hg2 hn x1 hx1 x2 hx2 => by
        simp only [lkOf_setPt]; exact hR.disj g1 hg1 g2 hg2 hn x1 hx1 x2 hx2
      valid := by
        intro h' g hm
        obtain ⟨hm', hne⟩ := List.mem_filter.1 hm
        have hne' : h' ≠ h := by simpa using hne
        obtain ⟨hg, x, hx, hv⟩ := hR.valid h' g hm'
        refine ⟨hg, x, hx, ?_⟩
        rw [lkOf_setPt]
        simp only [setPt, if_neg hne']
        exact hv
      slots := fun k g hm => by
        obtain ⟨hg, x, hx, hc⟩ := hR.slots k g hm
        exact ⟨hg, x, hx, by rw [lkOf_setPt]; exact hc⟩
      cvalid := hR.cvalid
      cuniq := hR.cuniq }
  | requires l =>
    refine ⟨ts.cs, rfl, rfl, ?_⟩
    have : transTS ρ st ts i (.requires l) = ts := rfl
    rw [this]
    simp only [dStep]
    split
    · split
      · exact hR
      · exact rinv_congr ρ st _ ts rfl rfl rfl hR
    · exact rinv_congr ρ st _ ts rfl rfl rfl hR
  | iter l => exact ⟨ts.cs, rfl, rfl, hR⟩

/-- **the translation of an accepted trace is disciplined**: no reader / writer violation on the trace ⟹ the
    concrete discipline accepts the translated transaction, whichever handles alias each other — provided the
    transaction never re-acquires a lock it holds -/
theorem transD_disciplined_from (ρ : DAsg V) : ∀ (tr : List DEv) (st : DSt) (ts : TS) (i : Nat), RInv ρ st ts →
    (tr.foldl dStep st).violR = false → (tr.foldl dStep st).violW = false →
    noReacqFrom ts.cs.held ((transD ρ st ts i tr).map AAct.erase) →
    (aRun ts.cs (transD ρ st ts i tr)).isSome = true := by
  intro tr
  induction tr with
  | nil => intro _ _ _ _ _ _ _; rfl
  | cons e rest ih =>
    intro st ts i hR hvR hvW hnr
    simp only [List.foldl_cons] at hvR hvW
    simp only [transD, List.map_append] at hnr ⊢
    obtain ⟨hnr1, hnr2⟩ := (noReacqFrom_append _ _ _).1 hnr
    obtain ⟨c, hc, hcs, hR'⟩ := trans_step ρ st ts i e hR (fold_violR_mono rest _ hvR) (fold_violW_mono rest _ hvW) hnr1
    rw [aRun_append, hc]
    simp only [Option.bind]
    rw [← hcs]
    apply ih _ _ _ hR' hvR hvW
    rw [hcs, aRun_held _ _ _ hc]
    exact hnr2

theorem transD_disciplined (ρ : DAsg V) (tr : List DEv)
    (hvR : (tr.foldl dStep (dInit [] [])).violR = false) (hvW : (tr.foldl dStep (dInit [] [])).violW = false)
    (hnr : noReacq ((transD ρ (dInit [] []) (ts0 ρ) 0 tr).map AAct.erase)) :
    ADisc (transD ρ (dInit [] []) (ts0 ρ) 0 tr) :=
  transD_disciplined_from ρ tr _ _ 0 (rinv0 ρ) hvR hvW hnr

/-! ### two-phase modulo aborted attempts -/

theorem weakTPB_nil_mono (r : Txn V) (e sh e' sh' : Bool) (he : e = true → e' = true) (hs : sh = true → sh' = true)
    (h : weakTPB e' sh' r = true) : weakTPB e sh r = true :=
  weakTPB_mono r e' sh' e sh he hs h

/-- a trace accepted by the monitor translates into a weakly two-phase transaction -/
theorem transD_weakTP_from (ρ : DAsg V) : ∀ (tr : List DEv) (st : DSt) (ts : TS) (i : Nat),
    (tr.foldl dStep st).violR = false →
    weakTPB st.eff st.shrinking ((transD ρ st ts i tr).map AAct.erase) = true := by
  intro tr
  induction tr with
  | nil => intro _ _ _ _; rfl
  | cons e rest ih =>
    intro st ts i hv
    simp only [List.foldl_cons] at hv
    have IH := ih (dStep st e) (transTS ρ st ts i e) (i + 1) hv
    have hv1 := fold_violR_mono rest _ hv
    simp only [transD, List.map_append]
    generalize (transD ρ (dStep st e) (transTS ρ st ts i e) (i + 1) rest).map AAct.erase = R at IH ⊢
    cases e with
    | readPtr h k =>
      simp only [transActs, List.map_nil, List.nil_append]
      apply weakTPB_nil_mono R _ _ _ _ _ _ IH
      · simp only [dStep]; split
        · exact id
        · split <;> exact id
      · simp only [dStep]; split
        · exact id
        · split <;> exact id
    | acq ls b =>
      cases b with
      | true => simpa [transActs, dStep] using IH
      | false =>
        simp only [dStep] at hv1 IH
        split at hv1
        · cases hv1
        · rename_i hc
          rw [if_neg hc] at IH
          simp only [Bool.or_eq_true, not_or, Bool.not_eq_true] at hc
          have hsh : st.shrinking = false := hc.1.1.1
          simp only [transActs, map_erase_acq]
          rw [hsh] at IH ⊢
          rw [weakTPB_acqs]
          exact IH
    | rel ls =>
      simp only [dStep] at hv1 IH
      simp only [transActs]
      cases hga : groupOfAll st ls with
      | none => rw [hga] at hv1; simp only at hv1; cases hv1
      | some g =>
        rw [hga] at hv1 IH
        simp only at hv1 IH ⊢
        split at hv1
        · rename_i hc
          rw [if_pos hc] at IH
          rw [map_erase_rel]
          exact weakTPB_rels _ _ _ _ IH
        · cases hv1
    | cancel => simp [dStep] at hv1
    | reval h l ok =>
      cases ok with
      | false => simpa [transActs, dStep] using IH
      | true =>
        simp only [dStep] at IH
        simp only [transActs]
        cases hgo : st.groupOf l with
        | none => rw [hgo] at IH; simpa using IH
        | some g =>
          rw [hgo] at IH
          simp only at IH ⊢
          by_cases hg : g ∈ st.held
          · simp only [hg, decide_true, if_true] at IH ⊢
            simpa [AAct.erase, weakTPB] using IH
          · simp only [hg, decide_false, Bool.false_eq_true, if_false] at IH ⊢
            simpa using IH
    | use h =>
      simp only [dStep] at hv1 IH
      simp only [transActs]
      cases hl : st.lookup h with
      | none => rw [hl] at hv1; cases hv1
      | some g =>
        rw [hl] at IH
        simp only at IH ⊢
        cases cvLookup ts.cs (ts.pt h) with
        | none =>
          simp only [List.map_nil, List.nil_append]
          exact weakTPB_nil_mono R _ _ _ _ (fun _ => rfl) id IH
        | some l' => simpa [AAct.erase, weakTPB] using IH
    | repoint h new =>
      simp only [dStep] at IH
      simp only [transActs]
      cases hl : st.lookup h with
      | none => rw [hl] at IH; simpa using IH
      | some g0 =>
        cases hgo : st.groupOf new with
        | none => rw [hl, hgo] at IH; simpa using IH
        | some g =>
          rw [hl, hgo] at IH
          simp only at IH ⊢
          by_cases hg : g ∈ st.held
          · simp only [hg, decide_true, if_true] at IH ⊢
            simpa [AAct.erase, weakTPB] using IH
          · simp only [hg, decide_false, Bool.false_eq_true, if_false] at IH ⊢
            simpa using IH
    | bind h => simpa [transActs, dStep] using IH
    | requires l =>
      simp only [transActs, List.map_nil, List.nil_append]
      apply weakTPB_nil_mono R _ _ _ _ _ _ IH
      · simp only [dStep]; split
        · split <;> exact id
        · exact id
      · simp only [dStep]; split
        · split <;> exact id
        · exact id
    | iter l => simpa [transActs, dStep] using IH

theorem transD_weakTP (ρ : DAsg V) (tr : List DEv) (hvR : (tr.foldl dStep (dInit [] [])).violR = false) :
    WeakTP ((transD ρ (dInit [] []) (ts0 ρ) 0 tr).map AAct.erase) :=
  transD_weakTP_from ρ tr _ _ 0 hvR

end SqVerif.SkelDyn

import SqVerif.VNetRefineGate2
import SqVerif.VNetRefineCheck
/-
C05 — Failed operations are atomic and surface as the documented error type.

Model: `VNet.step` (one client-visible operation of the virtual-node layer as one atomic
step).  A *refusal* is any result `err _`, `none`, `badCall`, `selfSend`.

* `refusal_atomic`: a refused operation leaves the state IDENTICAL and calls no engine.
  For `new`, `gate1`, `send`, `measure` this needs no hypothesis (`refusal_atomic_noWF`);
  for `gate2` it needs `WF s`, because the code merges registers BEFORE the engine checks
  "control = target": only the invariant (different held handles sit at different register
  positions) excludes a merge followed by `ValueError`
  (`refusal_atomic_gate2_needs_WF` exhibits an ill-formed state where exactly that happens).
* `refusal_then_usable`: every continuation behaves as from the state before.
* one characterisation per refusal cause (`…_iff`), and `err_causes`: which error each
  operation kind can return at all.
-/
namespace SqVerif.C05
open SqVerif.VNet

/-- results that report "not carried out" -/
def isRefusal : Res → Bool
  | .err _ | .none | .badCall | .selfSend => true
  | _ => false

/-! ### atomicity -/

theorem stepNew_dich (s : Net) (a : Nat) :
    ((stepNew s a).1 = s ∧ (stepNew s a).2.2 = []) ∨ ∃ x, (stepNew s a).2.1 = .handle x := by
  unfold stepNew
  split
  · exact .inl ⟨rfl, rfl⟩
  · split
    · exact .inl ⟨rfl, rfl⟩
    · split
      · exact .inl ⟨rfl, rfl⟩
      · exact .inr ⟨_, rfl⟩

theorem stepGate1_dich (s : Net) (h : Nat) (g : G1) :
    ((stepGate1 s h g).1 = s ∧ (stepGate1 s h g).2.2 = []) ∨ (stepGate1 s h g).2.1 = .unit := by
  unfold stepGate1
  split
  · exact .inl ⟨rfl, rfl⟩
  · split
    · exact .inl ⟨rfl, rfl⟩
    · split
      · exact .inl ⟨rfl, rfl⟩
      · split
        · exact .inl ⟨rfl, rfl⟩
        · split
          · exact .inl ⟨rfl, rfl⟩
          · exact .inr rfl

theorem stepSend_dich (s : Net) (h b : Nat) :
    ((stepSend s h b).1 = s ∧ (stepSend s h b).2.2 = []) ∨ ∃ x, (stepSend s h b).2.1 = .num x := by
  unfold stepSend
  split
  · exact .inl ⟨rfl, rfl⟩
  · split
    · exact .inl ⟨rfl, rfl⟩
    · split
      · exact .inl ⟨rfl, rfl⟩
      · split
        · exact .inl ⟨rfl, rfl⟩
        · split
          · exact .inl ⟨rfl, rfl⟩
          · exact .inr ⟨_, rfl⟩

theorem stepMeasure_dich (s : Net) (h : Nat) (ip oc : Bool) :
    ((stepMeasure s h ip oc).1 = s ∧ (stepMeasure s h ip oc).2.2 = []) ∨
      ∃ x, (stepMeasure s h ip oc).2.1 = .outcome x := by
  unfold stepMeasure
  split
  · exact .inl ⟨rfl, rfl⟩
  · split
    · exact .inl ⟨rfl, rfl⟩
    · split
      · exact .inl ⟨rfl, rfl⟩
      · split
        · exact .inl ⟨rfl, rfl⟩
        · split
          · exact .inr ⟨_, rfl⟩
          · exact .inr ⟨_, rfl⟩

theorem stepGate2_dich {s : Net} (hwf : WF s) (hc ht : Nat) (g : G2) :
    ((stepGate2 s hc ht g).1 = s ∧ (stepGate2 s hc ht g).2.2 = []) ∨ (stepGate2 s hc ht g).2.1 = .unit := by
  rcases stepGate2_classify hwf hc ht g with h | h | h | h | h
  · rw [h.1]; exact .inl ⟨rfl, rfl⟩
  · rw [h.1]; exact .inl ⟨rfl, rfl⟩
  · rw [h.1]; exact .inl ⟨rfl, rfl⟩
  · rw [h.1]; exact .inl ⟨rfl, rfl⟩
  · obtain ⟨⟨_, _, _, _, _, _, _, _, _, hres, _⟩, _⟩ := h
    exact .inr hres

/-- T05.1 for the operations other than `gate2`: NO hypothesis on the state at all -/
theorem refusal_atomic_noWF (s : Net) (op : Op) (hop : ∀ hc ht g, op ≠ .gate2 hc ht g)
    (h : isRefusal (step s op).2.1 = true) : Inert s op := by
  unfold Inert
  cases op with
  | new a =>
    rcases stepNew_dich s a with h' | ⟨x, h'⟩
    · exact h'
    · simp only [step] at h; rw [h'] at h; cases h
  | gate1 hh g =>
    rcases stepGate1_dich s hh g with h' | h'
    · exact h'
    · simp only [step] at h; rw [h'] at h; cases h
  | gate2 hc ht g => exact absurd rfl (hop hc ht g)
  | send hh b =>
    rcases stepSend_dich s hh b with h' | ⟨x, h'⟩
    · exact h'
    · simp only [step] at h; rw [h'] at h; cases h
  | measure hh ip oc =>
    rcases stepMeasure_dich s hh ip oc with h' | ⟨x, h'⟩
    · exact h'
    · simp only [step] at h; rw [h'] at h; cases h

/-- T05.1 (all refusal kinds): a refused operation leaves the state identical and calls no engine -/
theorem refusal_inert {s : Net} (hwf : WF s) (op : Op) (h : isRefusal (step s op).2.1 = true) :
    Inert s op := by
  cases op with
  | gate2 hc ht g =>
    unfold Inert
    rcases stepGate2_dich hwf hc ht g with h' | h'
    · exact h'
    · simp only [step] at h; rw [h'] at h; cases h
  | new a => exact refusal_atomic_noWF s _ (fun _ _ _ e => by cases e) h
  | gate1 hh g => exact refusal_atomic_noWF s _ (fun _ _ _ e => by cases e) h
  | send hh b => exact refusal_atomic_noWF s _ (fun _ _ _ e => by cases e) h
  | measure hh ip oc => exact refusal_atomic_noWF s _ (fun _ _ _ e => by cases e) h

/-- T05.1 `refusal_atomic`: whenever an operation returns an error, the state is IDENTICAL
(not merely equivalent) and no engine call was made. -/
theorem refusal_atomic {s : Net} (hwf : WF s) (op : Op) :
    ∀ e, (step s op).2.1 = .err e → (step s op).1 = s ∧ (step s op).2.2 = [] := by
  intro e he
  exact refusal_inert hwf op (by rw [he]; rfl)

/-- the same for the results `none`, `badCall`, `selfSend` -/
theorem refusal_atomic_other {s : Net} (hwf : WF s) (op : Op)
    (h : (step s op).2.1 = .none ∨ (step s op).2.1 = .badCall ∨ (step s op).2.1 = .selfSend) :
    (step s op).1 = s ∧ (step s op).2.2 = [] := by
  apply refusal_inert hwf op
  rcases h with h | h | h <;> rw [h] <;> rfl

/-- an ILL-FORMED state (the simulated qubit 1 is missing from its node's list) in which a
two-qubit gate merges two registers and then fails with `ValueError`: why `gate2` needs `WF` -/
def badState : Net :=
  { nodes := [{ maxQubits := 3, maxRegs := 3, numRegs := 2, nextReg := 2,
                regs := [⟨0, 10, [0]⟩, ⟨1, 10, [1]⟩], virt := [0, 1], sim := [0] }],
    sqs := [⟨0, 0, 0, 0, true⟩, ⟨0, 1, 1, 0, true⟩],
    vqs := [⟨0, 0, 0, 0, true⟩, ⟨0, 1, 0, 1, true⟩], nextTok := 2 }

theorem refusal_atomic_gate2_needs_WF :
    (step badState (.gate2 0 1 .CNOT)).2.1 = .err .value ∧ (step badState (.gate2 0 1 .CNOT)).1 ≠ badState := by
  decide

/-- T05.2 from a refused operation every continuation behaves as from the state before -/
theorem refusal_then_usable {s : Net} (hwf : WF s) (op : Op) (h : isRefusal (step s op).2.1 = true)
    (ops : List Op) : run (step s op).1 ops = run s ops := by
  rw [(refusal_inert hwf op h).1]

/-! ### typing of refusals: one theorem per cause -/

/-- capacity, `new`: `noQubitError` exactly when the node holds `maxQubits` qubits -/
theorem new_noQubit_iff (s : Net) (a : Nat) :
    (step s (.new a)).2.1 = .err .noQubit ↔ ∃ n, s.nodes[a]? = some n ∧ n.virt.length ≥ n.maxQubits := by
  simp only [step]
  constructor
  · intro h
    unfold stepNew at h
    split at h
    · cases h
    · rename_i n hn
      split at h
      · rename_i hge; exact ⟨n, hn, hge⟩
      · split at h
        · rename_i e hadd
          rcases addRegister_error hadd with ⟨hnone, _⟩ | ⟨_, _, _, he⟩
          · rw [hn] at hnone; cases hnone
          · subst he; cases h
        · cases h
  · rintro ⟨n, hn, hge⟩
    simp [stepNew, hn, hge]

/-- register limit, `new`: `quantumError` exactly when there is room for a qubit but no register left -/
theorem new_quantum_iff (s : Net) (a : Nat) :
    (step s (.new a)).2.1 = .err .quantum ↔
      ∃ n, s.nodes[a]? = some n ∧ n.virt.length < n.maxQubits ∧ n.numRegs ≥ n.maxRegs := by
  simp only [step]
  constructor
  · intro h
    unfold stepNew at h
    split at h
    · cases h
    · rename_i n hn
      split at h
      · cases h
      · rename_i hlt
        split at h
        · rename_i e hadd
          rcases addRegister_error hadd with ⟨hnone, _⟩ | ⟨n', hn', hge, he⟩
          · rw [hn] at hnone; cases hnone
          · rw [hn] at hn'; cases hn'
            exact ⟨n, hn, by omega, hge⟩
        · cases h
  · rintro ⟨n, hn, hlt, hge⟩
    have : ¬ n.virt.length ≥ n.maxQubits := by omega
    simp [stepNew, hn, this, addRegister_limit hn hge]

/-- what a `send` does before anything else: complete case analysis of its result -/
theorem stepSend_result (s : Net) (h b : Nat) :
    (s.vqs[h]? = none ∧ stepSend s h b = (s, .badCall, [])) ∨
    ∃ vq, s.vqs[h]? = some vq ∧
      ((vq.active = false ∧ stepSend s h b = (s, .none, [])) ∨
       (vq.active = true ∧ b ≥ s.nodes.length ∧ stepSend s h b = (s, .err .virtNet, [])) ∨
       (vq.active = true ∧ b < s.nodes.length ∧ b = vq.virtNode ∧ stepSend s h b = (s, .selfSend, [])) ∨
       (vq.active = true ∧ b ≠ vq.virtNode ∧ ∃ nb, s.nodes[b]? = some nb ∧
          ((nb.virt.length ≥ nb.maxQubits ∧ stepSend s h b = (s, .err .noQubit, [])) ∨
           (nb.virt.length < nb.maxQubits ∧ ∃ x, (stepSend s h b).2.1 = .num x)))) := by
  cases hv : s.vqs[h]? with
  | none => left; exact ⟨rfl, by simp [stepSend, hv]⟩
  | some vq =>
    right; refine ⟨vq, rfl, ?_⟩
    cases ha : vq.active with
    | false => left; exact ⟨rfl, by simp [stepSend, hv, ha]⟩
    | true =>
      right
      by_cases hb : b ≥ s.nodes.length
      · left; exact ⟨rfl, hb, by simp [stepSend, hv, ha, hb]⟩
      · right
        by_cases he : b = vq.virtNode
        · left
          have hbeq : (b == vq.virtNode) = true := by simp [he]
          refine ⟨rfl, by omega, he, ?_⟩
          simp only [stepSend, hv, ha, Bool.not_true, Bool.false_eq_true, if_false, hb, hbeq, if_true]
        · right
          have hlt : b < s.nodes.length := by omega
          refine ⟨rfl, he, s.nodes[b], List.getElem?_eq_getElem hlt, ?_⟩
          have hbeq : (b == vq.virtNode) = false := by simp [he]
          by_cases hcap : s.nodes[b].virt.length ≥ s.nodes[b].maxQubits
          · left; refine ⟨hcap, ?_⟩
            simp only [stepSend, hv, ha, Bool.not_true, Bool.false_eq_true, if_false, hb, hbeq, addQubitAt,
              List.getElem?_eq_getElem hlt, hcap, if_true]
          · right; refine ⟨by omega, ?_⟩
            simp only [stepSend, hv, ha, Bool.not_true, Bool.false_eq_true, if_false, hb, hbeq, addQubitAt,
              List.getElem?_eq_getElem hlt, hcap]
            exact ⟨_, rfl⟩

/-- capacity, `send`: `noQubitError` exactly when the receiver is full — the condition does
not mention where the qubit is simulated -/
theorem send_noQubit_iff (s : Net) (h b : Nat) :
    (step s (.send h b)).2.1 = .err .noQubit ↔
      ∃ vq nb, s.vqs[h]? = some vq ∧ vq.active = true ∧ b ≠ vq.virtNode ∧ s.nodes[b]? = some nb ∧
        nb.virt.length ≥ nb.maxQubits := by
  simp only [step]
  rcases stepSend_result s h b with ⟨hv, hr⟩ | ⟨vq, hv, hr | hr | hr | hr⟩
  · rw [hr]; simp [hv]
  · rw [hr.2]; simp [hv, hr.1]
  · rw [hr.2.2]; simp only [hv]
    constructor
    · intro h'; cases h'
    · rintro ⟨_, nb, h1, _, _, hnb, _⟩
      have := (List.getElem?_eq_some_iff.1 hnb).1; omega
  · rw [hr.2.2.2]; simp only [hv]
    constructor
    · intro h'; cases h'
    · rintro ⟨vq', _, h1, _, hne, _⟩
      cases h1; exact absurd hr.2.2.1 hne
  · obtain ⟨ha, hne, nb, hnb, hr | hr⟩ := hr
    · rw [hr.2]; simp only [true_iff]; exact ⟨vq, nb, hv, ha, hne, hnb, hr.1⟩
    · obtain ⟨hlt, x, hx⟩ := hr
      rw [hx]
      constructor
      · intro h'; cases h'
      · rintro ⟨vq', nb', h1, _, _, h2, h3⟩
        rw [hnb] at h2; cases h2; omega

/-- the three placements of the qubit being sent to a full node, spelled out -/
theorem send_full_any_placement {s : Net} {h b : Nat} {vq : VQ} {nb : Node} (hv : s.vqs[h]? = some vq)
    (ha : vq.active = true) (hne : b ≠ vq.virtNode) (hnb : s.nodes[b]? = some nb)
    (hfull : nb.virt.length ≥ nb.maxQubits) :
    (vq.simNode = vq.virtNode → step s (.send h b) = (s, .err .noQubit, [])) ∧      -- simulated at the sender
    (vq.simNode = b → step s (.send h b) = (s, .err .noQubit, [])) ∧                -- at the receiver
    (vq.simNode ≠ vq.virtNode → vq.simNode ≠ b → step s (.send h b) = (s, .err .noQubit, [])) := by  -- at a third node
  have hlt : ¬ b ≥ s.nodes.length := by have := (List.getElem?_eq_some_iff.1 hnb).1; omega
  have hbeq : (b == vq.virtNode) = false := by simp [hne]
  have : step s (.send h b) = (s, .err .noQubit, []) := by
    simp only [step, stepSend, hv, ha, Bool.not_true, Bool.false_eq_true, if_false, hlt, hbeq, addQubitAt, hnb,
      hfull, if_true]
  exact ⟨fun _ => this, fun _ => this, fun _ _ => this⟩

/-- unknown target node: `virtNetError` exactly for an active handle and a node index out of range -/
theorem send_virtNet_iff (s : Net) (h b : Nat) :
    (step s (.send h b)).2.1 = .err .virtNet ↔
      ∃ vq, s.vqs[h]? = some vq ∧ vq.active = true ∧ b ≥ s.nodes.length := by
  simp only [step]
  rcases stepSend_result s h b with ⟨hv, hr⟩ | ⟨vq, hv, hr | hr | hr | hr⟩
  · rw [hr]; simp [hv]
  · rw [hr.2]; simp [hv, hr.1]
  · rw [hr.2.2]; simp only [true_iff]; exact ⟨vq, hv, hr.1, hr.2.1⟩
  · rw [hr.2.2.2]; simp only [hv]
    constructor
    · intro h'; cases h'
    · rintro ⟨_, h1, _, hge⟩; have := hr.2.1; omega
  · obtain ⟨ha, hne, nb, hnb, hr | hr⟩ := hr
    · rw [hr.2]; simp only [hv]
      constructor
      · intro h'; cases h'
      · rintro ⟨_, _, _, hge⟩; have := (List.getElem?_eq_some_iff.1 hnb).1; omega
    · obtain ⟨hlt, x, hx⟩ := hr
      rw [hx]
      constructor
      · intro h'; cases h'
      · rintro ⟨_, _, _, hge⟩; have := (List.getElem?_eq_some_iff.1 hnb).1; omega

/-- unsupported gate: `SimUnsupportedError` exactly for an unsupported gate through an active handle -/
theorem gate1_unsupported_iff {s : Net} (hwf : WF s) (h : Nat) (g : G1) :
    (step s (.gate1 h g)).2.1 = .err .unsupported ↔
      ∃ vq, s.vqs[h]? = some vq ∧ vq.active = true ∧ g.supported = false := by
  simp only [step]
  constructor
  · intro hr
    unfold stepGate1 at hr
    split at hr
    · cases hr
    · rename_i vq hv
      split at hr
      · cases hr
      · rename_i hact
        split at hr
        · cases hr
        · split at hr
          · cases hr
          · split at hr
            · rename_i hg
              exact ⟨vq, hv, by simpa using hact, by simpa using hg⟩
            · cases hr
  · rintro ⟨vq, hv, ha, hg⟩
    obtain ⟨vq', sq, nd, rg, i⟩ := hwf.info_of_held (hwf.held_of_active hv ha)
    have e := i.hv; rw [hv] at e; cases e
    simp [stepGate1, hv, ha, i.hs, i.sact, hg]

/-- complete case analysis of a two-qubit gate's result under `WF` -/
theorem gate2_result {s : Net} (hwf : WF s) (hc ht : Nat) (g : G2) :
    (step s (.gate2 hc ht g)).2.1 = .badCall ∨ (step s (.gate2 hc ht g)).2.1 = .none ∨
    ((step s (.gate2 hc ht g)).2.1 = .err .value ∧ hc = ht ∧ ∃ vc, s.vqs[hc]? = some vc ∧ vc.active = true) ∨
    ((step s (.gate2 hc ht g)).2.1 = .err .quantum ∧ hc ≠ ht ∧
        ∃ vc vt, s.vqs[hc]? = some vc ∧ s.vqs[ht]? = some vt ∧ vc.virtNode = vt.virtNode ∧
          vc.active = true ∧ vt.active = true ∧ RegLimit s vc vt) ∨
    ((step s (.gate2 hc ht g)).2.1 = .unit ∧ hc ≠ ht ∧
        ∃ vc vt, s.vqs[hc]? = some vc ∧ s.vqs[ht]? = some vt ∧ vc.virtNode = vt.virtNode ∧
          vc.active = true ∧ vt.active = true ∧ ¬ RegLimit s vc vt) := by
  simp only [step]
  rcases stepGate2_classify hwf hc ht g with h | h | h | h | h
  · rw [h.1]; exact .inl rfl
  · rw [h.1]; exact .inr (.inl rfl)
  · rw [h.1]; exact .inr (.inr (.inl ⟨rfl, h.2⟩))
  · rw [h.1]; exact .inr (.inr (.inr (.inl ⟨rfl, h.2⟩)))
  · obtain ⟨⟨_, _, _, _, _, _, _, _, _, hres, _⟩, h2⟩ := h
    exact .inr (.inr (.inr (.inr ⟨hres, h2⟩)))

/-- identical control and target: `ValueError` exactly when both arguments are the same active handle -/
theorem gate2_value_iff {s : Net} (hwf : WF s) (hc ht : Nat) (g : G2) :
    (step s (.gate2 hc ht g)).2.1 = .err .value ↔
      hc = ht ∧ ∃ vc, s.vqs[hc]? = some vc ∧ vc.active = true := by
  rcases gate2_result hwf hc ht g with h | h | h | h | h
  · refine ⟨fun h' => (by rw [h] at h'; cases h'), ?_⟩
    rintro ⟨rfl, vc, hv, ha⟩
    rw [show step s (.gate2 hc hc g) = stepGate2 s hc hc g from rfl, stepGate2_same hwf hv ha] at h; cases h
  · refine ⟨fun h' => (by rw [h] at h'; cases h'), ?_⟩
    rintro ⟨rfl, vc, hv, ha⟩
    rw [show step s (.gate2 hc hc g) = stepGate2 s hc hc g from rfl, stepGate2_same hwf hv ha] at h; cases h
  · exact ⟨fun _ => h.2, fun _ => h.1⟩
  · refine ⟨fun h' => (by rw [h.1] at h'; cases h'), ?_⟩
    rintro ⟨e, _⟩; exact absurd e h.2.1
  · refine ⟨fun h' => (by rw [h.1] at h'; cases h'), ?_⟩
    rintro ⟨e, _⟩; exact absurd e h.2.1

/-- register limit, `gate2`: `quantumError` exactly in the both-remote-two-simulators placement
with `numRegs ≥ maxRegs` at the issuing node -/
theorem gate2_quantum_iff {s : Net} (hwf : WF s) (hc ht : Nat) (g : G2) :
    (step s (.gate2 hc ht g)).2.1 = .err .quantum ↔
      hc ≠ ht ∧ ∃ vc vt, s.vqs[hc]? = some vc ∧ s.vqs[ht]? = some vt ∧ vc.virtNode = vt.virtNode ∧
        vc.active = true ∧ vt.active = true ∧ RegLimit s vc vt := by
  constructor
  · intro hr
    rcases gate2_result hwf hc ht g with h | h | h | h | h
    · rw [h] at hr; cases hr
    · rw [h] at hr; cases hr
    · rw [h.1] at hr; cases hr
    · exact h.2
    · rw [h.1] at hr; cases hr
  · rintro ⟨hne, vc, vt, hvc, hvt, hsame, hac, hat, h1, h2, h3, na, hna, hge⟩
    show (stepGate2 s hc ht g).2.1 = _
    rw [stepGate2_regLimit hvc hvt hsame hac hat h1 h2 h3 hna hge]

/-- the merges themselves never fail: through two different active handles the gate is
carried out unless the register limit binds -/
theorem gate2_succeeds {s : Net} (hwf : WF s) {hc ht : Nat} (g : G2) {vc vt : VQ}
    (hvc : s.vqs[hc]? = some vc) (hvt : s.vqs[ht]? = some vt) (hsame : vc.virtNode = vt.virtNode)
    (hac : vc.active = true) (hat : vt.active = true) (hne : hc ≠ ht) (hlim : ¬ RegLimit s vc vt) :
    (step s (.gate2 hc ht g)).2.1 = .unit := by
  obtain ⟨_, _, _, _, _, _, _, _, _, hres, _⟩ := stepGate2_spec (g := g) hwf hvc hvt hsame hac hat hne hlim
  exact hres

/-- `err_causes`: each operation kind returns only the error classes of its own causes -/
theorem err_causes {s : Net} (hwf : WF s) (op : Op) (e : Err) (h : (step s op).2.1 = .err e) :
    match op with
    | .new _ => e = .noQubit ∨ e = .quantum
    | .gate1 .. => e = .unsupported
    | .gate2 .. => e = .value ∨ e = .quantum
    | .send .. => e = .virtNet ∨ e = .noQubit
    | .measure .. => False := by
  cases op with
  | new a =>
    simp only [step] at h ⊢
    unfold stepNew at h
    split at h
    · cases h
    · rename_i n hn
      split at h
      · cases h; exact .inl rfl
      · split at h
        · rename_i e' hadd
          rcases addRegister_error hadd with ⟨hnone, _⟩ | ⟨_, _, _, he⟩
          · rw [hn] at hnone; cases hnone
          · subst he; cases h; exact .inr rfl
        · cases h
  | gate1 hh g =>
    simp only [step] at h ⊢
    unfold stepGate1 at h
    split at h
    · cases h
    · split at h
      · cases h
      · split at h
        · cases h
        · split at h
          · cases h
          · split at h
            · cases h; rfl
            · cases h
  | gate2 hc ht g =>
    simp only
    rcases gate2_result hwf hc ht g with h' | h' | h' | h' | h'
    · rw [h'] at h; cases h
    · rw [h'] at h; cases h
    · rw [h'.1] at h; cases h; exact .inl rfl
    · rw [h'.1] at h; cases h; exact .inr rfl
    · rw [h'.1] at h; cases h
  | send hh b =>
    simp only [step] at h ⊢
    rcases stepSend_result s hh b with ⟨_, hr⟩ | ⟨vq, _, hr | hr | hr | hr⟩
    · rw [hr] at h; cases h
    · rw [hr.2] at h; cases h
    · rw [hr.2.2] at h; cases h; exact .inl rfl
    · rw [hr.2.2.2] at h; cases h
    · obtain ⟨_, _, nb, _, hr | hr⟩ := hr
      · rw [hr.2] at h; cases h; exact .inr rfl
      · obtain ⟨_, x, hx⟩ := hr
        rw [hx] at h; cases h
  | measure hh ip oc =>
    simp only [step] at h ⊢
    rcases stepMeasure_dich s hh ip oc with _ | ⟨x, hx⟩
    · unfold stepMeasure at h
      split at h
      · cases h
      · split at h
        · cases h
        · split at h
          · cases h
          · split at h
            · cases h
            · split at h <;> cases h
    · rw [hx] at h; cases h

/-! ### non-vacuity: concrete refusals after a non-trivial history -/

/-- three nodes; node 2 holds two qubits simulated at nodes 0 and 1, node 0 is full (capacity 1) -/
def demoOps : List Op := [.new 0, .new 1, .send 0 2, .send 1 2, .new 0]
def demo : Net := (run (init [(1, 5), (3, 5), (3, 0)]) demoOps).1

/-- the hypothesis `WF` of the theorems above holds for this state -/
example : WF demo := wfB_sound (by decide)

example : (step demo (.new 0)).2.1 = .err .noQubit ∧ (step demo (.new 0)).1 = demo := by decide
example : (step demo (.send 2 0)).2.1 = .err .noQubit ∧ (step demo (.send 2 0)).1 = demo := by decide  -- qubit simulated at the receiver
example : (step demo (.send 3 0)).2.1 = .err .noQubit ∧ (step demo (.send 3 0)).1 = demo := by decide  -- … at a third node
example : (step demo (.send 2 7)).2.1 = .err .virtNet := by decide
example : (step demo (.gate1 2 .T)).2.1 = .err .unsupported := by decide
example : (step demo (.gate2 2 2 .CNOT)).2.1 = .err .value := by decide
example : (step demo (.gate2 2 3 .CNOT)).2.1 = .err .quantum ∧ (step demo (.gate2 2 3 .CNOT)).1 = demo := by decide  -- both remote, maxRegs = 0 at node 2
example : (step demo (.new 2)).2.1 = .err .quantum := by decide

end SqVerif.C05

"""AST translator for C13 (Tie B): simulaqron/toolbox/stabilizer_states.py -> lean/SqVerif/Gen/StabGates.lean

Every gate method of `StabilizerState` (`apply_X … apply_CZ`, `apply_sqrt_*`) is a
straight-line sequence of NumPy statements each of which acts on all rows of
`self._group` independently, so the method denotes a function on the bits of ONE
generator row.  The translator executes the method symbolically, statement by
statement and in program order, on the symbolic row

    1-qubit gate  (x, z, s)              = columns `position`, `position + n`, `-1`
    2-qubit gate  (xc, zc, xt, zt, s)    = columns of the 1st argument, of the 2nd, `-1`

and emits the resulting function as a chain of Lean `let`s (one per Python
assignment).  Idiom set (anything else -> the method becomes `.unrecognised "<reason>"`,
on which every obligation of Props/C13Gen.lean fails; no statement is ever skipped):

  n = self.num_qubits                         (also self._nr_rows)
  if <test over the arguments, n, int literals>: raise <Exc>(…)   before the first write only;
        test built from < <= > >= == != (chains too), and / or / not, + and -
  v = self._group[:, COL]                     a VIEW: v follows later writes to the column
  v = <bool expr>                             a fresh array: evaluated now
  self._group[M, COL] = <expr over self._group[M, COL'] with the same mask M, True/False>
        (masked assignment; the flip `np.logical_not(self._group[M, COL])` is the usual case)
  self._group[:, COL] = <bool expr>           self._group[:, [A, B]] = self._group[:, [C, D]]
  self._group[…] ^= / |= / &= <expr>
  self.apply_G(arg, …)                        another gate method, inlined (its guards must be
        guards the caller has already passed once the caller has written)
  COL  ::= arg | arg + n | n + arg | -1 | 2 * n
  expr ::= np.logical_and/or/xor/not, & | ^ ~, == !=, self._group[:, COL], locals, .copy()

Columns of different arguments are different columns because the guards refuse
`control == target`; the guards are emitted as data and Props/C13Gen.lean proves
that they are exactly the ones of the model, so that assumption is discharged there.

Multiplication helpers: `_get_pauli_mask` (per-letter bit function), `_get_i_mask` /
`_get_minus_i_mask` (or over a literal list of Pauli pairs, resolved through the class
attribute `Pauli2bool`), `_multiply_compute_phase` (integer arithmetic over the two
counts, truthiness of the float `/ 2` = "numerator non-zero"), `_multiply_stabilizers`
(bitwise function on the letters + appended phase)."""
import ast
import os

SRC = "simulaqron/toolbox/stabilizer_states.py"
OUT = "SqVerif/Gen/StabGates.lean"
CLASS = "StabilizerState"

GATES1 = [("apply_X", "applyX"), ("apply_Y", "applyY"), ("apply_Z", "applyZ"),
          ("apply_H", "applyH"), ("apply_K", "applyK"), ("apply_S", "applyS"),
          ("apply_sqrt_minIX", "applySqrtMinIX"), ("apply_sqrt_IZ", "applySqrtIZ")]
GATES2 = [("apply_CNOT", "applyCNOT"), ("apply_CZ", "applyCZ")]
LEAN_NAME = dict(GATES1 + GATES2)
ARITY = dict([(p, 1) for p, _ in GATES1] + [(p, 2) for p, _ in GATES2])


class Unrec(Exception):
    def __init__(self, node, reason):
        line = getattr(node, "lineno", 0)
        Exception.__init__(self, "line %d: %s" % (line, reason))


# --------------------------------------------------------------------------
# Bool expressions over Lean variables
# --------------------------------------------------------------------------

def rb(e):
    k = e[0]
    if k == "var":
        return e[1]
    if k == "const":
        return "true" if e[1] else "false"
    if k == "not":
        return "(!%s)" % rb(e[1])
    if k == "ite":
        return "(bif %s then %s else %s)" % (rb(e[1]), rb(e[2]), rb(e[3]))
    if k == "nz":                      # truthiness of a number
        return "decide (%s ≠ 0)" % ri(e[1])
    if k == "icmp":
        return "decide (%s %s %s)" % (ri(e[2]), e[1], ri(e[3]))
    op = {"and": "&&", "or": "||", "xor": "!=", "eq": "=="}[k]
    return "(%s %s %s)" % (rb(e[1]), op, rb(e[2]))


def ri(e):
    k = e[0]
    if k == "ivar":
        return e[1]
    if k == "ilit":
        return "(%d : Int)" % e[1]
    op = {"iadd": "+", "isub": "-", "imul": "*", "imod": "%"}[k]
    return "(%s %s %s)" % (ri(e[1]), op, ri(e[2]))


def lean_str(s):
    return '"' + s.replace("\\", "\\\\").replace('"', '\\"').replace("\n", " ") + '"'


def _is_self_attr(node, attr):
    return isinstance(node, ast.Attribute) and isinstance(node.value, ast.Name) and node.value.id == "self" \
        and node.attr == attr


def _int_const(node):
    """value of an integer literal (with sign), or None"""
    if isinstance(node, ast.Constant) and type(node.value) is int:
        return node.value
    if isinstance(node, ast.UnaryOp) and isinstance(node.op, ast.USub):
        v = _int_const(node.operand)
        return None if v is None else -v
    if isinstance(node, ast.UnaryOp) and isinstance(node.op, ast.UAdd):
        return _int_const(node.operand)
    return None


def _without_docstring(body):
    if body and isinstance(body[0], ast.Expr) and isinstance(body[0].value, ast.Constant) \
            and isinstance(body[0].value.value, str):
        return body[1:]
    return body


# --------------------------------------------------------------------------
# guards as data
# --------------------------------------------------------------------------

def rg_term(t):
    k = t[0]
    if k == "arg":
        return "(.arg %d)" % t[1]
    if k == "n":
        return ".n"
    if k == "lit":
        return "(.lit %s)" % (("(%d)" % t[1]) if t[1] < 0 else str(t[1]))
    return "(.%s %s %s)" % (k, rg_term(t[1]), rg_term(t[2]))


def rg_cond(c):
    k = c[0]
    if k in ("lt", "le", "eq", "ne"):
        return "(.%s %s %s)" % (k, rg_term(c[1]), rg_term(c[2]))
    if k in ("and", "or"):
        return "(.%s %s %s)" % (k, rg_cond(c[1]), rg_cond(c[2]))
    if k == "not":
        return "(.not %s)" % rg_cond(c[1])
    return "(.unrecognised %s)" % lean_str(c[1])


def subst_term(t, amap):
    if t[0] == "arg":
        return ("arg", amap[t[1]])
    if t[0] in ("add", "sub"):
        return (t[0], subst_term(t[1], amap), subst_term(t[2], amap))
    return t


def subst_cond(c, amap):
    k = c[0]
    if k in ("lt", "le", "eq", "ne"):
        return (k, subst_term(c[1], amap), subst_term(c[2], amap))
    if k in ("and", "or"):
        return (k, subst_cond(c[1], amap), subst_cond(c[2], amap))
    if k == "not":
        return (k, subst_cond(c[1], amap))
    return c


# --------------------------------------------------------------------------
# one gate method
# --------------------------------------------------------------------------

class Gate:
    """symbolic execution of one gate method on one generator row"""

    def __init__(self, tr, fn):
        self.tr, self.fn = tr, fn
        self.name = fn.name
        self.arity = ARITY[fn.name]
        self.guards = []          # (line, cond, exc)
        self.lines = []           # Lean lines of the body
        self.result = None
        self.reason = None
        self.src = tr.src_lines
        try:
            self.run()
        except Unrec as e:
            self.reason = "%s, %s" % (self.name, e)

    # ---- naming ----------------------------------------------------------
    def fresh(self, base):
        k = self.used.get(base, 0) + 1
        while "%s%d" % (base, k) in self.taken:
            k += 1
        self.used[base] = k
        nm = "%s%d" % (base, k)
        self.taken.add(nm)
        return nm

    def comment(self, node):
        text = " ".join(x.strip() for x in self.src[node.lineno - 1:(node.end_lineno or node.lineno)])
        if len(text) > 150:
            text = text[:147] + "..."
        self.lines.append("-- %d: %s" % (node.lineno, text.replace("-/", "- /")))

    # ---- operands ----------------------------------------------------------
    def is_n(self, node):
        if isinstance(node, ast.Name) and node.id in self.nvars:
            return True
        if _is_self_attr(node, "_nr_rows"):
            return True
        if _is_self_attr(node, "num_qubits"):
            if not self.tr.num_qubits_ok:
                raise Unrec(node, "self.num_qubits is not the property `return self._nr_rows`")
            return True
        return False

    def param_idx(self, node):
        if isinstance(node, ast.Name) and node.id in self.params:
            return self.params.index(node.id)
        return None

    def col_of(self, node):
        i = self.param_idx(node)
        if i is not None:
            return ("x", i)
        if isinstance(node, ast.BinOp) and isinstance(node.op, ast.Add):
            for a, b in ((node.left, node.right), (node.right, node.left)):
                i = self.param_idx(a)
                if i is not None and self.is_n(b):
                    return ("z", i)
        if isinstance(node, ast.BinOp) and isinstance(node.op, ast.Mult):
            for a, b in ((node.left, node.right), (node.right, node.left)):
                if _int_const(a) == 2 and self.is_n(b):
                    return ("s",)
        if _int_const(node) == -1:
            return ("s",)
        raise Unrec(node, "column index `%s` is not arg, arg + n, -1" % ast.unparse(node))

    def group_sub(self, node):
        """`self._group[R, C]` -> (rowsel node or None for `:`, column key or list of column keys)"""
        if not (isinstance(node, ast.Subscript) and _is_self_attr(node.value, "_group")):
            return None
        idx = node.slice
        if not (isinstance(idx, ast.Tuple) and len(idx.elts) == 2):
            raise Unrec(node, "self._group indexed by `%s`, not by [rows, column] (row selection makes a copy)"
                        % ast.unparse(idx))
        r, c = idx.elts
        if isinstance(r, ast.Slice):
            if r.lower is not None or r.upper is not None or r.step is not None:
                raise Unrec(node, "partial row slice")
            rowsel = None
        else:
            rowsel = r
        if isinstance(c, ast.List):
            cols = [self.col_of(e) for e in c.elts]
            if len(set(cols)) != len(cols):
                raise Unrec(node, "column listed twice")
            return rowsel, cols
        if isinstance(c, (ast.Slice, ast.Tuple)):
            raise Unrec(node, "column selection `%s`" % ast.unparse(c))
        return rowsel, self.col_of(c)

    def np_fun(self, node):
        """name of `np.<name>` if node is that attribute"""
        if isinstance(node, ast.Attribute) and isinstance(node.value, ast.Name) and node.value.id in self.tr.np_names:
            return node.attr
        return None

    # ---- expressions -------------------------------------------------------
    def ev(self, node, mask=None):
        """Bool expression denoted by `node` NOW; `mask` is None for a full column vector, or the mask
        of the enclosing masked assignment (then every array operand must be selected by that mask)"""
        if isinstance(node, ast.Constant) and isinstance(node.value, bool):
            return ("const", node.value)
        if isinstance(node, ast.Name):
            if node.id not in self.locals:
                raise Unrec(node, "unknown name `%s`" % node.id)
            if mask is not None:
                raise Unrec(node, "full-length vector `%s` inside a masked assignment" % node.id)
            kind, v = self.locals[node.id]
            return ("var", self.cols[v]) if kind == "view" else ("var", v)
        gs = self.group_sub(node)
        if gs is not None:
            rowsel, col = gs
            if isinstance(col, list):
                raise Unrec(node, "multi-column selection outside a column swap")
            if rowsel is None:
                if mask is not None:
                    raise Unrec(node, "full column inside a masked assignment")
                return ("var", self.cols[col])
            m = self.ev(rowsel, None)
            if mask is None:
                raise Unrec(node, "boolean-mask selection `%s` outside a masked assignment (it is a copy)"
                            % ast.unparse(node))
            if m != mask:
                raise Unrec(node, "mask of the selection differs from the mask of the assignment")
            return ("var", self.cols[col])
        if isinstance(node, ast.Call) and not node.keywords:
            f = self.np_fun(node.func)
            two = {"logical_and": "and", "logical_or": "or", "logical_xor": "xor"}
            if f in two and len(node.args) == 2:
                return (two[f], self.ev(node.args[0], mask), self.ev(node.args[1], mask))
            if f == "logical_not" and len(node.args) == 1:
                return ("not", self.ev(node.args[0], mask))
            if f == "copy" and len(node.args) == 1:
                return self.ev(node.args[0], mask)
            if isinstance(node.func, ast.Attribute) and node.func.attr == "copy" and not node.args:
                return self.ev(node.func.value, mask)
        if isinstance(node, ast.BinOp):
            op = {ast.BitAnd: "and", ast.BitOr: "or", ast.BitXor: "xor"}.get(type(node.op))
            if op:
                return (op, self.ev(node.left, mask), self.ev(node.right, mask))
        if isinstance(node, ast.UnaryOp) and isinstance(node.op, ast.Invert):
            return ("not", self.ev(node.operand, mask))
        if isinstance(node, ast.Compare) and len(node.ops) == 1 and isinstance(node.ops[0], (ast.Eq, ast.NotEq)):
            a, b = self.ev(node.left, mask), self.ev(node.comparators[0], mask)
            return ("xor" if isinstance(node.ops[0], ast.NotEq) else "eq", a, b)
        raise Unrec(node, "expression `%s`" % ast.unparse(node)[:80])

    # ---- guards ------------------------------------------------------------
    def gterm(self, node):
        i = self.param_idx(node)
        if i is not None:
            return ("arg", i)
        if self.is_n(node):
            return ("n",)
        k = _int_const(node)
        if k is not None:
            return ("lit", k)
        if isinstance(node, ast.BinOp) and isinstance(node.op, (ast.Add, ast.Sub)):
            return ("add" if isinstance(node.op, ast.Add) else "sub", self.gterm(node.left), self.gterm(node.right))
        raise Unrec(node, "guard operand `%s`" % ast.unparse(node)[:60])

    def gcond(self, node):
        if isinstance(node, ast.BoolOp):
            k = "and" if isinstance(node.op, ast.And) else "or"
            cs = [self.gcond(v) for v in node.values]
            out = cs[0]
            for c in cs[1:]:
                out = (k, out, c)
            return out
        if isinstance(node, ast.UnaryOp) and isinstance(node.op, ast.Not):
            return ("not", self.gcond(node.operand))
        if isinstance(node, ast.Compare):
            terms = [self.gterm(node.left)] + [self.gterm(c) for c in node.comparators]
            out = None
            for op, a, b in zip(node.ops, terms, terms[1:]):
                c = {ast.Lt: ("lt", a, b), ast.LtE: ("le", a, b), ast.Gt: ("lt", b, a), ast.GtE: ("le", b, a),
                     ast.Eq: ("eq", a, b), ast.NotEq: ("ne", a, b)}.get(type(op))
                if c is None:
                    raise Unrec(node, "comparison `%s`" % ast.unparse(node)[:60])
                out = c if out is None else ("and", out, c)
            return out
        raise Unrec(node, "guard test `%s`" % ast.unparse(node)[:60])

    def guard(self, st):
        if self.written:
            raise Unrec(st, "`if` after the state was written (a raise there would leave a half-applied gate)")
        if st.orelse or len(st.body) != 1 or not isinstance(st.body[0], ast.Raise):
            raise Unrec(st, "`if` that is not `if <test>: raise …`")
        rs = st.body[0]
        if rs.cause is not None or rs.exc is None:
            raise Unrec(rs, "bare raise / raise from")
        exc = rs.exc
        if isinstance(exc, ast.Call) and isinstance(exc.func, ast.Name):
            cls, operands = exc.func.id, list(exc.args) + [k.value for k in exc.keywords]
        elif isinstance(exc, ast.Name):
            cls, operands = exc.id, []
        else:
            raise Unrec(rs, "raised expression `%s`" % ast.unparse(exc)[:60])
        for o in operands:          # the message must not touch the state
            for x in ast.walk(o):
                if isinstance(x, ast.Attribute) and isinstance(x.value, ast.Name) and x.value.id == "self" \
                        and x.attr not in ("num_qubits", "_nr_rows"):
                    raise Unrec(rs, "exception message reads self.%s" % x.attr)
                if isinstance(x, ast.Call) and not (isinstance(x.func, ast.Attribute) and x.func.attr == "format"):
                    raise Unrec(rs, "call inside the exception message")
        self.comment(st)
        self.guards.append((st.lineno, self.gcond(st.test), cls))

    # ---- writes ------------------------------------------------------------
    def set_col(self, col, expr):
        base = {"x": "x", "z": "z", "s": "s"}[col[0]]
        if self.arity == 2 and col[0] != "s":
            base += "ct"[col[1]]
        nm = self.fresh(base)
        self.lines.append("let %s := %s" % (nm, rb(expr)))
        self.cols[col] = nm
        self.written = True

    def store(self, st, target, value, aug=None):
        rowsel, col = self.group_sub(target)
        self.comment(st)
        if isinstance(col, list):
            # self._group[:, [a, b]] = self._group[:, [c, d]]  (the right-hand side is a copy: simultaneous)
            if rowsel is not None or aug is not None:
                raise Unrec(st, "masked / augmented multi-column assignment")
            gs = self.group_sub(value)
            if gs is None or gs[0] is not None or not isinstance(gs[1], list) or len(gs[1]) != len(col):
                raise Unrec(st, "multi-column assignment whose right-hand side is not self._group[:, [..]] of the same width")
            old = [self.cols[c] for c in gs[1]]
            for c, o in zip(col, old):
                self.set_col(c, ("var", o))
            return
        if rowsel is None:
            e = self.ev(value, None)
            if aug:
                e = (aug, ("var", self.cols[col]), e)
            self.set_col(col, e)
            return
        m = self.ev(rowsel, None)
        e = self.ev(value, m)
        if aug:
            e = (aug, ("var", self.cols[col]), e)
        self.set_col(col, ("ite", m, e, ("var", self.cols[col])))

    def assign_local(self, st, name, value):
        if name in self.params:
            raise Unrec(st, "argument `%s` rebound" % name)
        if self.is_n(value):
            if name in self.locals:
                raise Unrec(st, "`%s` rebound to the qubit count" % name)
            self.comment(st)
            self.nvars.add(name)
            return
        if name in self.nvars:
            raise Unrec(st, "qubit-count variable `%s` rebound" % name)
        self.comment(st)
        # a basic slice is a view of the column
        src = value
        gs = self.group_sub(src) if isinstance(src, ast.Subscript) else None
        if gs is not None and gs[0] is None and not isinstance(gs[1], list):
            self.locals[name] = ("view", gs[1])
            self.lines.append("-- `%s` is a view of column %s" % (name, self.col_name(gs[1])))
            return
        if isinstance(src, ast.Name) and self.locals.get(src.id, ("", ""))[0] == "view":
            self.locals[name] = self.locals[src.id]
            return
        e = self.ev(value, None)
        nm = self.fresh("v_" + name)
        self.lines.append("let %s := %s" % (nm, rb(e)))
        self.locals[name] = ("val", nm)

    def col_name(self, col):
        if col[0] == "s":
            return "-1 (sign)"
        return "%s of argument %d (`%s`)" % (col[0], col[1], self.params[col[1]])

    def call_gate(self, st, call):
        callee_name = call.func.attr
        callee = self.tr.gate(callee_name, self.name)
        if callee.reason is not None:
            raise Unrec(st, "calls %s, which is unrecognised" % callee_name)
        cparams = callee.params
        args = list(call.args)
        if len(args) > len(cparams):
            raise Unrec(st, "too many arguments")
        bound = dict(zip(cparams, args))
        for k in call.keywords:
            if k.arg is None or k.arg not in cparams or k.arg in bound:
                raise Unrec(st, "keyword argument `%s`" % k.arg)
            bound[k.arg] = k.value
        if set(bound) != set(cparams):
            raise Unrec(st, "missing argument")
        amap = []
        for p in cparams:
            i = self.param_idx(bound[p])
            if i is None:
                raise Unrec(st, "argument `%s` is not one of the caller's arguments" % ast.unparse(bound[p]))
            amap.append(i)
        if len(set(amap)) != len(amap):
            raise Unrec(st, "same qubit passed twice")
        self.comment(st)
        for (ln, c, exc) in callee.guards:
            g = subst_cond(c, amap)
            have = [(c0, e0) for (_, c0, e0) in self.guards]
            if (g, exc) in have:
                continue
            if self.written:
                raise Unrec(st, "%s may raise after the state was written" % callee_name)
            self.guards.append((st.lineno, g, exc))
        ins = []
        for i in amap:
            ins += [self.cols[("x", i)], self.cols[("z", i)]]
        ins.append(self.cols[("s",)])
        r = self.fresh("r")
        self.lines.append("(%s %s).bind fun %s =>" % (LEAN_NAME[callee_name], " ".join(ins), r))
        if len(amap) == 1:
            projs = [(("x", amap[0]), ".1"), (("z", amap[0]), ".2.1"), (("s",), ".2.2")]
        else:
            projs = [(("x", amap[0]), ".1.1"), (("z", amap[0]), ".1.2"), (("x", amap[1]), ".2.1.1"),
                     (("z", amap[1]), ".2.1.2"), (("s",), ".2.2")]
        for col, pr in projs:
            self.set_col(col, ("var", r + pr))
        self.written = True

    # ---- the method ----------------------------------------------------------
    def run(self):
        fn = self.fn
        a = fn.args
        if a.vararg or a.kwarg or a.kwonlyargs or a.posonlyargs or a.defaults or fn.decorator_list:
            raise Unrec(fn, "signature / decorators")
        names = [x.arg for x in a.args]
        if len(names) != self.arity + 1 or names[0] != "self":
            raise Unrec(fn, "expected (self%s)" % (", q" * self.arity))
        self.params = names[1:]
        if self.arity == 1:
            self.cols = {("x", 0): "x", ("z", 0): "z", ("s",): "s"}
        else:
            self.cols = {("x", 0): "xc", ("z", 0): "zc", ("x", 1): "xt", ("z", 1): "zt", ("s",): "s"}
        self.taken = set(self.cols.values())
        self.used = {}
        self.nvars, self.locals = set(), {}
        self.written = False
        body = _without_docstring(fn.body)
        for k, st in enumerate(body):
            if isinstance(st, ast.Pass):
                continue
            if isinstance(st, ast.Expr) and isinstance(st.value, ast.Constant):
                continue                      # a bare literal: no effect
            if isinstance(st, ast.Return) and (st.value is None or (isinstance(st.value, ast.Constant)
                                                                    and st.value.value is None)):
                if k != len(body) - 1:
                    raise Unrec(st, "return before the end")
                continue
            if isinstance(st, ast.If):
                self.guard(st)
                continue
            if isinstance(st, ast.Assign) and len(st.targets) == 1:
                tg = st.targets[0]
                if isinstance(tg, ast.Name):
                    self.assign_local(st, tg.id, st.value)
                    continue
                if isinstance(tg, ast.Subscript) and _is_self_attr(tg.value, "_group"):
                    self.store(st, tg, st.value)
                    continue
            if isinstance(st, ast.AugAssign) and isinstance(st.target, ast.Subscript) \
                    and _is_self_attr(st.target.value, "_group"):
                op = {ast.BitAnd: "and", ast.BitOr: "or", ast.BitXor: "xor"}.get(type(st.op))
                if op:
                    self.store(st, st.target, st.value, aug=op)
                    continue
            if isinstance(st, ast.Expr) and isinstance(st.value, ast.Call) and isinstance(st.value.func, ast.Attribute) \
                    and isinstance(st.value.func.value, ast.Name) and st.value.func.value.id == "self" \
                    and st.value.func.attr in ARITY:
                self.call_gate(st, st.value)
                continue
            raise Unrec(st, "statement `%s`" % ast.unparse(st).split("\n")[0][:80])
        c = self.cols
        if self.arity == 1:
            self.result = "(%s, %s, %s)" % (c[("x", 0)], c[("z", 0)], c[("s",)])
        else:
            self.result = "((%s, %s), (%s, %s), %s)" % (c[("x", 0)], c[("z", 0)], c[("x", 1)], c[("z", 1)], c[("s",)])


# --------------------------------------------------------------------------
# the whole class
# --------------------------------------------------------------------------

class Translator:
    def __init__(self, src_text):
        self.src_lines = src_text.split("\n")
        self.tree = ast.parse(src_text)
        self.np_names = set()
        for n in self.tree.body:
            if isinstance(n, ast.Import):
                for al in n.names:
                    if al.name == "numpy":
                        self.np_names.add(al.asname or "numpy")
        self.cls = next((n for n in self.tree.body if isinstance(n, ast.ClassDef) and n.name == CLASS), None)
        self.methods = {}
        self.dups = set()
        if self.cls is not None:
            for f in self.cls.body:
                if isinstance(f, ast.FunctionDef):
                    if f.name in self.methods:
                        self.dups.add(f.name)
                    self.methods[f.name] = f
        self.num_qubits_ok = self._num_qubits_ok()
        self.gates = {}
        self.in_progress = []

    def _num_qubits_ok(self):
        f = self.methods.get("num_qubits")
        if f is None or "num_qubits" in self.dups:
            return False
        if not (len(f.decorator_list) == 1 and isinstance(f.decorator_list[0], ast.Name)
                and f.decorator_list[0].id == "property"):
            return False
        body = _without_docstring(f.body)
        return len(body) == 1 and isinstance(body[0], ast.Return) and body[0].value is not None \
            and _is_self_attr(body[0].value, "_nr_rows")

    def gate(self, name, caller=None):
        if name in self.gates:
            return self.gates[name]
        if name in self.in_progress:
            g = _Missing(name, "%s: recursive call from %s" % (name, caller))
            return g
        if name not in self.methods:
            g = _Missing(name, "%s: no such method in class %s" % (name, CLASS))
        elif name in self.dups:
            g = _Missing(name, "%s: defined twice" % name)
        else:
            self.in_progress.append(name)
            g = Gate(self, self.methods[name])
            self.in_progress.pop()
        self.gates[name] = g
        return g

    # ---- multiplication helpers ------------------------------------------------
    def static2(self, name, nparams):
        """a @staticmethod with exactly the given number of plain parameters -> (fn, params)"""
        f = self.methods.get(name)
        if f is None:
            raise Unrec(self.cls or self.tree, "%s: no such method" % name)
        if name in self.dups:
            raise Unrec(f, "%s: defined twice" % name)
        a = f.args
        if not (len(f.decorator_list) == 1 and isinstance(f.decorator_list[0], ast.Name)
                and f.decorator_list[0].id == "staticmethod"):
            raise Unrec(f, "%s: not a plain @staticmethod" % name)
        if a.vararg or a.kwarg or a.kwonlyargs or a.posonlyargs or a.defaults or len(a.args) != nparams:
            raise Unrec(f, "%s: signature" % name)
        return f, [x.arg for x in a.args]

    def is_cls_attr(self, node, attr):
        return isinstance(node, ast.Attribute) and isinstance(node.value, ast.Name) and node.value.id == CLASS \
            and node.attr == attr

    def pauli2bool(self):
        for st in (self.cls.body if self.cls else []):
            if isinstance(st, ast.Assign) and len(st.targets) == 1 and isinstance(st.targets[0], ast.Name) \
                    and st.targets[0].id == "Pauli2bool":
                d = st.value
                if not isinstance(d, ast.Dict):
                    raise Unrec(st, "Pauli2bool is not a dict literal")
                out = {}
                for k, v in zip(d.keys, d.values):
                    if not (isinstance(k, ast.Constant) and isinstance(k.value, str) and len(k.value) == 1
                            and isinstance(v, ast.Tuple) and len(v.elts) == 2
                            and all(isinstance(e, ast.Constant) and isinstance(e.value, bool) for e in v.elts)):
                        raise Unrec(st, "Pauli2bool entry `%s`" % ast.unparse(k))
                    if k.value in out:
                        raise Unrec(st, "Pauli2bool key twice")
                    out[k.value] = (v.elts[0].value, v.elts[1].value)
                return out, st.lineno
        raise Unrec(self.cls or self.tree, "class attribute Pauli2bool not found")

    def pauli_mask(self):
        """_get_pauli_mask(s1, s2, p1, p2) -> Lean Bool expression over a b p1 p2 : Bool × Bool"""
        f, ps = self.static2("_get_pauli_mask", 4)
        rows = {ps[0]: "a", ps[1]: "b"}
        pnames = {ps[2]: "p1", ps[3]: "p2"}
        half, pb, vals = set(), {}, {}
        lines = []

        def is_half(node):
            # int((len(s) - 1) / 2)  or  (len(s) - 1) // 2
            def len_minus_1(x):
                return isinstance(x, ast.BinOp) and isinstance(x.op, ast.Sub) and _int_const(x.right) == 1 \
                    and isinstance(x.left, ast.Call) and isinstance(x.left.func, ast.Name) and x.left.func.id == "len" \
                    and len(x.left.args) == 1 and isinstance(x.left.args[0], ast.Name) and x.left.args[0].id in rows
            if isinstance(node, ast.Call) and isinstance(node.func, ast.Name) and node.func.id == "int" \
                    and len(node.args) == 1 and not node.keywords:
                x = node.args[0]
                return isinstance(x, ast.BinOp) and isinstance(x.op, (ast.Div, ast.FloorDiv)) \
                    and _int_const(x.right) == 2 and len_minus_1(x.left)
            return isinstance(node, ast.BinOp) and isinstance(node.op, ast.FloorDiv) and _int_const(node.right) == 2 \
                and len_minus_1(node.left)

        def ev(node):
            if isinstance(node, ast.Name) and node.id in vals:
                return ("var", vals[node.id])
            if isinstance(node, ast.Subscript) and isinstance(node.value, ast.Name):
                base = node.value.id
                sl = node.slice
                if base in rows and isinstance(sl, ast.Slice) and sl.step is None:
                    lo, hi = sl.lower, sl.upper
                    if lo is None and isinstance(hi, ast.Name) and hi.id in half:
                        return ("var", rows[base] + ".1")         # s[:num_paulis]   = X bits
                    if isinstance(lo, ast.Name) and lo.id in half and hi is not None and _int_const(hi) == -1:
                        return ("var", rows[base] + ".2")         # s[num_paulis:-1] = Z bits
                if base in pb and _int_const(sl) in (0, 1):
                    return ("var", "%s.%d" % (pb[base], _int_const(sl) + 1))
            if isinstance(node, ast.Compare) and len(node.ops) == 1 and isinstance(node.ops[0], (ast.Eq, ast.NotEq)):
                return ("eq" if isinstance(node.ops[0], ast.Eq) else "xor", ev(node.left), ev(node.comparators[0]))
            if isinstance(node, ast.BinOp):
                op = {ast.BitAnd: "and", ast.BitOr: "or", ast.BitXor: "xor"}.get(type(node.op))
                if op:
                    return (op, ev(node.left), ev(node.right))
            if isinstance(node, ast.UnaryOp) and isinstance(node.op, ast.Invert):
                return ("not", ev(node.operand))
            if isinstance(node, ast.Call) and not node.keywords and isinstance(node.func, ast.Attribute) \
                    and isinstance(node.func.value, ast.Name) and node.func.value.id in self.np_names:
                two = {"logical_and": "and", "logical_or": "or", "logical_xor": "xor"}
                if node.func.attr in two and len(node.args) == 2:
                    return (two[node.func.attr], ev(node.args[0]), ev(node.args[1]))
                if node.func.attr == "logical_not" and len(node.args) == 1:
                    return ("not", ev(node.args[0]))
            raise Unrec(node, "_get_pauli_mask: expression `%s`" % ast.unparse(node)[:70])

        body = _without_docstring(f.body)
        for k, st in enumerate(body):
            if isinstance(st, ast.Return) and k == len(body) - 1 and st.value is not None:
                lines.append("-- %d: %s" % (st.lineno, self.src_lines[st.lineno - 1].strip()))
                return lines, rb(ev(st.value))
            if isinstance(st, ast.Assign) and len(st.targets) == 1 and isinstance(st.targets[0], ast.Name):
                nm = st.targets[0].id
                if nm in rows or nm in pnames:
                    raise Unrec(st, "_get_pauli_mask: parameter rebound")
                lines.append("-- %d: %s" % (st.lineno, self.src_lines[st.lineno - 1].strip()))
                for d in (half, pb, vals):
                    if nm in d:
                        raise Unrec(st, "_get_pauli_mask: `%s` rebound" % nm)
                if is_half(st.value):
                    half.add(nm)
                    continue
                v = st.value
                if isinstance(v, ast.Subscript) and self.is_cls_attr(v.value, "Pauli2bool") \
                        and isinstance(v.slice, ast.Name) and v.slice.id in pnames:
                    pb[nm] = pnames[v.slice.id]
                    continue
                e = ev(v)
                vals[nm] = "v_" + nm
                lines.append("let v_%s := %s" % (nm, rb(e)))
                continue
            raise Unrec(st, "_get_pauli_mask: statement `%s`" % ast.unparse(st).split("\n")[0][:70])
        raise Unrec(f, "_get_pauli_mask: no return")

    def pair_mask(self, name):
        """_get_i_mask / _get_minus_i_mask -> list of (p, q) letters, swapped flag"""
        f, ps = self.static2(name, 2)
        body = _without_docstring(f.body)
        if len(body) != 3:
            raise Unrec(f, "%s: not `acc = False; for …: acc |= …; return acc`" % name)
        init, loop, ret = body
        if not (isinstance(init, ast.Assign) and len(init.targets) == 1 and isinstance(init.targets[0], ast.Name)
                and isinstance(init.value, ast.Constant) and init.value.value is False):
            raise Unrec(init, "%s: accumulator is not initialised to False" % name)
        acc = init.targets[0].id
        if acc in ps:
            raise Unrec(init, "%s: parameter rebound" % name)
        if not (isinstance(loop, ast.For) and not loop.orelse and isinstance(loop.target, ast.Name)
                and isinstance(loop.iter, (ast.List, ast.Tuple)) and len(loop.body) == 1):
            raise Unrec(loop, "%s: loop shape" % name)
        lv = loop.target.id
        if lv in ps or lv == acc:
            raise Unrec(loop, "%s: loop variable" % name)
        pairs = []
        for e in loop.iter.elts:
            if not (isinstance(e, ast.Constant) and isinstance(e.value, str) and len(e.value) == 2):
                raise Unrec(loop, "%s: loop over something else than 2-letter strings" % name)
            pairs.append((e.value[0], e.value[1]))
        st = loop.body[0]
        if not (isinstance(st, ast.AugAssign) and isinstance(st.op, ast.BitOr) and isinstance(st.target, ast.Name)
                and st.target.id == acc and isinstance(st.value, ast.Call) and not st.value.keywords
                and self.is_cls_attr(st.value.func, "_get_pauli_mask")):
            raise Unrec(st, "%s: loop body is not `acc |= %s._get_pauli_mask(…)`" % (name, CLASS))
        args = st.value.args
        if len(args) == 3 and isinstance(args[2], ast.Starred) and isinstance(args[2].value, ast.Name) \
                and args[2].value.id == lv:
            pass
        elif len(args) == 4 and all(isinstance(x, ast.Subscript) and isinstance(x.value, ast.Name) and x.value.id == lv
                                    and _int_const(x.slice) == i for i, x in enumerate(args[2:])):
            pass
        else:
            raise Unrec(st, "%s: Pauli arguments of _get_pauli_mask" % name)
        if not all(isinstance(x, ast.Name) for x in args[:2]) or sorted(x.id for x in args[:2]) != sorted(ps):
            raise Unrec(st, "%s: row arguments of _get_pauli_mask" % name)
        swapped = args[0].id == ps[1]
        if not (isinstance(ret, ast.Return) and isinstance(ret.value, ast.Name) and ret.value.id == acc):
            raise Unrec(ret, "%s: does not return the accumulator" % name)
        return pairs, swapped, f.lineno

    def compute_phase(self):
        """_multiply_compute_phase(s1, s2) -> (comment/let lines, Bool expression over s1 s2 ni nmi)"""
        f, ps = self.static2("_multiply_compute_phase", 2)
        env = {}          # name -> ("mask", "I"|"MI") | ("int", ir) | ("rat", ir) | ("bool", ir)
        lines = []

        def arith(node):
            """-> ("int"|"rat", ir)"""
            if isinstance(node, ast.Name) and node.id in env and env[node.id][0] in ("int", "rat"):
                return env[node.id]
            k = _int_const(node)
            if k is not None:
                return ("int", ("ilit", k))
            if isinstance(node, ast.Call) and not node.keywords and len(node.args) == 1:
                # np.count_nonzero(mask) / np.sum(mask) / mask.sum() are handled by count()
                c = count(node)
                if c is not None:
                    return ("int", c)
            if isinstance(node, ast.BinOp):
                if isinstance(node.op, ast.Div):
                    ta, a = arith(node.left)
                    d = _int_const(node.right)
                    if ta == "int" and d is not None and d != 0:
                        return ("rat", a)      # a / d: a float that is zero exactly when a is
                    raise Unrec(node, "_multiply_compute_phase: division `%s`" % ast.unparse(node)[:60])
                ta, a = arith(node.left)
                tb, b = arith(node.right)
                if ta != "int" or tb != "int":
                    raise Unrec(node, "_multiply_compute_phase: arithmetic on a float")
                if isinstance(node.op, ast.Add):
                    return ("int", ("iadd", a, b))
                if isinstance(node.op, ast.Sub):
                    return ("int", ("isub", a, b))
                if isinstance(node.op, ast.Mult):
                    return ("int", ("imul", a, b))
                if isinstance(node.op, ast.Mod):
                    d = _int_const(node.right)
                    if d is not None and d > 0:
                        return ("int", ("imod", a, b))      # Python % with positive modulus = Int.emod
                    raise Unrec(node, "_multiply_compute_phase: modulus is not a positive literal")
            raise Unrec(node, "_multiply_compute_phase: arithmetic `%s`" % ast.unparse(node)[:60])

        def count(node):
            arg = None
            if isinstance(node.func, ast.Attribute) and isinstance(node.func.value, ast.Name) \
                    and node.func.value.id in self.np_names and node.func.attr in ("count_nonzero", "sum") \
                    and len(node.args) == 1:
                arg = node.args[0]
            if arg is None:
                return None
            if isinstance(arg, ast.Name) and env.get(arg.id, ("",))[0] == "mask":
                return ("ivar", "(ni : Int)" if env[arg.id][1] == "I" else "(nmi : Int)")
            m = mask_call(arg)
            if m is not None:
                return ("ivar", "(ni : Int)" if m == "I" else "(nmi : Int)")
            return None

        def mask_call(node):
            if isinstance(node, ast.Call) and not node.keywords and len(node.args) == 2:
                for meth, kind in (("_get_i_mask", "I"), ("_get_minus_i_mask", "MI")):
                    if self.is_cls_attr(node.func, meth):
                        if [getattr(x, "id", None) for x in node.args] != ps:
                            raise Unrec(node, "_multiply_compute_phase: %s not called on (s1, s2) in order" % meth)
                        return kind
            return None

        def boolean(node):
            """value used where NumPy wants a truth value"""
            if isinstance(node, ast.Name) and node.id in env:
                t, v = env[node.id]
                if t == "bool":
                    return v
                if t in ("int", "rat"):
                    return ("nz", v)
                raise Unrec(node, "_multiply_compute_phase: a mask used as a scalar")
            if isinstance(node, ast.Subscript) and isinstance(node.value, ast.Name) and node.value.id in ps \
                    and _int_const(node.slice) == -1:
                return ("var", "s1" if node.value.id == ps[0] else "s2")
            if isinstance(node, ast.Call) and not node.keywords and isinstance(node.func, ast.Attribute) \
                    and isinstance(node.func.value, ast.Name) and node.func.value.id in self.np_names:
                two = {"logical_and": "and", "logical_or": "or", "logical_xor": "xor"}
                if node.func.attr in two and len(node.args) == 2:
                    return (two[node.func.attr], boolean(node.args[0]), boolean(node.args[1]))
                if node.func.attr == "logical_not" and len(node.args) == 1:
                    return ("not", boolean(node.args[0]))
            if isinstance(node, ast.Compare) and len(node.ops) == 1:
                op = {ast.Eq: "=", ast.NotEq: "≠", ast.Lt: "<", ast.LtE: "≤", ast.Gt: ">", ast.GtE: "≥"}.get(type(node.ops[0]))
                ta, a = arith(node.left)
                tb, b = arith(node.comparators[0])
                if op and ta == "int" and tb == "int":
                    return ("icmp", op, a, b)
            if isinstance(node, ast.BinOp) and isinstance(node.op, ast.BitXor):
                return ("xor", boolean(node.left), boolean(node.right))
            t, v = arith(node)
            return ("nz", v)

        body = _without_docstring(f.body)
        for k, st in enumerate(body):
            src = self.src_lines[st.lineno - 1].strip()
            if isinstance(st, ast.Return) and k == len(body) - 1 and st.value is not None:
                lines.append("-- %d: %s" % (st.lineno, src))
                return lines, rb(boolean(st.value))
            if isinstance(st, ast.Assign) and len(st.targets) == 1 and isinstance(st.targets[0], ast.Name):
                nm = st.targets[0].id
                if nm in ps or nm in env:
                    raise Unrec(st, "_multiply_compute_phase: `%s` rebound" % nm)
                lines.append("-- %d: %s" % (st.lineno, src))
                m = mask_call(st.value)
                if m is not None:
                    env[nm] = ("mask", m)
                    lines.append("--      `%s` = positions contributing a factor %s" % (nm, "i" if m == "I" else "-i"))
                    continue
                if isinstance(st.value, ast.Compare):
                    e = boolean(st.value)
                    lines.append("let v_%s : Bool := %s" % (nm, rb(e)))
                    env[nm] = ("bool", ("var", "v_" + nm))
                    continue
                t, v = arith(st.value)
                lines.append("let v_%s : Int := %s%s" % (nm, ri(v), "" if t == "int" else
                                                         "   -- `/ c`: the float is zero exactly when this integer is"))
                env[nm] = (t, ("ivar", "v_" + nm))
                continue
            raise Unrec(st, "_multiply_compute_phase: statement `%s`" % ast.unparse(st).split("\n")[0][:70])
        raise Unrec(f, "_multiply_compute_phase: no return")

    def multiply(self):
        """_multiply_stabilizers(s1, s2): new = f(s1[:-1], s2[:-1]) bitwise; new = np.append(new, phase(s1, s2))"""
        f, ps = self.static2("_multiply_stabilizers", 2)
        body = _without_docstring(f.body)
        stmts = []
        for st in body:
            if isinstance(st, ast.Assert):
                for x in ast.walk(st.test):
                    if isinstance(x, ast.Call) and not (isinstance(x.func, ast.Name) and x.func.id == "len"):
                        raise Unrec(st, "_multiply_stabilizers: call in an assert")
                continue
            stmts.append(st)
        if len(stmts) != 3:
            raise Unrec(f, "_multiply_stabilizers: not `v = f(s1[:-1], s2[:-1]); v = np.append(v, phase); return v`")
        a1, a2, ret = stmts

        def butlast(node):
            if isinstance(node, ast.Subscript) and isinstance(node.value, ast.Name) and node.value.id in ps \
                    and isinstance(node.slice, ast.Slice) and node.slice.lower is None and node.slice.step is None \
                    and node.slice.upper is not None and _int_const(node.slice.upper) == -1:
                return ("var", "u" if node.value.id == ps[0] else "v")
            return None

        def ev(node):
            b = butlast(node)
            if b is not None:
                return b
            if isinstance(node, ast.Call) and not node.keywords and isinstance(node.func, ast.Attribute) \
                    and isinstance(node.func.value, ast.Name) and node.func.value.id in self.np_names:
                two = {"logical_and": "and", "logical_or": "or", "logical_xor": "xor"}
                if node.func.attr in two and len(node.args) == 2:
                    return (two[node.func.attr], ev(node.args[0]), ev(node.args[1]))
                if node.func.attr == "logical_not" and len(node.args) == 1:
                    return ("not", ev(node.args[0]))
            if isinstance(node, ast.BinOp):
                op = {ast.BitAnd: "and", ast.BitOr: "or", ast.BitXor: "xor"}.get(type(node.op))
                if op:
                    return (op, ev(node.left), ev(node.right))
            if isinstance(node, ast.Compare) and len(node.ops) == 1 and isinstance(node.ops[0], (ast.Eq, ast.NotEq)):
                return ("eq" if isinstance(node.ops[0], ast.Eq) else "xor", ev(node.left), ev(node.comparators[0]))
            raise Unrec(node, "_multiply_stabilizers: expression `%s`" % ast.unparse(node)[:70])

        if not (isinstance(a1, ast.Assign) and len(a1.targets) == 1 and isinstance(a1.targets[0], ast.Name)):
            raise Unrec(a1, "_multiply_stabilizers: first statement")
        v = a1.targets[0].id
        if v in ps:
            raise Unrec(a1, "_multiply_stabilizers: parameter rebound")
        bit = ev(a1.value)
        ok = isinstance(a2, ast.Assign) and len(a2.targets) == 1 and isinstance(a2.targets[0], ast.Name) \
            and isinstance(a2.value, ast.Call) and not a2.value.keywords and len(a2.value.args) == 2 \
            and isinstance(a2.value.func, ast.Attribute) and isinstance(a2.value.func.value, ast.Name) \
            and a2.value.func.value.id in self.np_names and a2.value.func.attr == "append" \
            and isinstance(a2.value.args[0], ast.Name) and a2.value.args[0].id == v
        if not ok:
            raise Unrec(a2, "_multiply_stabilizers: second statement is not `w = np.append(v, …)`")
        ph = a2.value.args[1]
        if not (isinstance(ph, ast.Call) and not ph.keywords and self.is_cls_attr(ph.func, "_multiply_compute_phase")
                and [getattr(x, "id", None) for x in ph.args] == ps):
            raise Unrec(a2, "_multiply_stabilizers: appended value is not _multiply_compute_phase(s1, s2)")
        w = a2.targets[0].id
        if not (isinstance(ret, ast.Return) and isinstance(ret.value, ast.Name) and ret.value.id == w):
            raise Unrec(ret, "_multiply_stabilizers: does not return the appended array")
        return ["-- %d: %s" % (a1.lineno, self.src_lines[a1.lineno - 1].strip()),
                "-- %d: %s" % (a2.lineno, self.src_lines[a2.lineno - 1].strip())], rb(bit)


class _Missing:
    def __init__(self, name, reason):
        self.name, self.reason = name, reason
        self.arity = ARITY[name]
        self.guards, self.lines, self.result, self.params = [], [], None, []


# --------------------------------------------------------------------------
# rendering
# --------------------------------------------------------------------------

HEADER = """import SqVerif.StabGen
/- GENERATED on every run by harness/gen/stabgates.py from %s — do not edit.
   Row-wise semantics of the gate methods and of the row-multiplication helpers of `StabilizerState`,
   read off the Python AST statement by statement (symbolic execution on the bits of ONE generator row).
   The obligations over them are in Props/C13Gen.lean. -/
namespace SqVerif.Gen.StabGates
open SqVerif.StabGen
"""


def render_gate(g, w):
    lean = LEAN_NAME[g.name]
    if g.arity == 1:
        sig = "(x z s : Bool) : Tr (Bool × Bool × Bool)"
        usig = "(_x _z _s : Bool) : Tr (Bool × Bool × Bool)"
    else:
        sig = "(xc zc xt zt s : Bool) : Tr ((Bool × Bool) × (Bool × Bool) × Bool)"
        usig = "(_xc _zc _xt _zt _s : Bool) : Tr ((Bool × Bool) × (Bool × Bool) × Bool)"
    if g.reason is not None:
        w("/-- `%s`: NOT in the idiom set -/" % g.name)
        w("def %s %s :=" % (lean, usig))
        w("  .unrecognised %s" % lean_str(g.reason))
        w("def %sGuards : List Guard := [⟨0, .unrecognised %s, \"\"⟩]" % (lean, lean_str(g.reason)))
        w("")
        return
    w("/-- `%s(self, %s)`, line %d -/" % (g.name, ", ".join(g.params), g.fn.lineno))
    w("def %s %s :=" % (lean, sig))
    for ln in g.lines:
        w("  " + ln)
    w("  .ok %s" % g.result)
    w("def %sGuards : List Guard := [%s]" % (
        lean, ", ".join("⟨%d, %s, %s⟩" % (ln, rg_cond(c), lean_str(exc)) for ln, c, exc in g.guards)))
    w("")


def translate(src_text):
    """-> (Lean text, table)"""
    out = []
    w = out.append
    unrec = []
    w(HEADER % SRC)
    try:
        tr = Translator(src_text)
    except SyntaxError as e:
        tr = Translator("")
        unrec.append(("<file>", "syntax error: %s" % e))
    if tr.cls is None:
        unrec.append((CLASS, "class not found"))
    gates = []
    for py, _ in GATES1 + GATES2:
        g = tr.gate(py)
        gates.append(g)
        if g.reason is not None:
            unrec.append((py, g.reason))
    w("/-! ### gates: one generator row through the method -/")
    w("")
    for g in gates:
        render_gate(g, w)
    w("def gate1Guards : List (String × List Guard) := [%s]" % ", ".join(
        '("%s", %sGuards)' % (py, ln) for py, ln in GATES1))
    w("def gate2Guards : List (String × List Guard) := [%s]" % ", ".join(
        '("%s", %sGuards)' % (py, ln) for py, ln in GATES2))
    w("")
    w("/-! ### row multiplication helpers -/")
    w("")
    # _get_pauli_mask
    sigm = "(a b p1 p2 : Bool × Bool) : Tr Bool"
    try:
        if tr.cls is None:
            raise Unrec(tr.tree, "class not found")
        lines, e = tr.pauli_mask()
        w("/-- `_get_pauli_mask(s1, s2, p1, p2)` at one position: `a`, `b` the letters (x, z) of s1, s2 there,")
        w("    `p1`, `p2` the entries `Pauli2bool[p1]`, `Pauli2bool[p2]` -/")
        w("def pauliMask %s :=" % sigm)
        for ln in lines:
            w("  " + ln)
        w("  .ok %s" % e)
    except Unrec as ex:
        unrec.append(("_get_pauli_mask", str(ex)))
        w("def pauliMask (_a _b _p1 _p2 : Bool × Bool) : Tr Bool :=")
        w("  .unrecognised %s" % lean_str(str(ex)))
    w("")
    # Pauli2bool and the two pair masks
    try:
        if tr.cls is None:
            raise Unrec(tr.tree, "class not found")
        p2b, p2b_line = tr.pauli2bool()
    except Unrec as ex:
        p2b, p2b_line = None, 0
        unrec.append(("Pauli2bool", str(ex)))
        p2b_err = str(ex)
    if p2b is not None:
        w("/-- `Pauli2bool`, line %d -/" % p2b_line)
        w("def pauli2bool : List (Char × (Bool × Bool)) := [%s]" % ", ".join(
            "('%s', (%s, %s))" % (k, str(v[0]).lower(), str(v[1]).lower()) for k, v in p2b.items()))
    else:
        w("def pauli2bool : List (Char × (Bool × Bool)) := []")
    w("")
    for meth, lean, what in (("_get_i_mask", "isI", "i"), ("_get_minus_i_mask", "isMinusI", "-i")):
        try:
            if p2b is None:
                raise Unrec(tr.tree, "Pauli2bool: " + p2b_err)
            pairs, swapped, line = tr.pair_mask(meth)
            for p, q in pairs:
                for c in (p, q):
                    if c not in p2b:
                        raise Unrec(tr.methods[meth], "%s: letter %r is not a key of Pauli2bool (KeyError)" % (meth, c))
            w("/-- `%s(s1, s2)` at one position (line %d): or over the pairs %s -/" % (
                meth, line, " ".join(p + q for p, q in pairs)))
            w("def %sPairs : List (Char × Char) := [%s]" % (lean, ", ".join("('%s', '%s')" % pq for pq in pairs)))
            w("def %s (a b : Bool × Bool) : Tr Bool :=" % lean)
            ab = "b a" if swapped else "a b"
            items = []
            for p, q in pairs:
                items.append("pauliMask %s (%s, %s) (%s, %s)" % (
                    ab, str(p2b[p][0]).lower(), str(p2b[p][1]).lower(), str(p2b[q][0]).lower(), str(p2b[q][1]).lower()))
            w("  Tr.orAll [%s]" % (",\n            ".join(items)))
        except Unrec as ex:
            unrec.append((meth, str(ex)))
            w("def %sPairs : List (Char × Char) := []" % lean)
            w("def %s (_a _b : Bool × Bool) : Tr Bool :=" % lean)
            w("  .unrecognised %s" % lean_str(str(ex)))
        w("")
    # _multiply_compute_phase
    try:
        if tr.cls is None:
            raise Unrec(tr.tree, "class not found")
        lines, e = tr.compute_phase()
        w("/-- `_multiply_compute_phase(s1, s2)`: `s1`, `s2` the sign bits, `ni` / `nmi` the number of positions")
        w("    where `_get_i_mask` / `_get_minus_i_mask` is set (`np.count_nonzero`).  Python `%` with a positive")
        w("    modulus is `Int.emod`; a number used as a truth value is true iff non-zero. -/")
        w("def mulSign (s1 s2 : Bool) (ni nmi : Nat) : Tr Bool :=")
        for ln in lines:
            w("  " + ln)
        w("  .ok %s" % e)
    except Unrec as ex:
        unrec.append(("_multiply_compute_phase", str(ex)))
        w("def mulSign (_s1 _s2 : Bool) (_ni _nmi : Nat) : Tr Bool :=")
        w("  .unrecognised %s" % lean_str(str(ex)))
    w("/-- the contribution of the letters alone -/")
    w("def hasMinusPhase (ni nmi : Nat) : Tr Bool := mulSign false false ni nmi")
    w("")
    # _multiply_stabilizers
    try:
        if tr.cls is None:
            raise Unrec(tr.tree, "class not found")
        lines, e = tr.multiply()
        w("/-- `_multiply_stabilizers(s1, s2)`: every X / Z bit of the product from the bits `u` of s1 and `v` of s2")
        w("    at the same index; the last entry is `_multiply_compute_phase(s1, s2)` -/")
        w("def mulBit (u v : Bool) : Tr Bool :=")
        for ln in lines:
            w("  " + ln)
        w("  .ok %s" % e)
    except Unrec as ex:
        unrec.append(("_multiply_stabilizers", str(ex)))
        w("def mulBit (_u _v : Bool) : Tr Bool :=")
        w("  .unrecognised %s" % lean_str(str(ex)))
    w("")
    w("/-- every method / construct the translator could not read -/")
    w("def unrecognised : List (String × String) := [%s]" % ", ".join(
        "(%s, %s)" % (lean_str(a), lean_str(b)) for a, b in unrec))
    w("")
    w("end SqVerif.Gen.StabGates")
    return "\n".join(out) + "\n", {"unrecognised": ["%s: %s" % ab for ab in unrec],
                                   "methods": [g.name for g in gates] + ["_get_pauli_mask", "_get_i_mask",
                                                                         "_get_minus_i_mask", "_multiply_compute_phase",
                                                                         "_multiply_stabilizers"]}


# regenerated definitions each of which is the subject of an equation theorem of Props/C13Gen.lean:
# 10 gate functions, 10 guard lists (2 tables), pauliMask/isI/isMinusI (+ pair lists), mulSign, hasMinusPhase,
# mulBit, unrecognised
OBLIGATIONS = len(GATES1) + len(GATES2) + 2 + 7


def generate(repo_root=None, lean_dir=None):
    """Regenerate Gen/StabGates.lean from the repository under test; the file is rewritten only when
    its text changes.  -> {"obligations": n, "unrecognised": [...], "changed": bool, "file": OUT}"""
    if repo_root is None:
        repo_root = os.environ.get("VERIF_REPO", "/repo")
    if lean_dir is None:
        lean_dir = os.path.join(os.path.dirname(os.path.dirname(os.path.dirname(os.path.abspath(__file__)))), "lean")
    try:
        with open(os.path.join(repo_root, SRC)) as f:
            src = f.read()
    except OSError as e:
        src = ""
        missing = "cannot read %s: %s" % (SRC, e)
    else:
        missing = None
    text, tab = translate(src)
    if missing:
        tab["unrecognised"].insert(0, missing)
    path = os.path.join(lean_dir, OUT)
    os.makedirs(os.path.dirname(path), exist_ok=True)
    old = None
    if os.path.exists(path):
        with open(path) as f:
            old = f.read()
    if old != text:
        tmp = path + ".tmp%d" % os.getpid()
        with open(tmp, "w") as f:
            f.write(text)
        os.replace(tmp, path)
    return {"obligations": OBLIGATIONS, "unrecognised": tab["unrecognised"], "changed": old != text,
            "file": OUT, "methods": tab["methods"]}


if __name__ == "__main__":
    import json
    import sys
    print(json.dumps(generate(sys.argv[1] if len(sys.argv) > 1 else None), indent=1))

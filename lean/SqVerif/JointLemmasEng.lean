import SqVerif.JointLemmasSt
/-
C01 joint layer, part 5 — the engine state of a network:
association lists up to permutation, what a successful engine call does to the stabilizer state
and to the slot labels (`call_*`, `raiseThen_*`), the engine-level invariant `JInv`
(keys distinct, every engine in step with its labels and `Reachable`, all slot labels
distinct and below the label supply, nothing in flight) and its reading as `FacsOK`.
-/
set_option linter.unusedSimpArgs false
set_option linter.unusedVariables false
namespace SqVerif.Joint
open SqVerif.Stab SqVerif.Stab.Meas SqVerif.VNet SqVerif.VNetEng SqVerif.Engine

/-! ### association lists -/

section assoc
variable {α : Type}

theorem aget_eq_none {l : List (Key × α)} {k : Key} : aget l k = none ↔ k ∉ l.map (·.1) := by
  induction l with
  | nil => simp [aget]
  | cons p l ih =>
    rw [aget_cons]
    by_cases h : p.1 = k
    · simp [h]
    · rw [if_neg h, ih]
      simp only [List.map_cons, List.mem_cons, not_or]
      exact ⟨fun h' => ⟨fun e => h e.symm, h'⟩, fun h' => h'.2⟩

theorem adel_of_notin {l : List (Key × α)} {k : Key} (h : k ∉ l.map (·.1)) : adel l k = l := by
  unfold adel
  rw [List.filter_eq_self]
  intro p hp
  have : p.1 ≠ k := fun e => h (e ▸ List.mem_map_of_mem hp)
  simp [this]

theorem adel_cons_ne (p : Key × α) (l : List (Key × α)) (k : Key) (h : p.1 ≠ k) :
    adel (p :: l) k = p :: adel l k := by
  unfold adel; rw [List.filter_cons]; simp [h]

theorem adel_cons_eq (p : Key × α) (l : List (Key × α)) (k : Key) (h : p.1 = k) :
    adel (p :: l) k = adel l k := by
  unfold adel; rw [List.filter_cons]; simp [h]

theorem perm_of_aget {l : List (Key × α)} {k : Key} {v : α} (hn : (l.map (·.1)).Nodup) (h : aget l k = some v) :
    l.Perm ((k, v) :: adel l k) := by
  induction l with
  | nil => cases h
  | cons p l ih =>
    rw [List.map_cons, List.nodup_cons] at hn
    rw [aget_cons] at h
    by_cases e : p.1 = k
    · rw [if_pos e] at h
      cases h
      rw [adel_cons_eq p l k e, adel_of_notin (e ▸ hn.1)]
      rcases p with ⟨a, b⟩
      cases e
      exact List.Perm.refl _
    · rw [if_neg e] at h
      rw [adel_cons_ne p l k e]
      exact ((ih hn.2 h).cons p).trans (List.Perm.swap _ _ _)

theorem mem_adel {l : List (Key × α)} {k : Key} {p : Key × α} (h : p ∈ adel l k) : p ∈ l ∧ p.1 ≠ k := by
  unfold adel at h
  have := List.mem_filter.1 h
  exact ⟨this.1, by simpa using this.2⟩

end assoc

/-! ### what a successful engine call does -/

theorem call_some {en en' : LEng} {c : Call} {ls : List Nat} (h : en.call c ls = some en') :
    (∃ o, (en.eng.step c).1 = .ok o) ∧ en'.eng = (en.eng.step c).2 ∧ en'.lab = (en.lab.step (c.toSpec ls)).2 := by
  unfold LEng.call at h
  split at h
  · next o ho => cases h; exact ⟨⟨o, ho⟩, rfl, rfl⟩
  · cases h

theorem call_ok {en en' : LEng} {c : Call} {ls : List Nat} (hOK : en.OK) (hc : c.LabelsOK ls) (hr : CallReach c)
    (h : en.call c ls = some en') : en'.OK ∧ ∃ o, (en.lab.step (c.toSpec ls)).1 = .ok o := by
  obtain ⟨⟨o, ho⟩, he, hl⟩ := call_some h
  have hs := step_refines en.eng en.lab c ls ⟨hOK.size, hOK.max⟩ hc
  refine ⟨⟨?_, ?_, ?_⟩, ?_⟩
  · rw [he, hl]; exact hs.2.1
  · rw [he, hl]; exact hs.2.2
  · rw [he]; exact reach_step en.eng c hOK.reach hr
  · cases hl1 : (en.lab.step (c.toSpec ls)).1 with
    | ok o' => exact ⟨o', rfl⟩
    | error x =>
      have := hs.1
      rw [hl1, ho] at this
      exact absurd this (by simp [ResOK])

theorem call_gate1 {en en' : LEng} {g : Gate1} {j : Nat} (hOK : en.OK) (h : en.call (.gate1 g j) [] = some en') :
    en'.OK ∧ en'.lab.slots = en.lab.slots ∧ Stab.applyGate1 g j en.eng.st = some en'.eng.st := by
  obtain ⟨⟨o, ho⟩, he, hl⟩ := call_some h
  refine ⟨(call_ok (c := .gate1 g j) (ls := []) hOK trivial trivial h).1, ?_, ?_⟩
  · rw [hl]; simp only [Call.toSpec, Reg.step]; split <;> rfl
  · rw [he]
    simp only [StabEngine.step, liftRes, StabEngine.applyGate1] at ho ⊢
    cases hg : Stab.applyGate1 g j en.eng.st with
    | none => rw [hg] at ho; cases ho
    | some s => rfl

theorem call_gate2 {en en' : LEng} {g : Gate2} {c t : Nat} (hOK : en.OK) (h : en.call (.gate2 g c t) [] = some en') :
    en'.OK ∧ en'.lab.slots = en.lab.slots ∧ Stab.applyGate2 g c t en.eng.st = some en'.eng.st := by
  obtain ⟨⟨o, ho⟩, he, hl⟩ := call_some h
  refine ⟨(call_ok (c := .gate2 g c t) (ls := []) hOK trivial trivial h).1, ?_, ?_⟩
  · rw [hl]; simp only [Call.toSpec, Reg.step]; split <;> rfl
  · rw [he]
    simp only [StabEngine.step, liftRes, StabEngine.applyGate2] at ho ⊢
    cases hg : Stab.applyGate2 g c t en.eng.st with
    | none => rw [hg] at ho; cases ho
    | some s => rfl

theorem call_measInplace {en en' : LEng} {j : Nat} {coin : Bool} (hOK : en.OK)
    (h : en.call (.measureInplace j coin) [] = some en') :
    en'.OK ∧ en'.lab.slots = en.lab.slots ∧
      ∃ o, Stab.measure en.eng.st j true coin = some (o, en'.eng.st) ∧
        (en.eng.measureQubitInplace j coin).1 = .ok o := by
  obtain ⟨⟨o, ho⟩, he, hl⟩ := call_some h
  refine ⟨(call_ok (c := .measureInplace j coin) (ls := []) hOK trivial trivial h).1, ?_, ?_⟩
  · rw [hl]; simp only [Call.toSpec, Reg.step]; split <;> rfl
  · rw [he]
    simp only [StabEngine.step, liftRes, StabEngine.measureQubitInplace] at ho ⊢
    by_cases hlt : j + 1 > en.eng.active
    · simp [hlt] at ho
    · simp only [hlt, if_false] at ho ⊢
      cases hm : Stab.measure en.eng.st j true coin with
      | none => simp [hm] at ho
      | some r => exact ⟨r.1, rfl, rfl⟩

theorem call_remove {en en' : LEng} {j : Nat} {coin : Bool} (hOK : en.OK)
    (h : en.call (.remove j coin) [] = some en') :
    en'.OK ∧ en'.lab.slots = en.lab.slots.eraseIdx j ∧
      ∃ o, Stab.measure en.eng.st j false coin = some (o, en'.eng.st) := by
  obtain ⟨⟨o, ho⟩, he, hl⟩ := call_some h
  obtain ⟨ok', o', hlo⟩ := call_ok (c := .remove j coin) (ls := []) hOK trivial trivial h
  refine ⟨ok', ?_, ?_⟩
  · rw [hl]
    simp only [Call.toSpec, Reg.step] at hlo ⊢
    split at hlo
    · cases hlo
    · next hlt => simp only [hlt, if_false]
  · rw [he]
    simp only [StabEngine.step, liftRes, StabEngine.removeQubit, StabEngine.measureQubit] at ho ⊢
    by_cases hlt : j + 1 > en.eng.active
    · simp [hlt] at ho
    · simp only [hlt, if_false] at ho ⊢
      cases hm : Stab.measure en.eng.st j false coin with
      | none => simp [hm] at ho
      | some r => exact ⟨r.1, rfl⟩

theorem call_addFresh {en en' : LEng} {x : Nat} (hOK : en.OK) (h : en.call .addFresh [x] = some en') :
    en'.OK ∧ en'.lab.slots = en.lab.slots ++ [x] ∧ en'.eng.st = Stab.addQubit en.eng.st := by
  obtain ⟨⟨o, ho⟩, he, hl⟩ := call_some h
  obtain ⟨ok', o', hlo⟩ := call_ok (c := .addFresh) (ls := [x]) hOK rfl trivial h
  refine ⟨ok', ?_, ?_⟩
  · rw [hl]
    simp only [Call.toSpec, Reg.step] at hlo ⊢
    split at hlo
    · cases hlo
    · next hlt => simp only [hlt, if_false]
  · rw [he]
    simp only [StabEngine.step, liftRes, StabEngine.addFreshQubit] at ho ⊢
    by_cases hlt : en.eng.active ≥ en.eng.max
    · simp [hlt] at ho
    · simp only [hlt, if_false]

theorem call_setMax {en en' : LEng} {m : Nat} (hOK : en.OK) (h : en.call (.setMax m) [] = some en') :
    en'.OK ∧ en'.lab.slots = en.lab.slots ∧ en'.eng.st = en.eng.st := by
  obtain ⟨_, he, hl⟩ := call_some h
  refine ⟨(call_ok (c := .setMax m) (ls := []) hOK trivial trivial h).1, ?_, ?_⟩
  · rw [hl]; rfl
  · rw [he]; rfl

theorem call_absorb {en en' : LEng} {other : StabEngine} {ls : List Nat} (hOK : en.OK)
    (hl : other.st.n = ls.length) (hr : Reachable other.st) (h : en.call (.absorb other) ls = some en') :
    en'.OK ∧ en'.lab.slots = en.lab.slots ++ ls ∧ en'.eng.st = tensor en.eng.st other.st := by
  obtain ⟨⟨o, ho⟩, he, hlab⟩ := call_some h
  obtain ⟨ok', o', hlo⟩ := call_ok (c := .absorb other) (ls := ls) hOK hl hr h
  refine ⟨ok', ?_, ?_⟩
  · rw [hlab]
    simp only [Call.toSpec, Reg.step] at hlo ⊢
    split at hlo
    · cases hlo
    · next hlt => simp only [hlt, if_false]
  · rw [he]
    simp only [StabEngine.step, liftRes, StabEngine.absorb] at ho ⊢
    by_cases hlt : en.eng.active + other.active > en.eng.max
    · simp [hlt] at ho
    · simp only [hlt, if_false]

theorem call_absorbParts {en en' : LEng} {R : List (List Bool)} {a : Nat} {ls : List Nat} {q : St} (hOK : en.OK)
    (ha : a = ls.length) (hq : ofArray R = some q) (hqn : q.n = ls.length) (hr : Reachable q)
    (h : en.call (.absorbParts R a) ls = some en') :
    en'.OK ∧ en'.lab.slots = en.lab.slots ++ ls ∧ en'.eng.st = tensor en.eng.st q := by
  obtain ⟨⟨o, ho⟩, he, hlab⟩ := call_some h
  obtain ⟨ok', o', hlo⟩ := call_ok (c := .absorbParts R a) (ls := ls) hOK ⟨ha, q, hq, hqn⟩
    (fun q' hq' => by rw [hq] at hq'; cases hq'; exact hr) h
  refine ⟨ok', ?_, ?_⟩
  · rw [hlab]
    simp only [Call.toSpec, Reg.step] at hlo ⊢
    split at hlo
    · cases hlo
    · next hlt => simp only [hlt, if_false]
  · rw [he]
    simp only [StabEngine.step, liftRes, StabEngine.absorbParts, hq] at ho ⊢
    by_cases hlt : en.eng.active + a > en.eng.max
    · simp [hlt] at ho
    · simp only [hlt, if_false]

theorem raiseThen_some {en en' : LEng} {a : Nat} {c : Call} {ls : List Nat} (hOK : en.OK)
    (h : en.raiseThen a c ls = some en') :
    ∃ en1 : LEng, en1.OK ∧ en1.lab.slots = en.lab.slots ∧ en1.eng.st = en.eng.st ∧ en1.call c ls = some en' := by
  unfold LEng.raiseThen at h
  cases h1 : en.call (.setMax (en.eng.max + a)) [] with
  | none => rw [h1] at h; cases h
  | some en1 =>
    rw [h1] at h
    obtain ⟨ok1, s1, t1⟩ := call_setMax hOK h1
    exact ⟨en1, ok1, s1, t1, h⟩

/-! ### the engine-level invariant -/

structure JInv (e : EngSt) : Prop where
  keys : (e.regs.map (·.1)).Nodup
  ok : ∀ p, p ∈ e.regs → p.2.OK
  slots : (allSlots e.regs).Nodup
  fresh : ∀ x, x ∈ allSlots e.regs → x < e.next
  flight : e.flight = []

theorem jinv_empty : JInv EngSt.empty :=
  ⟨List.nodup_nil, fun p h => (by cases h), List.nodup_nil, fun x h => (by cases h), rfl⟩

theorem facs_flatMap (l : List (Key × LEng)) : (facs l).flatMap (·.1) = allSlots l := by
  unfold facs allSlots
  rw [List.flatMap_map]; rfl

theorem nodup_of_flatMap {α β : Type} (f : α → List β) : ∀ (l : List α), (l.flatMap f).Nodup → ∀ a, a ∈ l → (f a).Nodup
  | [], _, a, h => by cases h
  | b :: l, hn, a, h => by
    rw [List.flatMap_cons, List.nodup_append] at hn
    rcases List.mem_cons.1 h with rfl | h'
    · exact hn.1
    · exact nodup_of_flatMap f l hn.2.1 a h'

theorem leng_valid {en : LEng} (h : en.OK) : ValidMax en.eng.st.n en.eng.st.rows := C14.reachable_validMax _ h.reach

theorem facOK_of_leng {en : LEng} (h : en.OK) (hn : en.lab.slots.Nodup) : FacOK (facOf en) :=
  facOK_of_valid hn h.size.symm (leng_valid h).toValid

/-- a list of engines in step with their labels, all labels distinct, is a well-formed factor list -/
theorem facsOK_of {l : List (Key × LEng)} (hok : ∀ p, p ∈ l → p.2.OK) (hn : (allSlots l).Nodup) : FacsOK (facs l) := by
  refine ⟨?_, by rw [facs_flatMap]; exact hn⟩
  intro F hF
  obtain ⟨p, hp, rfl⟩ := List.mem_map.1 hF
  exact facOK_of_leng (hok p hp) (nodup_of_flatMap _ l hn p hp)

theorem JInv.facsOK {e : EngSt} (h : JInv e) : FacsOK (facs e.regs) := facsOK_of h.ok h.slots

theorem facs_perm {l l' : List (Key × LEng)} (h : l.Perm l') : (facs l).Perm (facs l') := h.map _

theorem allSlots_perm {l l' : List (Key × LEng)} (h : l.Perm l') : (allSlots l).Perm (allSlots l') :=
  h.flatMap_right _

theorem mem_allSlots {l : List (Key × LEng)} {x : Nat} : x ∈ allSlots l ↔ ∃ p, p ∈ l ∧ x ∈ p.2.lab.slots :=
  List.mem_flatMap

theorem allSlots_cons (p : Key × LEng) (l : List (Key × LEng)) : allSlots (p :: l) = p.2.lab.slots ++ allSlots l := rfl

theorem facs_cons (p : Key × LEng) (l : List (Key × LEng)) : facs (p :: l) = facOf p.2 :: facs l := rfl

/-- the view of an engine state with the register `k` in front -/
theorem JInv.view {e : EngSt} (h : JInv e) {k : Key} {en : LEng} (hk : aget e.regs k = some en) :
    e.regs.Perm ((k, en) :: adel e.regs k) ∧ en.OK ∧ FacsOK (facOf en :: facs (adel e.regs k)) ∧
      (∀ t, JointGroup e t ↔ ProdG (facOf en :: facs (adel e.regs k)) t) := by
  have hp := perm_of_aget h.keys hk
  refine ⟨hp, h.ok _ (mem_of_aget _ _ _ hk), ?_, ?_⟩
  · exact (h.facsOK).perm (facs_perm hp)
  · intro t; exact prodG_perm (facs_perm hp) t

/-- a list with the register `k` replaced (and moved to the front, as `aset` does) -/
theorem jointGroup_aset (e : EngSt) (k : Key) (en' : LEng) (t : TOp) :
    ProdG (facs (aset e.regs k en')) t ↔ ProdG (facOf en' :: facs (adel e.regs k)) t := Iff.rfl

end SqVerif.Joint

import SqVerif.VNetRefineStep
import SqVerif.VNetRefineCheck
/-
C06 — Stale handles are inert.

A handle is *stale* when its `active` flag is cleared; by `WF.staleInactive` (C02) every
handle that is not in its node's list of held qubits is stale (`stale_of_not_held`).

* `stale_inert`: EVERY operation that goes through a stale handle (single-qubit gate,
  either argument of a two-qubit gate with an arbitrary other handle, send, in-place or
  destructive measurement) leaves the state identical, calls no engine, and returns
  `none` (or `badCall` when the other handle of a two-qubit gate is unknown or belongs to
  another node).  No hypothesis on the state.
* `active_false_forever`: no operation ever sets `active` back; hence `stale_inert_forever`.
* `left_handles_are_stale`: a successful `send h b` / destructive `measure h` leaves `h`
  stale and not held.
-/
namespace SqVerif.C06
open SqVerif.VNet

/-- the operation goes through handle `h` -/
def through (h : Nat) : Op → Bool
  | .new _ => false
  | .gate1 h' _ => h' == h
  | .gate2 hc ht _ => hc == h || ht == h
  | .send h' _ => h' == h
  | .measure h' _ _ => h' == h

/-- T06.1 every operation kind through a stale handle is inert -/
theorem stale_inert {s : Net} {h : Nat} {vq : VQ} (hv : s.vqs[h]? = some vq) (ha : vq.active = false)
    (op : Op) (hop : through h op = true) :
    Inert s op ∧ ((step s op).2.1 = .none ∨ (step s op).2.1 = .badCall) := by
  unfold Inert
  cases op with
  | new a => cases hop
  | gate1 h' g =>
    have e : h' = h := by simpa [through] using hop
    subst e
    simp [step, stepGate1, hv, ha]
  | send h' b =>
    have e : h' = h := by simpa [through] using hop
    subst e
    simp [step, stepSend, hv, ha]
  | measure h' ip oc =>
    have e : h' = h := by simpa [through] using hop
    subst e
    simp [step, stepMeasure, hv, ha]
  | gate2 hc ht g =>
    simp only [through, Bool.or_eq_true, beq_iff_eq] at hop
    simp only [step]
    unfold stepGate2
    split
    · rename_i vc vt hvc hvt
      split
      · exact ⟨⟨rfl, rfl⟩, .inr rfl⟩
      · have : (!vc.active || !vt.active) = true := by
          rcases hop with e | e
          · subst e; rw [hv] at hvc; cases hvc; simp [ha]
          · subst e; rw [hv] at hvt; cases hvt; simp [ha]
        rw [if_pos this]
        exact ⟨⟨rfl, rfl⟩, .inl rfl⟩
    · exact ⟨⟨rfl, rfl⟩, .inr rfl⟩

/-- … and the result is exactly `none` except for a two-qubit gate whose other handle is
unknown or belongs to another node (`badCall`, the call is not expressible through the API) -/
theorem stale_result {s : Net} {h : Nat} {vq : VQ} (hv : s.vqs[h]? = some vq) (ha : vq.active = false) :
    (∀ g, step s (.gate1 h g) = (s, .none, [])) ∧
    (∀ b, step s (.send h b) = (s, .none, [])) ∧
    (∀ ip oc, step s (.measure h ip oc) = (s, .none, [])) ∧
    (∀ h' g v', s.vqs[h']? = some v' → v'.virtNode = vq.virtNode →
        step s (.gate2 h h' g) = (s, .none, []) ∧ step s (.gate2 h' h g) = (s, .none, [])) := by
  refine ⟨fun g => by simp [step, stepGate1, hv, ha], fun b => by simp [step, stepSend, hv, ha],
    fun ip oc => by simp [step, stepMeasure, hv, ha], ?_⟩
  intro h' g v' hv' hsame
  constructor
  · have h1 : (vq.virtNode != v'.virtNode) = false := by simp [hsame]
    simp [step, stepGate2, hv, hv', h1, ha]
  · have h1 : (v'.virtNode != vq.virtNode) = false := by simp [hsame]
    simp [step, stepGate2, hv, hv', h1, ha]

/-- the premise of `stale_inert` from the C02 invariant: a handle that is not held is stale -/
theorem stale_of_not_held {s : Net} (hwf : WF s) {h : Nat} {vq : VQ} (hv : s.vqs[h]? = some vq)
    (hnh : h ∉ allHeld s) : vq.active = false :=
  hwf.staleInactive h vq hv hnh

/-- a handle that is not held is inert for every operation through it -/
theorem not_held_inert {s : Net} (hwf : WF s) {h : Nat} {vq : VQ} (hv : s.vqs[h]? = some vq)
    (hnh : h ∉ allHeld s) (op : Op) (hop : through h op = true) : Inert s op :=
  (stale_inert hv (stale_of_not_held hwf hv hnh) op hop).1

/-- a handle that does not exist at all is inert too -/
theorem unknown_inert {s : Net} {h : Nat} (hv : s.vqs[h]? = none) (op : Op) (hop : through h op = true) :
    Inert s op ∧ (step s op).2.1 = .badCall := by
  unfold Inert
  cases op with
  | new a => cases hop
  | gate1 h' g =>
    have e : h' = h := by simpa [through] using hop
    subst e; simp [step, stepGate1, hv]
  | send h' b =>
    have e : h' = h := by simpa [through] using hop
    subst e; simp [step, stepSend, hv]
  | measure h' ip oc =>
    have e : h' = h := by simpa [through] using hop
    subst e; simp [step, stepMeasure, hv]
  | gate2 hc ht g =>
    simp only [through, Bool.or_eq_true, beq_iff_eq] at hop
    simp only [step]
    unfold stepGate2
    split
    · rename_i vc vt hvc hvt
      rcases hop with e | e
      · subst e; rw [hv] at hvc; cases hvc
      · subst e; rw [hv] at hvt; cases hvt
    · exact ⟨⟨rfl, rfl⟩, rfl⟩

/-- no operation ever re-activates a handle -/
theorem active_false_forever {s : Net} {h : Nat} {vq : VQ} (hv : s.vqs[h]? = some vq)
    (ha : vq.active = false) (op : Op) : ((step s op).1.vqs[h]?).map (·.active) = some false := by
  obtain ⟨vq', hv', _, ha'⟩ := step_VqMono s op h vq hv
  rw [hv']; simp [ha' ha]

/-- … nor changes the node it belongs to, nor destroys it -/
theorem handle_persists {s : Net} {h : Nat} {vq : VQ} (hv : s.vqs[h]? = some vq) (ops : List Op) :
    ∃ vq', (run s ops).1.vqs[h]? = some vq' ∧ vq'.virtNode = vq.virtNode ∧
      (vq.active = false → vq'.active = false) := by
  induction ops generalizing s vq with
  | nil => exact ⟨vq, hv, rfl, id⟩
  | cons op ops ih =>
    obtain ⟨vq1, hv1, e1, a1⟩ := step_VqMono s op h vq hv
    obtain ⟨vq2, hv2, e2, a2⟩ := ih hv1
    exact ⟨vq2, by simpa [run] using hv2, e2.trans e1, fun ha => a2 (a1 ha)⟩

/-- T06.1, temporal form: once stale, a handle is inert in every later state, whatever
happened in between (no `WF` needed) -/
theorem stale_inert_forever {s : Net} {h : Nat} {vq : VQ} (hv : s.vqs[h]? = some vq)
    (ha : vq.active = false) (ops : List Op) (op : Op) (hop : through h op = true) :
    Inert (run s ops).1 op := by
  obtain ⟨vq', hv', _, ha'⟩ := handle_persists hv ops
  exact (stale_inert hv' (ha' ha) op hop).1

/-- after a successful `send h b` the handle `h` is stale and no longer held -/
theorem sent_handle_is_stale {s : Net} (hwf : WF s) {h b k : Nat}
    (hr : (step s (.send h b)).2.1 = .num k) :
    ((step s (.send h b)).1.vqs[h]?).map (·.active) = some false ∧ h ∉ allHeld (step s (.send h b)).1 := by
  simp only [step] at hr ⊢
  -- recover the success conditions
  unfold stepSend at hr
  split at hr
  · cases hr
  · rename_i vq hv
    split at hr
    · cases hr
    · rename_i hact
      have ha : vq.active = true := by simpa using hact
      split at hr
      · cases hr
      · rename_i hlt
        split at hr
        · cases hr
        · rename_i hne
          have hne' : b ≠ vq.virtNode := by simpa using hne
          split at hr
          · cases hr
          · rename_i s1 newNum hadd
            have hlt' : b < s.nodes.length := by omega
            have hcap : s.nodes[b].virt.length < s.nodes[b].maxQubits := by
              unfold addQubitAt at hadd
              rw [List.getElem?_eq_getElem hlt'] at hadd
              simp only at hadd
              split at hadd
              · cases hadd
              · omega
            rw [stepSend_ok hv ha (List.getElem?_eq_getElem hlt') hne' hcap]
            have hlen : h < s.vqs.length := (List.getElem?_eq_some_iff.1 hv).1
            refine ⟨?_, ?_⟩
            · simp only [sendNet, getElem?_modify', if_true]
              rw [List.getElem?_append_left hlen, hv]; rfl
            · intro hmem
              obtain ⟨j, n, hn, hm⟩ := mem_allHeld.1 hmem
              have hvirt := send_virt_get (s := s) (h := h) (b := b) (vq := vq) (nb := s.nodes[b]) hne' j
              rw [hn] at hvirt
              simp only [Option.map_some] at hvirt
              have hh := hwf.held_of_active hv ha
              obtain ⟨j0, n0, hn0, hm0⟩ := mem_allHeld.1 hh
              have hj0 := hwf.held_home hn0 hm0 hv
              by_cases e1 : j = vq.virtNode
              · rw [if_pos e1] at hvirt
                subst e1
                rw [← hj0] at hn0
                rw [hn0] at hvirt
                simp only [Option.map_some, Option.some.injEq] at hvirt
                rw [hvirt] at hm
                exact ((hwf.nodes _ _ hn0).virtNodup.mem_erase_iff.1 hm).1 rfl
              · rw [if_neg e1] at hvirt
                by_cases e2 : j = b
                · rw [if_pos e2] at hvirt
                  cases hnb : s.nodes[j]? with
                  | none => rw [hnb] at hvirt; cases hvirt
                  | some nb =>
                    rw [hnb] at hvirt
                    simp only [Option.map_some, Option.some.injEq] at hvirt
                    rw [hvirt] at hm
                    rcases List.mem_append.1 hm with hm | hm
                    · exact e1 ((hwf.held_home hnb hm hv).symm)
                    · simp at hm; omega
                · rw [if_neg e2] at hvirt
                  cases hnb : s.nodes[j]? with
                  | none => rw [hnb] at hvirt; cases hvirt
                  | some nb =>
                    rw [hnb] at hvirt
                    simp only [Option.map_some, Option.some.injEq] at hvirt
                    rw [hvirt] at hm
                    exact e1 ((hwf.held_home hnb hm hv).symm)

/-- after a successful destructive `measure h` the handle `h` is stale and no longer held -/
theorem measured_handle_is_stale {s : Net} (hwf : WF s) {h : Nat} {oc x : Bool}
    (hr : (step s (.measure h false oc)).2.1 = .outcome x) :
    ((step s (.measure h false oc)).1.vqs[h]?).map (·.active) = some false ∧
      h ∉ allHeld (step s (.measure h false oc)).1 := by
  simp only [step] at hr ⊢
  have hact : ∃ vq, s.vqs[h]? = some vq ∧ vq.active = true := by
    unfold stepMeasure at hr
    split at hr
    · cases hr
    · rename_i vq hv
      split at hr
      · cases hr
      · rename_i hact; exact ⟨vq, hv, by simpa using hact⟩
  obtain ⟨vq, hv, ha⟩ := hact
  have hh := hwf.held_of_active hv ha
  obtain ⟨vq', sq, nd, rg, i⟩ := hwf.info_of_held hh
  have e := i.hv; rw [hv] at e; cases e
  rw [stepMeasure_destr i]
  refine ⟨?_, ?_⟩
  · simp only [measNet, getElem?_modify', if_true, hv]; rfl
  · intro hmem
    obtain ⟨j, n, hn, hm⟩ := mem_allHeld.1 hmem
    have hvirt := meas_virt_get (s := s) (h := h) (vq := vq) (sq := sq) (nd := nd) (rg := rg) j
    rw [hn] at hvirt
    simp only [Option.map_some] at hvirt
    obtain ⟨n0, hn0, hm0⟩ := i.home
    by_cases e1 : j = vq.virtNode
    · rw [if_pos e1] at hvirt
      subst e1
      rw [hn0] at hvirt
      simp only [Option.map_some, Option.some.injEq] at hvirt
      rw [hvirt] at hm
      exact ((hwf.nodes _ _ hn0).virtNodup.mem_erase_iff.1 hm).1 rfl
    · rw [if_neg e1] at hvirt
      cases hnb : s.nodes[j]? with
      | none => rw [hnb] at hvirt; cases hvirt
      | some nb =>
        rw [hnb] at hvirt
        simp only [Option.map_some, Option.some.injEq] at hvirt
        rw [hvirt] at hm
        exact e1 ((hwf.held_home hnb hm hv).symm)

/-- T06 `left_handles_are_stale`: once a qubit has left a node (sent away or measured
destructively) the old handle is stale and not held — so by `stale_inert_forever` every
later operation through it is inert, forever -/
theorem left_handles_are_stale {s : Net} (hwf : WF s) {h : Nat} (op : Op)
    (hop : (∃ b k, op = .send h b ∧ (step s op).2.1 = .num k) ∨
           (∃ oc x, op = .measure h false oc ∧ (step s op).2.1 = .outcome x)) :
    ((step s op).1.vqs[h]?).map (·.active) = some false ∧ h ∉ allHeld (step s op).1 ∧
    ∀ ops op', through h op' = true → Inert (run (step s op).1 ops).1 op' := by
  have key : ((step s op).1.vqs[h]?).map (·.active) = some false ∧ h ∉ allHeld (step s op).1 := by
    rcases hop with ⟨b, k, rfl, hr⟩ | ⟨oc, x, rfl, hr⟩
    · exact sent_handle_is_stale hwf hr
    · exact measured_handle_is_stale hwf hr
  refine ⟨key.1, key.2, ?_⟩
  intro ops op' hthrough
  cases hv : (step s op).1.vqs[h]? with
  | none => rw [hv] at key; cases key.1
  | some vq' =>
    have ha : vq'.active = false := by
      have := key.1; rw [hv] at this; simpa using this
    exact stale_inert_forever hv ha ops op' hthrough

/-! ### non-vacuity: the F3 witness `[new,new,new,cnot,cnot,measure q1, X via q1]` -/

def demo : Net :=
  (run (init [(5, 5)]) [.new 0, .new 0, .new 0, .gate2 0 1 .CNOT, .gate2 1 2 .CNOT, .measure 1 false true]).1

example : WF demo := wfB_sound (by decide)

/-- the state before the measurement is well-formed and the measurement succeeds: the
hypotheses of `left_handles_are_stale` hold -/
example :
    let s0 := (run (init [(5, 5)]) [.new 0, .new 0, .new 0, .gate2 0 1 .CNOT, .gate2 1 2 .CNOT]).1
    WF s0 ∧ (step s0 (.measure 1 false true)).2.1 = .outcome true :=
  ⟨wfB_sound (by decide), by decide⟩

/-- handle 1 is stale after the destructive measurement, its old register still holds two
other qubits, and an `X` through it does nothing -/
example : (demo.vqs[1]?).map (·.active) = some false ∧ 1 ∉ allHeld demo ∧
    step demo (.gate1 1 .X) = (demo, .none, []) ∧ step demo (.gate2 0 1 .CNOT) = (demo, .none, []) ∧
    step demo (.measure 1 false false) = (demo, .none, []) ∧ step demo (.send 1 0) = (demo, .none, []) ∧
    allToks demo = [0, 2] := by decide

end SqVerif.C06

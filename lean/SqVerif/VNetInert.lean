import SqVerif.VNetSpec
/-
L2 — lemmas behind C05 / C06 (and the basic frame lemmas reused by the C01
refinement in `VNetRefine*.lean`).  Core Lean only.

Contents
* list helpers (`modify`, `find?`, counting through `flatMap`);
* frame lemmas for `modNode`, `setVQ`, `Node.modReg`, `Node.delReg`, `mkSims`, `repoint`;
* `VqMono`: no step ever re-activates a handle or changes the node it belongs to;
* what WF gives for an active handle (`ActiveInfo`).
-/
namespace SqVerif.VNet

/-! ### list helpers -/

theorem getElem?_modify' {α} (l : List α) (i j : Nat) (f : α → α) :
    (l.modify i f)[j]? = if i = j then (l[j]?).map f else l[j]? := by
  rw [List.getElem?_modify]; split <;> cases l[j]? <;> simp [*]

theorem modify_modify' {α} (l : List α) (i : Nat) (f g : α → α) :
    (l.modify i f).modify i g = l.modify i (g ∘ f) := by
  apply List.ext_getElem?; intro j
  simp only [getElem?_modify']; split <;> cases l[j]? <;> simp

theorem modify_congr' {α} (l : List α) (i : Nat) (f g : α → α) (x : α) (hx : l[i]? = some x)
    (h : f x = g x) : l.modify i f = l.modify i g := by
  apply List.ext_getElem?; intro j
  simp only [getElem?_modify']
  by_cases e : i = j
  · subst e; simp [hx, h]
  · simp [e]

theorem modify_eq_self' {α} (l : List α) (i : Nat) (f : α → α) (h : ∀ x, l[i]? = some x → f x = x) :
    l.modify i f = l := by
  apply List.ext_getElem?; intro j
  simp only [getElem?_modify']
  by_cases e : i = j
  · subst e; simp only [if_true]
    cases hx : l[i]? with
    | none => rfl
    | some x => simp [h x hx]
  · simp [e]

theorem map_modify_of_eq {α β} (l : List α) (i : Nat) (f : α → α) (g : α → β) (h : ∀ x, g (f x) = g x) :
    (l.modify i f).map g = l.map g := by
  apply List.ext_getElem?; intro j
  simp only [List.getElem?_map, getElem?_modify']; split <;> cases l[j]? <;> simp [h]

/-- counting through one modified element of a `flatMap` -/
theorem count_flatMap_modify {α} (g : α → List Nat) (f : α → α) (t : Nat) :
    ∀ (l : List α) (i : Nat) (x : α), l[i]? = some x →
      ((l.modify i f).flatMap g).count t + (g x).count t = (l.flatMap g).count t + (g (f x)).count t
  | [], i, x, h => by simp at h
  | a :: l, 0, x, h => by
    simp at h; subst h; simp [List.count_append]; omega
  | a :: l, i + 1, x, h => by
    simp at h
    have := count_flatMap_modify g f t l i x h
    simp [List.count_append]; omega

/-! ### field access through the small helpers -/

@[simp] theorem modNode_sqs (s : Net) (i f) : (modNode s i f).sqs = s.sqs := rfl
@[simp] theorem modNode_vqs (s : Net) (i f) : (modNode s i f).vqs = s.vqs := rfl
@[simp] theorem modNode_nextTok (s : Net) (i f) : (modNode s i f).nextTok = s.nextTok := rfl
@[simp] theorem modNode_nodes (s : Net) (i f) : (modNode s i f).nodes = s.nodes.modify i f := rfl
@[simp] theorem setVQ_sqs (s : Net) (h f) : (setVQ s h f).sqs = s.sqs := rfl
@[simp] theorem setVQ_nodes (s : Net) (h f) : (setVQ s h f).nodes = s.nodes := rfl
@[simp] theorem setVQ_nextTok (s : Net) (h f) : (setVQ s h f).nextTok = s.nextTok := rfl
@[simp] theorem setVQ_vqs (s : Net) (h f) : (setVQ s h f).vqs = s.vqs.modify h f := rfl
@[simp] theorem repoint_sqs (s : Net) (a b c d) : (repoint s a b c d).sqs = s.sqs := rfl
@[simp] theorem repoint_nodes (s : Net) (a b c d) : (repoint s a b c d).nodes = s.nodes := rfl
@[simp] theorem repoint_nextTok (s : Net) (a b c d) : (repoint s a b c d).nextTok = s.nextTok := rfl

theorem modNode_get (s : Net) (i j f) :
    (modNode s i f).nodes[j]? = if i = j then (s.nodes[j]?).map f else s.nodes[j]? :=
  getElem?_modify' _ _ _ _

theorem setVQ_self (s : Net) (h : Nat) (f : VQ → VQ) (hf : ∀ v, s.vqs[h]? = some v → f v = v) :
    setVQ s h f = s := by
  unfold setVQ; rw [modify_eq_self' _ _ _ hf]

/-! ### registers of a node -/

theorem reg?_num {n : Node} {r : Nat} {rg : Reg} (h : n.reg? r = some rg) : rg.num = r := by
  have := List.find?_some h; simpa using this

theorem reg?_mem {n : Node} {r : Nat} {rg : Reg} (h : n.reg? r = some rg) : rg ∈ n.regs :=
  List.mem_of_find?_eq_some h

theorem reg?_modReg (n : Node) (r r' : Nat) (f : Reg → Reg) (hf : ∀ x, (f x).num = x.num) :
    (n.modReg r f).reg? r' = if r' = r then (n.reg? r').map f else n.reg? r' := by
  unfold Node.reg? Node.modReg
  simp only [List.find?_map]
  have : ((fun x : Reg => x.num == r') ∘ fun x : Reg => if (x.num == r) = true then f x else x)
      = fun x : Reg => x.num == r' := by
    funext x; simp only [Function.comp]; split <;> simp [hf]
  rw [this]
  cases hfd : n.regs.find? (fun x => x.num == r') with
  | none => simp
  | some rg =>
    have hn : rg.num = r' := by simpa using List.find?_some hfd
    by_cases hr : r' = r <;> simp [hr, hn] <;> (intro h; exact absurd (hn ▸ h) hr)

theorem reg?_delReg (n : Node) (r r' : Nat) :
    (n.delReg r).reg? r' = if r' = r then none else n.reg? r' := by
  unfold Node.reg? Node.delReg
  simp only [List.find?_filter]
  by_cases hr : r' = r
  · subst hr; simp [List.find?_eq_none]
  · simp only [hr, if_false]
    congr 1; funext x
    by_cases hx : x.num = r' <;> simp [hx, hr]

/-- tokens of a node, register by register -/
def nodeToks (n : Node) : List Nat := n.regs.flatMap (·.toks)

theorem allToks_eq (s : Net) : allToks s = s.nodes.flatMap nodeToks := rfl

theorem count_allToks_modNode (s : Net) (i : Nat) (f : Node → Node) (n : Node) (t : Nat)
    (h : s.nodes[i]? = some n) :
    (allToks (modNode s i f)).count t + (nodeToks n).count t
      = (allToks s).count t + (nodeToks (f n)).count t := by
  simpa [allToks_eq] using count_flatMap_modify nodeToks f t s.nodes i n h

theorem count_regs_modReg (f : Reg → Reg) (r : Nat) (t : Nat) :
    ∀ (regs : List Reg) (rg : Reg), (regs.map (·.num)).Nodup → regs.find? (fun x => x.num == r) = some rg →
      ((regs.map fun x => if x.num == r then f x else x).flatMap (·.toks)).count t + rg.toks.count t
        = (regs.flatMap (·.toks)).count t + (f rg).toks.count t
  | [], rg, _, h => by simp at h
  | a :: l, rg, hnd, h => by
    simp only [List.map_cons, List.nodup_cons] at hnd
    by_cases ha : a.num = r
    · have : rg = a := by simpa [List.find?_cons, ha] using h.symm
      subst this
      have hl : (l.map fun x => if x.num == r then f x else x) = l := by
        conv => rhs; rw [← List.map_id l]
        apply List.map_congr_left; intro x hx
        have : x.num ≠ r := by
          intro hxr; apply hnd.1; rw [ha, ← hxr]; exact List.mem_map_of_mem hx
        simp [this]
      simp only [beq_iff_eq] at hl
      simp [ha, hl, List.count_append]; omega
    · have h' : l.find? (fun x => x.num == r) = some rg := by simpa [List.find?_cons, ha] using h
      have := count_regs_modReg f r t l rg hnd.2 h'
      simp [ha, List.count_append] at this ⊢; omega

theorem count_nodeToks_modReg (n : Node) (r : Nat) (f : Reg → Reg) (rg : Reg) (t : Nat)
    (hnd : (n.regs.map (·.num)).Nodup) (h : n.reg? r = some rg) :
    (nodeToks (n.modReg r f)).count t + rg.toks.count t = (nodeToks n).count t + (f rg).toks.count t :=
  count_regs_modReg f r t n.regs rg hnd h

theorem count_regs_delReg (r : Nat) (t : Nat) :
    ∀ (regs : List Reg) (rg : Reg), (regs.map (·.num)).Nodup → regs.find? (fun x => x.num == r) = some rg →
      ((regs.filter fun x => x.num != r).flatMap (·.toks)).count t + rg.toks.count t
        = (regs.flatMap (·.toks)).count t
  | [], rg, _, h => by simp at h
  | a :: l, rg, hnd, h => by
    simp only [List.map_cons, List.nodup_cons] at hnd
    by_cases ha : a.num = r
    · have : rg = a := by simpa [List.find?_cons, ha] using h.symm
      subst this
      have hl : (l.filter fun x => x.num != r) = l := by
        apply List.filter_eq_self.2; intro x hx
        have : x.num ≠ r := by
          intro hxr; apply hnd.1; rw [ha, ← hxr]; exact List.mem_map_of_mem hx
        simp [this]
      simp [ha, hl, List.count_append]; omega
    · have h' : l.find? (fun x => x.num == r) = some rg := by simpa [List.find?_cons, ha] using h
      have := count_regs_delReg r t l rg hnd.2 h'
      simp [ha, List.count_append] at this ⊢; omega

theorem count_nodeToks_delReg (n : Node) (r : Nat) (rg : Reg) (t : Nat)
    (hnd : (n.regs.map (·.num)).Nodup) (h : n.reg? r = some rg) :
    (nodeToks (n.delReg r)).count t + rg.toks.count t = (nodeToks n).count t :=
  count_regs_delReg r t n.regs rg hnd h

theorem modReg_nums (n : Node) (r : Nat) (f : Reg → Reg) (hf : ∀ x, (f x).num = x.num) :
    (n.modReg r f).regs.map (·.num) = n.regs.map (·.num) := by
  unfold Node.modReg; simp only [List.map_map]
  apply List.map_congr_left; intro x _; simp only [Function.comp]; split <;> simp [hf]

theorem delReg_nums_sublist (n : Node) (r : Nat) :
    ((n.delReg r).regs.map (·.num)).Sublist (n.regs.map (·.num)) := by
  unfold Node.delReg; exact (List.filter_sublist).map _

/-! ### held handles -/

theorem allHeld_eq_of_virt (s s' : Net) (h : s'.nodes.map (·.virt) = s.nodes.map (·.virt)) :
    allHeld s' = allHeld s := by
  unfold allHeld; rw [List.flatMap_def, List.flatMap_def, h]

theorem allHeld_modNode (s : Net) (i f) (hf : ∀ n : Node, (f n).virt = n.virt) :
    allHeld (modNode s i f) = allHeld s :=
  allHeld_eq_of_virt _ _ (map_modify_of_eq _ _ _ _ hf)

theorem mem_allHeld {s : Net} {h : Nat} : h ∈ allHeld s ↔ ∃ i : Nat, ∃ n : Node, s.nodes[i]? = some n ∧ h ∈ n.virt := by
  unfold allHeld; simp only [List.mem_flatMap]
  constructor
  · rintro ⟨n, hn, hh⟩
    obtain ⟨i, hi⟩ := List.mem_iff_getElem?.1 hn
    exact ⟨i, n, hi, hh⟩
  · rintro ⟨i, n, hi, hh⟩
    exact ⟨n, List.mem_iff_getElem?.2 ⟨i, hi⟩, hh⟩

/-! ### `mkSims` -/

theorem mkSims_spec (dst regNum offset : Nat) : ∀ (k i : Nat) (s : Net) (nd : Node), s.nodes[dst]? = some nd →
    (mkSims s dst regNum offset k i).2 = List.range' s.sqs.length k ∧
    (mkSims s dst regNum offset k i).1.vqs = s.vqs ∧
    (mkSims s dst regNum offset k i).1.nextTok = s.nextTok ∧
    (∃ news : List SQ, (mkSims s dst regNum offset k i).1.sqs = s.sqs ++ news ∧ news.length = k ∧
        ∀ j, j < k → ∃ x, news[j]? = some ⟨dst, x, regNum, offset + (i + j), true⟩) ∧
    (mkSims s dst regNum offset k i).1.nodes
      = s.nodes.modify dst (fun nd => { nd with sim := nd.sim ++ List.range' s.sqs.length k })
  | 0, i, s, nd, h => by
    refine ⟨rfl, rfl, rfl, ⟨[], by simp [mkSims], rfl, by intro j hj; omega⟩, ?_⟩
    simp only [mkSims, List.range'_zero, List.append_nil]
    exact (List.modify_id _ _).symm
  | k + 1, i, s, nd, h => by
    let s1 : Net := { s with sqs := s.sqs ++ [{ node := dst, simNum := firstFree (simNums s nd), reg := regNum, pos := offset + i, active := true }] }
    let s2 := modNode s1 dst fun nd => { nd with sim := nd.sim ++ [s.sqs.length] }
    have h2 : s2.nodes[dst]? = some { nd with sim := nd.sim ++ [s.sqs.length] } := by
      simp [s2, s1, h]
    obtain ⟨ih1, ih2, ih3, ⟨news, ih4, ih5, ih6⟩, ih7⟩ := mkSims_spec dst regNum offset k (i + 1) s2 _ h2
    have hunf : mkSims s dst regNum offset (k + 1) i
        = ((mkSims s2 dst regNum offset k (i + 1)).1, s.sqs.length :: (mkSims s2 dst regNum offset k (i + 1)).2) := by
      simp only [mkSims, h]; rfl
    rw [hunf]
    have hlen : s2.sqs.length = s.sqs.length + 1 := by simp [s2, s1]
    refine ⟨?_, ?_, ?_, ?_, ?_⟩
    · simp only [ih1, hlen, List.range'_succ]
    · simpa [s2, s1] using ih2
    · simpa [s2, s1] using ih3
    · refine ⟨{ node := dst, simNum := firstFree (simNums s nd), reg := regNum, pos := offset + i, active := true } :: news, ?_, by simp [ih5], ?_⟩
      · simp only [ih4]; simp [s2, s1]
      · intro j hj
        cases j with
        | zero => exact ⟨firstFree (simNums s nd), by simp⟩
        | succ j =>
          obtain ⟨x, hx⟩ := ih6 j (by omega)
          refine ⟨x, ?_⟩
          have e : offset + (i + 1 + j) = offset + (i + (j + 1)) := by omega
          rw [List.getElem?_cons_succ, hx, e]
    · simp only [ih7, hlen]
      simp only [s2, s1, modNode_nodes]
      rw [modify_modify']
      congr 1; funext n
      simp [Function.comp, List.range'_succ]

/-! ### handles are never re-activated and never change their home node -/

/-- every handle of `s` still exists in `s'`, belongs to the same node, and is
not more active than before -/
def VqMono (s s' : Net) : Prop :=
  ∀ (h : Nat) (vq : VQ), s.vqs[h]? = some vq → ∃ vq' : VQ, s'.vqs[h]? = some vq' ∧ vq'.virtNode = vq.virtNode ∧
    (vq.active = false → vq'.active = false)

theorem VqMono.refl (s : Net) : VqMono s s := fun _ vq h => ⟨vq, h, rfl, id⟩

theorem VqMono.trans {s s' s'' : Net} (h1 : VqMono s s') (h2 : VqMono s' s'') : VqMono s s'' := by
  intro h vq hv
  obtain ⟨vq', hv', e1, a1⟩ := h1 h vq hv
  obtain ⟨vq'', hv'', e2, a2⟩ := h2 h vq' hv'
  exact ⟨vq'', hv'', e2.trans e1, fun ha => a2 (a1 ha)⟩

theorem VqMono.of_eq {s s' : Net} (h : s'.vqs = s.vqs) : VqMono s s' := by
  intro x vq hv; exact ⟨vq, by rw [h]; exact hv, rfl, id⟩

theorem VqMono.setVQ (s : Net) (h : Nat) (f : VQ → VQ) (hf : ∀ v, (f v).virtNode = v.virtNode ∧
    (v.active = false → (f v).active = false)) : VqMono s (setVQ s h f) := by
  intro x vq hv
  simp only [setVQ_vqs, getElem?_modify', hv]
  split
  · exact ⟨f vq, rfl, (hf vq).1, (hf vq).2⟩
  · exact ⟨vq, rfl, rfl, id⟩

theorem VqMono.append (s s' : Net) (l : List VQ) (h : s'.vqs = s.vqs ++ l) : VqMono s s' := by
  intro x vq hv
  refine ⟨vq, ?_, rfl, id⟩
  rw [h, List.getElem?_append_left]; exact hv
  exact (List.getElem?_eq_some_iff.1 hv).1

theorem VqMono.repoint (s : Net) (a b c : Nat) (d : List Nat) : VqMono s (repoint s a b c d) := by
  intro x vq hv
  simp only [VNet.repoint, List.getElem?_mapIdx, hv, Option.map_some]
  refine ⟨_, rfl, ?_, ?_⟩
  · split
    · split
      · split <;> rfl
      · rfl
    · rfl
  · intro ha
    split
    · split
      · split <;> simp [ha]
      · exact ha
    · exact ha

theorem localMerge_vqs (s : Net) (n o1 o2 : Nat) : (localMerge s n o1 o2).1.vqs = s.vqs := by
  unfold localMerge
  split
  · split
    · rfl
    · split <;> rfl
  · rfl

theorem removeSim_vqs (s : Net) (n o : Nat) : (removeSim s n o).1.vqs = s.vqs := by
  unfold removeSim
  split
  · split <;> rfl
  · rfl

theorem addRegister_ok {s : Net} {a : Nat} {s0 : Net} {r : Nat} (h : addRegister s a = .ok (s0, r)) :
    ∃ n, s.nodes[a]? = some n ∧ n.numRegs < n.maxRegs ∧ r = n.nextReg ∧
      s0 = modNode s a fun n => { n with numRegs := n.numRegs + 1, nextReg := n.nextReg + 1,
                                         regs := n.regs ++ [{ num := n.nextReg, max := 10, toks := [] }] } := by
  unfold addRegister at h
  split at h
  · cases h
  · rename_i n hn
    split at h
    · cases h
    · rename_i hlt
      simp only [Except.ok.injEq, Prod.mk.injEq] at h
      refine ⟨n, hn, by omega, h.2.symm, ?_⟩
      rw [← h.1]
      simp only [modNode]; congr 1
      apply modify_congr' _ _ _ _ n hn; rfl

theorem addRegister_error {s : Net} {a : Nat} {e : Err} (h : addRegister s a = .error e) :
    (s.nodes[a]? = none ∧ e = .virtNet) ∨ (∃ n, s.nodes[a]? = some n ∧ n.numRegs ≥ n.maxRegs ∧ e = .quantum) := by
  unfold addRegister at h
  split at h
  · rename_i hn; left; exact ⟨hn, by cases h; rfl⟩
  · rename_i n hn
    split at h
    · rename_i hge; right; exact ⟨n, hn, hge, by cases h; rfl⟩
    · cases h

theorem mergeFrom_VqMono (s : Net) (dst src o lr : Nat) : VqMono s (mergeFrom s dst src o lr).1 := by
  unfold mergeFrom
  split
  · rename_i q sn dn hq hsn hdn
    split
    · rename_i oldR locR hold hloc
      simp only
      let s1 := modNode s src fun nd =>
        ({ nd with sim := nd.sim.filter fun o' => match s.sqs[o']? with
                                                  | some q' => q'.reg != q.reg
                                                  | none => true }).delReg q.reg
      let s2 := modNode s1 dst fun nd =>
        nd.modReg lr fun r => { r with max := r.max + oldR.toks.length, toks := r.toks ++ oldR.toks }
      have hd2 : ∃ nd2, s2.nodes[dst]? = some nd2 := by
        have : dst < s.nodes.length := (List.getElem?_eq_some_iff.1 hdn).1
        have : dst < s2.nodes.length := by simpa [s2, s1] using this
        exact ⟨_, List.getElem?_eq_getElem this⟩
      obtain ⟨nd2, hnd2⟩ := hd2
      have hm := (mkSims_spec dst lr locR.toks.length oldR.toks.length 0 s2 nd2 hnd2).2.1
      exact (VqMono.of_eq (s := s) hm).trans (VqMono.repoint _ _ _ _ _)
    · exact VqMono.refl s
  · exact VqMono.refl s

theorem gate2Op_state (s : Net) (g : G2) (oc ot : Nat) : (gate2Op s g oc ot).1 = s := by
  unfold gate2Op; split
  · split <;> rfl
  · rfl

theorem setVQ_simObj_mono (s : Net) (h x : Nat) : VqMono s (setVQ s h fun v => { v with simObj := x }) :=
  VqMono.setVQ _ _ _ fun _ => ⟨rfl, id⟩

theorem stepGate2_VqMono (s : Net) (hc ht : Nat) (g : G2) : VqMono s (stepGate2 s hc ht g).1 := by
  unfold stepGate2
  split
  · rename_i vc vt hvc hvt
    split
    · exact VqMono.refl s
    · split
      · exact VqMono.refl s
      · simp only
        split
        · simp only [gate2Op_state]
          exact VqMono.of_eq (localMerge_vqs _ _ _ _)
        · split
          · split
            · exact VqMono.refl s
            · simp only [gate2Op_state]
              exact (mergeFrom_VqMono _ _ _ _ _).trans (setVQ_simObj_mono _ _ _)
          · split
            · split
              · exact VqMono.refl s
              · simp only [gate2Op_state]
                exact (mergeFrom_VqMono _ _ _ _ _).trans (setVQ_simObj_mono _ _ _)
            · split
              · exact VqMono.refl s
              · rename_i s0 newReg hadd
                simp only [gate2Op_state]
                obtain ⟨n, _, _, _, hs0⟩ := addRegister_ok hadd
                have h0 : VqMono s s0 := VqMono.of_eq (by rw [hs0]; rfl)
                exact h0.trans ((mergeFrom_VqMono _ _ _ _ _).trans ((setVQ_simObj_mono _ _ _).trans
                  ((mergeFrom_VqMono _ _ _ _ _).trans (setVQ_simObj_mono _ _ _))))
  · exact VqMono.refl s

theorem step_VqMono (s : Net) (op : Op) : VqMono s (step s op).1 := by
  cases op with
  | new a =>
    simp only [step]; unfold stepNew
    split
    · exact VqMono.refl s
    · split
      · exact VqMono.refl s
      · split
        · exact VqMono.refl s
        · rename_i s1 regNum hadd
          obtain ⟨n, _, _, _, hs0⟩ := addRegister_ok hadd
          apply VqMono.append _ _ [_]
          simp only [modNode_vqs]; rw [hs0]; rfl
  | gate1 h g =>
    simp only [step]; unfold stepGate1
    split
    · exact VqMono.refl s
    · split
      · exact VqMono.refl s
      · split
        · exact VqMono.refl s
        · split
          · exact VqMono.refl s
          · split <;> exact VqMono.refl s
  | gate2 hc ht g => exact stepGate2_VqMono s hc ht g
  | send h b =>
    simp only [step]; unfold stepSend
    split
    · exact VqMono.refl s
    · split
      · exact VqMono.refl s
      · split
        · exact VqMono.refl s
        · split
          · exact VqMono.refl s
          · split
            · exact VqMono.refl s
            · rename_i s1 newNum hadd
              simp only
              have h1 : VqMono s s1 := by
                unfold addQubitAt at hadd
                split at hadd
                · cases hadd
                · split at hadd
                  · cases hadd
                  · simp only [Except.ok.injEq, Prod.mk.injEq] at hadd
                    apply VqMono.append _ _ [_]
                    rw [← hadd.1]; rfl
              refine h1.trans (VqMono.trans (s' := setVQ s1 h fun v => { v with active := false })
                (VqMono.setVQ _ _ _ fun _ => ⟨rfl, fun _ => rfl⟩) (VqMono.of_eq rfl))
  | measure h ip o =>
    simp only [step]; unfold stepMeasure
    split
    · exact VqMono.refl s
    · split
      · exact VqMono.refl s
      · split
        · exact VqMono.refl s
        · split
          · exact VqMono.refl s
          · split
            · exact VqMono.refl s
            · simp only
              refine VqMono.trans (s' := modNode (removeSim s _ _).1 _ _) (VqMono.of_eq ?_)
                (VqMono.setVQ _ _ _ fun _ => ⟨rfl, fun _ => rfl⟩)
              simp [removeSim_vqs]

end SqVerif.VNet

import SqVerif.LockProtoLemmas
/-!
# LockProto — `Inv` is preserved by every transition of the idealised protocol (`inv_step`, `inv_reachable`)
-/
namespace SqVerif.LockProto

/-- one operation `i` moves from `p` to `q`, the lock table becomes `L'` -/
theorem inv_update {ops : List Op} {s : St} {i : Nat} {p q : PSt} {L' : List (Node × Owner)}
    (hI : Inv ops s) (hp : s.procs[i]? = some p)
    (hown : ∀ n o, (n, o) ∈ L' → (o = .op i ∧ n ∈ q.held) ∨
      (∃ (j : Nat) (p' : PSt), j ≠ i ∧ o = .op j ∧ s.procs[j]? = some p' ∧ n ∈ p'.held))
    (hhold_i : ∀ n ∈ q.held, (n, Owner.op i) ∈ L')
    (hhold_o : ∀ (j : Nat) (p' : PSt), j ≠ i → s.procs[j]? = some p' → ∀ n ∈ p'.held, (n, Owner.op j) ∈ L')
    (huniq : ∀ n o o', (n, o) ∈ L' → (n, o') ∈ L' → o = o')
    (hnd : q.held.Nodup) (hsafe : ∃ o, ops[i]? = some o ∧ Safe (edgesOf o) q.held q.rest)
    (hcost : ∀ ns, Instr.acqT ns ∈ q.rest → 2 * ns.length ≤ maxCost ops) :
    Inv ops ⟨s.procs.set i q, L', s.zombies⟩ := by
  have hi : i < s.procs.length := lt_of_get hp
  refine ⟨by simpa using hI.len, hI.zomb, ?_, ?_, huniq, ?_, ?_, ?_⟩
  · intro n o h
    rcases hown n o h with ⟨rfl, hn⟩ | ⟨j, p', hj, rfl, hp', hn⟩
    · exact ⟨i, q, rfl, (get_set_iff _ _ _ _ _ hi).2 (Or.inl ⟨rfl, rfl⟩), hn⟩
    · exact ⟨j, p', rfl, (get_set_iff _ _ _ _ _ hi).2 (Or.inr ⟨hj, hp'⟩), hn⟩
  · intro j p' h n hn
    rcases (get_set_iff _ _ _ _ _ hi).1 h with ⟨rfl, rfl⟩ | ⟨hj, hp'⟩
    · exact hhold_i n hn
    · exact hhold_o j p' hj hp' n hn
  · intro j p' h
    rcases (get_set_iff _ _ _ _ _ hi).1 h with ⟨rfl, rfl⟩ | ⟨hj, hp'⟩
    · exact hnd
    · exact hI.nodup j p' hp'
  · intro j p' h
    rcases (get_set_iff _ _ _ _ _ hi).1 h with ⟨rfl, rfl⟩ | ⟨hj, hp'⟩
    · exact hsafe
    · exact hI.safe j p' hp'
  · intro j p' h
    rcases (get_set_iff _ _ _ _ _ hi).1 h with ⟨rfl, rfl⟩ | ⟨hj, hp'⟩
    · exact hcost
    · exact hI.cost j p' hp'

/-- the owner of an entry, split into "it is `i`" / "it is another operation" -/
theorem own_split {ops : List Op} {s : St} {i : Nat} {p : PSt} (hI : Inv ops s) (hp : s.procs[i]? = some p)
    {n : Node} {o : Owner} (h : (n, o) ∈ s.locks) :
    (o = .op i ∧ n ∈ p.held) ∨
      (∃ (j : Nat) (p' : PSt), j ≠ i ∧ o = .op j ∧ s.procs[j]? = some p' ∧ n ∈ p'.held) := by
  obtain ⟨j, p', rfl, hp', hn⟩ := hI.own n o h
  by_cases hj : j = i
  · subst hj
    rw [hp] at hp'; cases hp'
    exact Or.inl ⟨rfl, hn⟩
  · exact Or.inr ⟨j, p', hj, rfl, hp', hn⟩

/-- acquiring a free lock (shared by `acq` and `grant`) -/
theorem inv_take {ops : List Op} {s : St} {i : Nat} {p : PSt} {n : Node} {rest' : List Instr}
    (hI : Inv ops s) (hp : s.procs[i]? = some p) (hl : s.lockedB n = false)
    (hsafe : ∃ o, ops[i]? = some o ∧ Safe (edgesOf o) (n :: p.held) rest')
    (hcost : ∀ ns, Instr.acqT ns ∈ rest' → 2 * ns.length ≤ maxCost ops) :
    Inv ops ⟨s.procs.set i ⟨rest', n :: p.held⟩, (n, .op i) :: s.locks, s.zombies⟩ := by
  have hfree := (lockedB_false_iff s n).1 hl
  apply inv_update hI hp
  · intro m o h
    rcases List.mem_cons.1 h with h | h
    · cases h; exact Or.inl ⟨rfl, by simp⟩
    · rcases own_split hI hp h with ⟨rfl, hm⟩ | h'
      · exact Or.inl ⟨rfl, List.mem_cons_of_mem _ hm⟩
      · exact Or.inr h'
  · intro m hm
    rcases List.mem_cons.1 hm with rfl | hm
    · simp
    · exact List.mem_cons_of_mem _ (hI.hold i p hp m hm)
  · intro j p' _ hp' m hm
    exact List.mem_cons_of_mem _ (hI.hold j p' hp' m hm)
  · intro m o o' h h'
    rcases List.mem_cons.1 h with h | h <;> rcases List.mem_cons.1 h' with h' | h'
    · cases h; cases h'; rfl
    · cases h; exact absurd h' (hfree _)
    · cases h'; exact absurd h (hfree _)
    · exact hI.uniq m o o' h h'
  · show (n :: p.held).Nodup
    rw [List.nodup_cons]
    exact ⟨fun hn => hfree _ (hI.hold i p hp n hn), hI.nodup i p hp⟩
  · exact hsafe
  · exact hcost

/-- a move of operation `i` that leaves the lock table and `held` alone -/
theorem inv_keep {ops : List Op} {s : St} {i : Nat} {p : PSt} {rest' : List Instr}
    (hI : Inv ops s) (hp : s.procs[i]? = some p)
    (hsafe : ∃ o, ops[i]? = some o ∧ Safe (edgesOf o) p.held rest')
    (hcost : ∀ ns, Instr.acqT ns ∈ rest' → 2 * ns.length ≤ maxCost ops) :
    Inv ops ⟨s.procs.set i ⟨rest', p.held⟩, s.locks, s.zombies⟩ := by
  apply inv_update hI hp
  · intro m o h; exact own_split hI hp h
  · intro m hm; exact hI.hold i p hp m hm
  · intro j p' _ hp' m hm; exact hI.hold j p' hp' m hm
  · exact hI.uniq
  · exact hI.nodup i p hp
  · exact hsafe
  · exact hcost

theorem inv_step {ops : List Op} {s s' : St} {l : Label} (hI : Inv ops s) (h : Tr false s l s') :
    Inv ops s' := by
  cases h with
  | @acq i p n r hp hr hl =>
    obtain ⟨o, ho, hs⟩ := hI.safe i p hp
    rw [hr] at hs
    apply inv_take hI hp hl ⟨o, ho, hs.2⟩
    intro ns hns
    exact hI.cost i p hp ns (by rw [hr]; exact List.mem_cons_of_mem _ hns)
  | @work i p r hp hr =>
    obtain ⟨o, ho, hs⟩ := hI.safe i p hp
    rw [hr] at hs
    apply inv_keep (rest' := r) hI hp ⟨o, ho, hs⟩
    intro ns hns
    exact hI.cost i p hp ns (by rw [hr]; exact List.mem_cons_of_mem _ hns)
  | @rel i p n r hp hr =>
    obtain ⟨o, ho, hs⟩ := hI.safe i p hp
    rw [hr] at hs
    have hnd := hI.nodup i p hp
    apply inv_update hI hp
    · intro m o h
      have hm := mem_unlock.1 h
      rcases own_split hI hp hm.1 with ⟨rfl, hh⟩ | h'
      · exact Or.inl ⟨rfl, (List.mem_erase_of_ne hm.2).2 hh⟩
      · exact Or.inr h'
    · intro m hm
      have := hnd.mem_erase_iff.1 hm
      exact mem_unlock.2 ⟨hI.hold i p hp m this.2, this.1⟩
    · intro j p' hj hp' m hm
      refine mem_unlock.2 ⟨hI.hold j p' hp' m hm, ?_⟩
      rintro rfl
      have h1 := hI.hold j p' hp' m hm
      have h2 := hI.hold i p hp m hs.1
      have := hI.uniq m _ _ h1 h2
      cases this
      exact hj rfl
    · intro m o o' h h'
      exact hI.uniq m o o' (mem_unlock.1 h).1 (mem_unlock.1 h').1
    · exact hnd.erase n
    · exact ⟨o, ho, hs.2⟩
    · intro ns hns
      exact hI.cost i p hp ns (by rw [hr]; exact List.mem_cons_of_mem _ hns)
  | @go i p ns r hp hr ha =>
    obtain ⟨o, ho, hs⟩ := hI.safe i p hp
    rw [hr] at hs
    apply inv_keep hI hp
    · exact ⟨o, ho, hs.2.2 p.held (hI.nodup i p hp) (fun x => ⟨hs.1 x, ha x⟩)⟩
    · intro ms hms
      exact hI.cost i p hp ms (by rw [hr]; exact List.mem_cons_of_mem _ hms)
  | @grant i p ns r n hp hr h1 h2 h3 =>
    obtain ⟨o, ho, hs⟩ := hI.safe i p hp
    rw [hr] at hs
    apply inv_take hI hp h3
    · refine ⟨o, ho, ?_, hs.2.1, hs.2.2⟩
      intro x hx
      rcases List.mem_cons.1 hx with rfl | hx
      · exact h1
      · exact hs.1 x hx
    · intro ms hms
      exact hI.cost i p hp ms (by rw [hr]; exact hms)
  | @toI i p ns r _ hp hr hn =>
    obtain ⟨o, ho, hs⟩ := hI.safe i p hp
    rw [hr] at hs
    apply inv_keep hI hp
    · refine ⟨o, ho, ?_⟩
      apply safe_rels
      · exact ⟨by simp, hs.2.1, hs.2.2⟩
      · exact hs.2.1.filter _
      · exact hI.nodup i p hp
      · intro x
        simp only [List.mem_filter, decide_eq_true_eq]
        exact ⟨fun hx => ⟨hs.1 x hx, hx⟩, fun hx => hx.2⟩
    · intro ms hms
      apply hI.cost i p hp ms
      rw [hr]
      rcases List.mem_append.1 hms with h | h
      · simp at h
      · exact h
  | toF hf _ _ _ => cases hf
  | zgrant h1 _ => rw [hI.zomb] at h1; cases h1

theorem inv_reachable {ops : List Op} {s : St} (h : Reachable false ops s) : Inv ops s := by
  induction h with
  | init => exact inv_init ops
  | step l _ hf ih => exact inv_step ih (fire_tr hf)

theorem run_reachable {f : Bool} {ops : List Op} {s s' : St} {ls : List Label} (hr : Run f s ls s')
    (h : Reachable f ops s) : Reachable f ops s' := by
  induction hr with
  | nil => exact h
  | cons hf _ ih => exact ih (Reachable.step _ h hf)

theorem run_of_run {f : Bool} {s s' : St} : ∀ {ls : List Label}, run f s ls = some s' → Run f s ls s'
  | [], h => by simp [run] at h; subst h; exact Run.nil s
  | l :: ls, h => by
    unfold run at h
    cases hf : fire f s l with
    | none => simp [hf] at h
    | some s1 =>
      simp only [hf] at h
      exact Run.cons hf (run_of_run h)

theorem reachable_of_run {f : Bool} {ops : List Op} {s' : St} {ls : List Label}
    (h : run f (init ops) ls = some s') : Reachable f ops s' :=
  run_reachable (run_of_run h) Reachable.init

end SqVerif.LockProto

import SqVerif.JointLemmasOps
import SqVerif.VNetEngineLemmas
/-
C01 joint layer, part 4 — the head-change lemmas of part 3 instantiated with the L0 MODEL
FUNCTIONS (`Stab.applyGate1/2`, `Stab.addQubit`, `Stab.measure`) through the group theorems of
C13 / C14.  A factor is now (slot labels, `InGroup` of a concrete `Stab.St`); the same lemmas
are used for an engine inside a network (rest = the other engines) and for the ideal register
(rest = []).  `outcome_agree`: two stabilizer states that agree on `±Z` at the measured qubit
report the same outcome for the same coin.
-/
set_option linter.unusedSimpArgs false
set_option linter.unusedVariables false
namespace SqVerif.Joint
open SqVerif.Stab SqVerif.Stab.Meas SqVerif.VNet SqVerif.VNetEng

/-- the group predicate of a state -/
abbrev grp (st : St) : POp → Prop := InGroup st.n st.rows

theorem stfac_gate1 {toks : List Nat} {st st' : St} {rest : List Fac} {g : Gate1} {j x : Nat}
    (hok : HeadOK toks (grp st) rest) (hc : Commuting st.n st.rows) (hj : toks[j]? = some x)
    (h : applyGate1 g j st = some st') (t : TOp) :
    ProdG ((toks, grp st') :: rest) t ↔ ∃ t0, ProdG ((toks, grp st) :: rest) t0 ∧ t ≈ₜ t0.conj1 g x := by
  have hn : st'.n = st.n := by obtain ⟨_, rfl⟩ := C13.gate1_some g j st st' h; rfl
  refine prodG_gate1 g hok hj (fun p' => ?_) t
  show InGroup st'.n st'.rows p' ↔ _
  rw [hn]; exact C13.gate1_group st.n st st' g j hc rfl h p'

theorem stfac_gate2 {toks : List Nat} {st st' : St} {rest : List Fac} {g : Gate2} {jc jd c d : Nat}
    (hok : HeadOK toks (grp st) rest) (hc : Commuting st.n st.rows) (hjc : toks[jc]? = some c)
    (hjd : toks[jd]? = some d) (h : applyGate2 g jc jd st = some st') (t : TOp) :
    ProdG ((toks, grp st') :: rest) t ↔ ∃ t0, ProdG ((toks, grp st) :: rest) t0 ∧ t ≈ₜ t0.conj2 g c d := by
  have hn : st'.n = st.n := by obtain ⟨_, rfl⟩ := C13.gate2_some g jc jd st st' h; rfl
  refine prodG_gate2 g hok hjc hjd (fun p' => ?_) t
  show InGroup st'.n st'.rows p' ↔ _
  rw [hn]; exact C13.gate2_group st.n st st' g jc jd hc rfl h p'

theorem stfac_add {toks : List Nat} {st : St} {rest : List Fac} {x : Nat}
    (hok : HeadOK toks (grp st) rest) (hc : Commuting st.n st.rows) (hl : st.rows.length = st.n)
    (hx : x ∉ toks) (hxr : ∀ F, F ∈ rest → x ∉ F.1) (t : TOp) :
    ProdG ((toks ++ [x], grp (addQubit st)) :: rest) t ↔ TAdded (ProdG ((toks, grp st) :: rest)) x t := by
  refine prodG_add hok hx hxr (fun p' => ?_) t
  show InGroup (addQubit st).n (addQubit st).rows p' ↔ _
  rw [Engine.addQubit_n]; exact C13.addQubit_group_explicit st hc hl p'

theorem stfac_meas_inplace {toks : List Nat} {st st' : St} {rest : List Fac} {j x : Nat} {coin o : Bool}
    (hok : HeadOK toks (grp st) rest) (hv : ValidMax st.n st.rows) (hl : toks.length = st.n)
    (hj : toks[j]? = some x) (hm : Stab.measure st j true coin = some (o, st')) (t : TOp) :
    ProdG ((toks, grp st') :: rest) t ↔ TCollapsed (ProdG ((toks, grp st) :: rest)) x o t := by
  have hjl : j < st.n := hl ▸ (List.getElem?_eq_some_iff.1 hj).1
  obtain ⟨hn, hg⟩ := C14.measure_inplace_group st j true coin o st' hv hjl hm rfl
  refine prodG_collapse o hok hj (fun p' => ?_) t
  show InGroup st'.n st'.rows p' ↔ _
  rw [hn, hl]; exact hg p'

/-- the group predicate "collapsed group of `st`" as a head factor -/
theorem headOK_collapsed {toks : List Nat} {st : St} {rest : List Fac} {j : Nat} {o : Bool}
    (hok : HeadOK toks (grp st) rest) (hw : ∀ r, r ∈ st.rows → r.ps.length = st.n) (hl : toks.length = st.n) :
    HeadOK toks (Collapsed st.n st.rows j o) rest :=
  ⟨hok.nodup, fun p hp => by rw [hl]; exact collapsed_len hw hp, hok.off⟩

/-- a destructive measurement in one call (`Stab.measure … false`) -/
theorem stfac_meas_destr {toks : List Nat} {st st' : St} {rest : List Fac} {j x : Nat} {coin o : Bool}
    (hok : HeadOK toks (grp st) rest) (hv : ValidMax st.n st.rows) (hl : toks.length = st.n)
    (hj : toks[j]? = some x) (hm : Stab.measure st j false coin = some (o, st')) (t : TOp) :
    ProdG ((toks.eraseIdx j, grp st') :: rest) t ↔
      TRestricted (TCollapsed (ProdG ((toks, grp st) :: rest)) x o) x o t := by
  have hjl : j < st.n := hl ▸ (List.getElem?_eq_some_iff.1 hj).1
  obtain ⟨hn, hg⟩ := C14.measure_destructive_group st j false coin o st' hv hjl hm rfl
  have hokC := headOK_collapsed (j := j) (o := o) hok hv.width hl
  have h1 := prodG_restrict (G' := grp st') o hokC hj (fun p' => by
    show InGroup st'.n st'.rows p' ↔ _
    rw [hn]; exact hg p') t
  rw [h1]
  have h2 : ∀ t0, ProdG ((toks, Collapsed st.n st.rows j o) :: rest) t0 ↔
      TCollapsed (ProdG ((toks, grp st) :: rest)) x o t0 := by
    intro t0
    refine prodG_collapse o hok hj (fun p' => ?_) t0
    rw [hl]; exact Iff.rfl
  constructor
  · rintro ⟨q, hq, h⟩; exact ⟨q, (h2 q).1 hq, h⟩
  · rintro ⟨q, hq, h⟩; exact ⟨q, (h2 q).2 hq, h⟩

/-- `remove_qubit` of a qubit that has just been measured in place (`(-1)^o Z_j` is in the group):
the internal measurement repeats `o` and the group is restricted -/
theorem stfac_remove {toks : List Nat} {st st' : St} {rest : List Fac} {j x : Nat} {coin o o2 : Bool}
    (hok : HeadOK toks (grp st) rest) (hv : ValidMax st.n st.rows) (hl : toks.length = st.n)
    (hj : toks[j]? = some x) (hz : InGroup st.n st.rows (zAt st.n j o))
    (hm : Stab.measure st j false coin = some (o2, st')) :
    o2 = o ∧ ∀ t, ProdG ((toks.eraseIdx j, grp st') :: rest) t ↔
      TRestricted (ProdG ((toks, grp st) :: rest)) x o t := by
  have hjl : j < st.n := hl ▸ (List.getElem?_eq_some_iff.1 hj).1
  have hnot := C14.measure_outcome_possible st j false coin o2 st' hv hjl hm
  have ho : o2 = o := by
    cases o <;> cases o2 <;> first | rfl | exact absurd hz hnot
  subst ho
  refine ⟨rfl, fun t => ?_⟩
  obtain ⟨hn, hg⟩ := C14.measure_destructive_group st j false coin o2 st' hv hjl hm rfl
  refine prodG_restrict (G' := grp st') o2 hok hj (fun p' => ?_) t
  show InGroup st'.n st'.rows p' ↔ _
  rw [hn, hg p']
  constructor
  · rintro ⟨q, hq, h⟩; exact ⟨q, (collapsed_iff_of_z_mem hv.toCommuting hz q).1 hq, h⟩
  · rintro ⟨q, hq, h⟩; exact ⟨q, (collapsed_iff_of_z_mem hv.toCommuting hz q).2 hq, h⟩

/-- after an in-place measurement with outcome `o`, `(-1)^o Z_j` is in the group -/
theorem z_after_inplace {st st' : St} {j : Nat} {coin o : Bool} (hv : ValidMax st.n st.rows) (hj : j < st.n)
    (hm : Stab.measure st j true coin = some (o, st')) : InGroup st'.n st'.rows (zAt st'.n j o) := by
  obtain ⟨hn, hg⟩ := C14.measure_inplace_group st j true coin o st' hv hj hm rfl
  rw [hn]; exact (hg _).2 (collapsed_z _ _ _ _)

/-- two stabilizer states that agree on membership of `±Z` at the measured qubits report the same
outcome when measured (in any mode) with the same coin -/
theorem outcome_agree {s1 s2 : St} {j1 j2 : Nat} {ip1 ip2 coin o1 o2 : Bool} {s1' s2' : St}
    (hv1 : ValidMax s1.n s1.rows) (hv2 : ValidMax s2.n s2.rows) (hj1 : j1 < s1.n) (hj2 : j2 < s2.n)
    (hz : ∀ b, InGroup s1.n s1.rows (zAt s1.n j1 b) ↔ InGroup s2.n s2.rows (zAt s2.n j2 b))
    (hm1 : Stab.measure s1 j1 ip1 coin = some (o1, s1')) (hm2 : Stab.measure s2 j2 ip2 coin = some (o2, s2')) :
    o1 = o2 := by
  have hnot2 := C14.measure_outcome_possible s2 j2 ip2 coin o2 s2' hv2 hj2 hm2
  by_cases hex1 : ∃ r, r ∈ s1.rows ∧ r.x j1 = true
  · obtain ⟨e1, hn1, hn1'⟩ := C14.measure_random_both s1 j1 ip1 coin o1 s1' hv1 hj1 hm1 hex1
    by_cases hex2 : ∃ r, r ∈ s2.rows ∧ r.x j2 = true
    · obtain ⟨e2, _, _⟩ := C14.measure_random_both s2 j2 ip2 coin o2 s2' hv2 hj2 hm2 hex2
      rw [e1, e2]
    · have hno : ∀ r, r ∈ s2.rows → r.x j2 = false := by
        intro r hr
        cases hx : r.x j2 with
        | false => rfl
        | true => exact absurd ⟨r, hr, hx⟩ hex2
      have hin := (C14.measure_deterministic s2 j2 ip2 coin o2 s2' hv2 hj2 hm2 hno).1
      have := (hz o2).2 hin
      cases o2
      · exact absurd this hn1
      · exact absurd this hn1'
  · have hno : ∀ r, r ∈ s1.rows → r.x j1 = false := by
      intro r hr
      cases hx : r.x j1 with
      | false => rfl
      | true => exact absurd ⟨r, hr, hx⟩ hex1
    have hin := (C14.measure_deterministic s1 j1 ip1 coin o1 s1' hv1 hj1 hm1 hno).1
    have := (hz o1).1 hin
    cases o1 <;> cases o2 <;> first | rfl | exact absurd this hnot2

/-- the group of a state without qubits is trivial -/
theorem grp_zero {st : St} (hn : st.n = 0) (hl : st.rows.length = st.n) (p : POp) :
    grp st p ↔ p ≈ₚ Stab.one 0 := by
  have hr : st.rows = [] := List.eq_nil_of_length_eq_zero (hl.trans hn)
  show InGroup st.n st.rows p ↔ _
  rw [hn, hr]
  constructor
  · rintro ⟨c, hc, e⟩
    have : c = [] := List.eq_nil_of_length_eq_zero hc
    subst this
    exact eqv_symm e
  · intro e
    exact ⟨[], rfl, eqv_symm e⟩

end SqVerif.Joint

"""C14 — stabilizer measurement follows the Born rule and collapses correctly
(StabilizerState.measure, stabilizerEngine.measure_qubit / measure_qubit_inplace / remove_qubit).

`randint` inside simulaqron.toolbox.stabilizer_states is replaced from outside
by a scripted coin; every case is run with both coins.

Tie: the Lean model `Stab.measure` (driver `stab`) gets the same dumped
`_group`, position, mode and coin; the outcome is compared exactly, the
post-state literally and, if that differs, at group level (both canonicalised by
the driver's `gauss`).  Re-measurements start from the implementation's own
post-state.

Oracle (harness/stabutil.py, NumPy, independent of the model): |psi> = the vector
stabilised by the pre-state; P(0) = ||<0|_j psi||^2 decides random vs certain;
the returned outcome must have non-zero probability, both coins must give both
outcomes iff P(0) = 1/2; the in-place post-rows must be n independent commuting
generators fixing the projected vector, the destructive post-rows n-1 such
generators fixing <o|_j psi on the remaining qubits in their original order; an
immediate in-place re-measurement repeats the outcome for either coin and keeps
the group.

Sequence stage (harness/stabseq_cases.py): measurements in place / destructive /
through the engine wrappers among gates, standard forms, copies, comparisons on
ONE long-lived object, every step judged against the state vector carried along
(projected by the outcome returned) and against the threaded Lean model state."""
from .. import core
from .. import stabutil as su
from .. import stabseq_cases as sq    # sequence stage: measurements among other operations on ONE long-lived object / engine

LEAN_TARGETS = ["SqVerif.Props.C14"]
PROPS_FILE = "SqVerif/Props/C14.lean"
DRIVE_TARGETS = ["SqVerif.Drive.Stab"]
TRUSTED = [
    "model Stab.lean (measure, gauss, contains) hand-written from stabilizer_states.py:262-312,395-445,703-784; tied by differential execution (this check)",
    "python's randint replaced by a scripted coin; its uniformity is assumed, not checked",
    "NumPy linear algebra of the reference oracle (complex128, tolerance 1e-8)",
    "input states are produced by a symbolic Clifford simulator whose tables are derived numerically from the gate matrices",
]
ASSUMPTIONS = [
    "states are n x (2n+1) boolean matrices of n commuting independent generators",
    "outcome 0 is the +1 eigenvalue of Z; qubit 0 is the leftmost tensor factor",
]

METHODS = ["measure_qubit", "measure_qubit_inplace", "remove_qubit"]


def build_cases(ctx):
    rng = ctx.rng
    descs = []
    small = {n: su.all_states(n) for n in (1, 2, 3)}
    if [len(small[n]) for n in (1, 2, 3)] != [6, 60, 1080]:
        raise core.MachineryError("state enumeration found %r states" % [len(small[n]) for n in (1, 2, 3)])
    # 1. every state on 1..3 qubits x every position x both modes (both coins inside each case,
    #    in-place cases followed by re-measurement with both coins)
    for n in (1, 2, 3):
        for st in small[n]:
            for j in range(n):
                for inplace in (True, False):
                    descs.append(("measure", j, inplace, n, st, "array"))
    # 2. the engine wrappers: every state on 1..2 qubits (quick: a sample of the 3-qubit ones)
    for n in (1, 2, 3):
        sts = small[n] if (n < 3 or ctx.thorough) else rng.sample(small[3], 150)
        for st in sts:
            for j in range(n):
                for m in METHODS:
                    for coin in (0, 1):
                        descs.append(("engine", m, j, coin, n, st))
    # 3. refusals
    for n in (1, 2, 3):
        for st in rng.sample(small[n], 5):
            for j in (n, n + 1, n + 5, -1, -n - 1):
                for inplace in (True, False):
                    descs.append(("measure", j, inplace, n, st, "array"))
                for m in METHODS:
                    descs.append(("engine", m, j, rng.randrange(2), n, st))
    # 4. re-mixed generator sets of every small state
    for n in (2, 3):
        for st in small[n]:
            for _ in range(ctx.scale(0, 3)):
                rm = su.remix(rng, st)
                for j in range(n):
                    for inplace in (True, False):
                        descs.append(("measure", j, inplace, n, rm, "array"))
    if not ctx.thorough:
        for st in rng.sample(small[3], 200):
            rm = su.remix(rng, st)
            descs.append(("measure", rng.randrange(3), rng.random() < 0.5, 3, rm, "array"))
    # 5. random Clifford-circuit states
    nmax = ctx.scale(8, 10)
    for _ in range(ctx.scale(2000, 40000)):
        descs.append(("rand14", rng.getrandbits(48), nmax))
    return descs


def run(ctx):
    su.load()
    su.selftest()
    res = core.Result()
    res.rule = ("(a) ALL stabilizer states on 1..3 qubits (6+60+1080, breadth-first over H,S,X,CNOT from |0..0>, keyed by the reduced "
                "generator matrix) x every position x {in place, destructive} x both scripted coins; each successful in-place "
                "measurement is re-measured in place with both coins; (b) stabilizerEngine.measure_qubit / measure_qubit_inplace / "
                "remove_qubit on every 1..2-qubit state (3-qubit: a sample in quick, all in thorough) x position x coin; "
                "(c) out-of-range / negative positions; (d) random Clifford-circuit states (depth <= 4n+4, half with re-mixed "
                "generators, some built from strings) on 1..%d qubits x random position / mode / wrapper; re-mixed generator sets "
                "of small states (thorough: 3 per state x every position x mode). non-trivial = accepted measurement on >= 2 qubits"
                % ctx.scale(8, 10))
    replay = getattr(ctx, "replay", None)
    seq_descs = None                  # sequence stage: None = generate its cases, [] = skip (replay of a case of this module)
    if replay and isinstance(replay.get("input"), dict) and replay["input"].get("case"):
        descs = [su.desc_from_json(replay["input"]["case"])]
        descs, seq_descs = ([], descs) if sq.is_seq(descs[0]) else (descs, [])
    else:
        descs = build_cases(ctx)
        res.exhaustive = True      # part (a) is a complete enumeration
    outs = su.run_cases(descs)
    queries = su.collect(res, outs, "C14")
    if ctx.lean_ok:
        su.tie(res, queries, "Stab.measure model vs StabilizerState.measure")
        res.notes.append("tie: %d of %d observations equal at row level, %d equal only at group level" % (
            res.dist.get("tie:row_level_equal", 0), res.traces, res.dist.get("tie:row_level_differs_group_equal", 0)))
    sq.stage(ctx, res, seq_descs, "C14")    # sequence stage (harness/stabseq_cases.py): long-lived objects, model state threaded
    return res


def search(ctx, res, broken):
    res.notes.append("targeted search = the state-vector oracle over every generated case (exhaustive for n <= 3); no failing input")

import SqVerif.TwoPL
import SqVerif.SkelLemmas
import SqVerif.Gen.Skeleton
/-!
# C03 — "Concurrent operations from different nodes are serializable": protocol theorem + discipline (Tie B)

* T03.1 `twoPL_serializable` (generic, static guards) with its corollaries: the lock-point-sorted schedule is a
  permutation that keeps every transaction's own order, is serial when all transactions lock something, has
  the same final state and hence the same per-transaction results.
* T03.2 `ops_well_formed` (`decide` on the regenerated skeletons): which operation kinds are two-phase and
  touch node state only under the node's lock — and, one theorem each, the ones that do not:
  `update_virtual_merge_unguarded`, `measure_virtlist_unguarded` (F12), `active_pretests_unlocked` (F12),
  `lock_timeout_breaks_two_phase` (F15).

Role level only: the lock a handle's simulator pointer is guarded by depends on the state (T03.1′ is not
proved); `ALL` is taken to cover `SELF`, `SIM c`, `SIM t`; an alias `CUR = SIM c` validated by the code's own
test is trusted until the lock is released.
-/
namespace SqVerif.C03
open SqVerif.Skel SqVerif.Gen

/-! ### T03.1 the protocol theorem -/

section Protocol
open SqVerif.TwoPL
variable {V : Type}

/-- T03.1: a legal schedule of well-formed (local effects), two-phase, guard-respecting transactions has the
    same effect as the schedule stably sorted by lock point. -/
theorem twoPL_serializable (guard : Res → Lock) (s : Sched V) (tbl : Tbl)
    (hwf : AllWF s) (h2p : AllTwoPhase s) (hleg : Legal guard tbl s) (st : St V) :
    exec (sortR (rankOf s) s) st = exec s st :=
  SqVerif.TwoPL.twoPL_serializable guard s tbl hwf h2p hleg st

/-- the sorted schedule has the same steps and keeps each transaction's steps in their original order
    (each client's own order is respected) -/
theorem sorted_respects_client_order (s : Sched V) :
    (sortR (rankOf s) s).Perm s ∧ ∀ t, proj t (sortR (rankOf s) s) = proj t s :=
  ⟨sortR_perm _ s, fun t => sortR_filter_tid _ t s⟩

/-- when every transaction locks something, the sorted schedule is serial: each transaction's steps are
    contiguous -/
theorem sorted_is_serial (s : Sched V) (hlock : AllLock s) : Serial (sortR (rankOf s) s) :=
  sortR_serial _ s (fun x y hx _ h => rankOf_inj_of_acq s x.tid y.tid (hlock x hx) h)

/-- packaged: some serial execution of the same transactions, respecting every client's own order, has the
    same final state -/
theorem serializable (guard : Res → Lock) (s : Sched V) (tbl : Tbl)
    (hwf : AllWF s) (h2p : AllTwoPhase s) (hleg : Legal guard tbl s) (hlock : AllLock s) :
    ∃ s' : Sched V, s'.Perm s ∧ (∀ t, proj t s' = proj t s) ∧ Serial s' ∧ ∀ st, exec s' st = exec s st :=
  twoPL_serial_equiv guard s tbl hwf h2p hleg hlock

/-- per-transaction results (a result is a private resource `res t`) agree with the serial execution -/
theorem results_agree (guard : Res → Lock) (s : Sched V) (tbl : Tbl)
    (hwf : AllWF s) (h2p : AllTwoPhase s) (hleg : Legal guard tbl s) (st : St V) (res : Tid → Res) (t : Tid) :
    exec (sortR (rankOf s) s) st (res t) = exec s st (res t) :=
  twoPL_results guard s tbl hwf h2p hleg st res t

/-! a concrete instance: transaction 1 merges register 1 into register 0 (locks 0, 1 and its result lock 10),
    transaction 2 flips register 1 (locks 1 and its result lock 11); they interleave, 2 gets lock 1 first. -/

def exGuard : Res → Lock := fun r => r
def exMerge : St Nat → St Nat := mkEff 0 [0, 1, 10] (fun s r => if r = 0 then s 0 + s 1 else if r = 1 then 0 else s 0 + s 1)
def exFlip : St Nat → St Nat := mkEff 0 [1, 11] (fun s r => if r = 1 then s 1 + 7 else s 1)

def exSched : Sched Nat :=
  [⟨1, .acq 0⟩, ⟨2, .acq 1⟩, ⟨2, .acq 11⟩, ⟨1, .acq 10⟩, ⟨2, .eff [1, 11] exFlip⟩, ⟨2, .rel 1⟩,
   ⟨1, .acq 1⟩, ⟨2, .rel 11⟩, ⟨1, .eff [0, 1, 10] exMerge⟩, ⟨1, .rel 0⟩, ⟨1, .rel 1⟩, ⟨1, .rel 10⟩]

theorem exSched_wf : AllWF exSched := by
  intro x hx
  simp only [exSched, List.mem_cons, List.not_mem_nil, or_false] at hx
  rcases hx with rfl | rfl | rfl | rfl | rfl | rfl | rfl | rfl | rfl | rfl | rfl | rfl <;>
    first | trivial | exact mkEff_local _ _ _

example : AllWF exSched ∧ AllTwoPhase exSched ∧ Legal exGuard (fun _ => none) exSched ∧ AllLock exSched :=
  ⟨exSched_wf, allTwoPhaseB_sound _ (by decide), legalB_sound _ _ _ (by decide), by
    intro x hx
    simp only [exSched, List.mem_cons, List.not_mem_nil, or_false] at hx
    rcases hx with rfl | rfl | rfl | rfl | rfl | rfl | rfl | rfl | rfl | rfl | rfl | rfl <;> decide⟩

-- the serial order is "2 then 1" (2 reaches its lock point first), although 1 started first
example : (sortR (rankOf exSched) exSched).map (·.tid) = [2, 2, 2, 2, 2, 1, 1, 1, 1, 1, 1, 1] := by decide

end Protocol

/-! ### T03.2 the discipline, on the regenerated skeletons -/

/-- `twoPhase` is sound: the trace of every path is accepted by the two-phase monitor -/
theorem two_phase_sound (s : Stmt) (h : twoPhase s = true) (tr : List Ev) (e : Exit) (hp : paths s tr e) :
    (tr.foldl tpStep tpInit).viol = false :=
  twoPhase_sound s h tr e hp

/-- `guarded` is sound: every mutation of a node's state, every (non-exempt) call on a simulated qubit there
    and every call of a node method that relies on the lock happens under that node's lock -/
theorem guarded_sound (needs exempt : String → Bool) (pre : List Role) (s : Stmt)
    (h : guardedFrom needs exempt pre s = true) (tr : List Ev) (e : Exit) (hp : paths s tr e) :
    (∀ a r f rest, tr = a ++ Ev.mut r f :: rest →
      covers (guardState needs exempt pre a).held ((guardState needs exempt pre a).al.resolve r) = true) ∧
    (∀ a r m q rest, tr = a ++ Ev.call r m q :: rest → ((q && !exempt m) || (!q && needs m)) = true →
      covers (guardState needs exempt pre a).held ((guardState needs exempt pre a).al.resolve r) = true) :=
  guardedFrom_sound needs exempt pre s h tr e hp

-- concrete instances of the two checkers
example : twoPhase (.seq (.acquire .SELF false) (.seq (.mutate .SELF "x") (.release .SELF))) = true := by decide
example : twoPhase (.seq (.acquire .SELF false) (.seq (.mutate .SELF "x") (.seq (.release .SELF)
    (.acquire .RECV false)))) = false := by decide
example : guarded (fun _ => false) (fun _ => false) (.mutate .SELF "x") = false := by decide

/-- node methods that rely on their node being locked by the caller (`assert self._lock.locked`) -/
def needs : String → Bool := requiresLock allMethods

/-- getters of identifiers that never change after creation (`simNum`, the node name) -/
def exempt (m : String) : Bool := m == "get_sim_number" || m == "get_details"

/-- the callee side really asserts the lock -/
theorem callee_side_requires_lock :
    needs "remove_sim_qubit_num" = true ∧ needs "get_register_del" = true ∧ needs "merge_from" = true ∧
    needs "local_merge_regs" = true ∧ needs "merge_regs" = true := by decide +kernel

/-- operation kinds that satisfy the premises of T03.1 at role level: gate1, newQubit, addQubit, send (+ its
    NetQASM wrappers), transfer, the simulator-side halves (remove, get_register_del, merge_regs) and the
    two-qubit gate with all its merge cases -/
def wellFormedOps : List String :=
  ["_single_gate", "remote_apply_X", "remote_apply_Y", "remote_apply_Z", "remote_apply_H", "remote_apply_K",
   "remote_apply_S", "remote_apply_T", "remote_apply_rotation",
   "remote_new_qubit", "remote_new_qubit_inreg", "remote_add_qubit",
   "remote_send_qubit", "remote_netqasm_send_qubit", "remote_netqasm_send_epr_half", "remote_transfer_qubit",
   "_remove_sim_qubit", "remote_remove_sim_qubit_num", "remote_get_register_del",
   "local_merge_regs", "remote_merge_regs",
   "_two_qubit_gate", "remote_cnot_onto", "remote_cphase_onto"]

/-- T03.2: each of them is two-phase (when no lock time-out fires: `noTimeout`) and guarded -/
theorem ops_well_formed :
    ∀ m ∈ allMethods, m.1 ∈ wellFormedOps →
      twoPhase (noTimeout m.2) = true ∧ guarded needs exempt m.2 = true := by decide +kernel

theorem ops_present : wellFormedOps.all (fun n => (allMethods.find n).isSome) = true := by decide +kernel

theorem single_gate_well_formed :
    twoPhase Gen._single_gate = true ∧ guarded needs exempt Gen._single_gate = true := by decide +kernel
theorem send_well_formed :
    twoPhase Gen.remote_send_qubit = true ∧ guarded needs exempt Gen.remote_send_qubit = true := by decide +kernel
theorem new_qubit_well_formed :
    twoPhase Gen.remote_new_qubit = true ∧ guarded needs exempt Gen.remote_new_qubit = true := by decide +kernel
theorem add_qubit_well_formed :
    twoPhase Gen.remote_add_qubit = true ∧ guarded needs exempt Gen.remote_add_qubit = true := by decide +kernel
theorem two_qubit_gate_well_formed :
    twoPhase (noTimeout Gen._two_qubit_gate) = true ∧ guarded needs exempt Gen._two_qubit_gate = true := by
  decide +kernel

/-- every translated method is two-phase when no lock time-out fires, except the release primitives
    (a release of a lock that is not held) -/
theorem all_two_phase_without_timeout :
    ∀ m ∈ allMethods,
      m.1 ∉ ["_release_global_lock", "remote_release_global_lock", "_unlock_reg_qubits",
             "remote_unlock_reg_qubits", "_unlock_inreg", "sq_unlock", "sq_remote_unlock"] →
      twoPhase (noTimeout m.2) = true := by decide +kernel

/-- F15: with the time-out path (`cancel`, release of every requested node) the two-qubit gate is not two-phase -/
theorem lock_timeout_breaks_two_phase :
    twoPhase Gen._lock_nodes = false ∧ twoPhase Gen._two_qubit_gate = false := by decide +kernel

/-- F12: `remote_update_virtual_merge` at a third node re-points handles (`q.simNode`, `q.simQubit`) and calls
    `get_numbers` on their simulated qubits without holding any lock -/
theorem update_virtual_merge_unguarded : guarded needs exempt Gen.remote_update_virtual_merge = false := by
  decide +kernel

/-- inside `remote_merge_from` (its node locked by contract, the old simulator locked by the caller) the same
    code is guarded -/
theorem merge_from_guarded_given_old :
    guardedFrom needs exempt [.OLD] Gen.remote_merge_from = true ∧
    guarded needs exempt Gen.remote_merge_from = false := by decide +kernel

/-- F12: a destructive `measure` removes the handle from its node's `virtQubits` holding only the *simulator's*
    lock — the list `remote_update_virtual_merge` iterates over -/
theorem measure_virtlist_unguarded : guarded needs exempt Gen.remote_measure = false := by decide +kernel

/-- F12: every handle operation reads `active` before it holds any lock (TOCTOU with a concurrent send/measure) -/
theorem active_pretests_unlocked :
    ∀ m ∈ allMethods,
      m.1 ∈ ["_single_gate", "remote_measure", "_two_qubit_gate", "remote_send_qubit"] →
      activeTestLocked m.2 = false := by decide +kernel

end SqVerif.C03

import SqVerif.Drive.Lifecycle
/- `lake env lean --run run/lifecycle.lean`: one operation per input line, one canonical observation per output line. -/
def main : IO Unit :=
  SqVerif.Drive.loopState (⟨none, none⟩ : SqVerif.Drive.Lifecycle.DSt) SqVerif.Drive.Lifecycle.handle

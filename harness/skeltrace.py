"""skeltrace -- trace acceptance: are the lock/effect skeletons what the REAL code does?  (DESIGN 1.3, last paragraph)

The skeletons `lean/SqVerif/Gen/Skeleton.lean` are produced by the AST translator `harness/gen/skel.py`, which is
trusted by every `decide`d obligation of Props/C03Skel.lean / C04Skel.lean.  This module is the dynamic check of
that trust: it runs the real virtualNode / virtualQubit / simulatedQubit code on `simnet.SimNet`, records for every
ACTIVATION of a translated method what an observer sees of it, and asks the Lean acceptor
(`SqVerif.Skel.accepts`, driver `run/skel.lean`) whether that is what some path of the method's skeleton shows.

Activation = one execution of a translated method that the translator does NOT inline into its caller: it is entered
from Perspective Broker, from the harness, through `call_method`, or through `<x>.root.<m>(…)`.  A call written
`self.<m>(…)` (and a call of a handle's method from a node method: `qubit._lock_simulating_node(…)`) is inlined by the
translator, so its events belong to the caller's activation -- the recorder decides this the same way, by the source
text of the call expression (frame + `co_positions`), not by object identity.

Everything is patched from outside on the scratch copy's classes (nothing under /repo is edited; the wrappers call
the original and change no behaviour):

  * every function of `virtualNode`, `simulatedQubit` and every translated function of `virtualQubit`
    (current frame in a contextvar; twisted's inlineCallbacks copies the context when the generator is created, so
    the frame follows the generator through all its resumptions);
  * `virtual.call_method`; twisted's `DeferredLock.acquire/release`;
  * the attributes `virtQubits` / `simQubits` / `registers` of `virtualNode` (a data descriptor on the class turns
    whatever is assigned into a list/dict subclass that reports append / remove / pop / item assignment ...).

What is compared (the observation vocabulary, see lean/SqVerif/SkelAccept.lean `obsCard` / `obsMatch`):

  A:<roles> R:<roles>      a node lock is acquired / released: `self._lock.acquire()/release()` of the activation's own
                           node, or a call of `get_global_lock` / `release_global_lock` on a node (for `_lock_nodes` this
                           is the moment the request is SENT); <roles> = every role the concrete node can stand for in
                           this activation at this moment (SELF, SIMc, SIMt, RECV, OLD, PEER, CUR, ALL)
  QA:<qrefs> QR:<qrefs>    qubit locks: `lock`/`unlock` of a simulated-qubit object (Qc Qt ARG REGARG REGDEL NEW; THIS for
                           the object's own DeferredLock), `[_]lock_reg_qubits` on a node (REGc REGt)
  M:<roles>:<field>        mutation of one of the three per-node containers
  C:<roles>:<method>       call of a node method (through call_method, or `.root.<m>()`)
  ret | exc | open         how the activation ended; `open` = not finished, cancelled, or ended by an error the skeleton
                           language has no place for (AssertionError, AttributeError, ... -- counted in the notes)

What is NOT compared: guards (`check`), aliases, asserts (`requires`), `cancel`, the kind of a raise, calls on
simulated-qubit objects other than lock/unlock and engine calls (`onQubit = true` calls), mutations of other fields,
the flag (`ite isSet`) values.  Set roles: one skeleton event on ALL/PART, REGARG (>= 1 observations) or REGDEL (>= 0)
stands for the loop over the members.  `if self._lock.locked: release` is translated as an unconditional release (a
note of the translator): when the guard finds the lock free the recorder supplies the observation and counts it.
"""
import contextvars
import inspect
import linecache
import os
import sys
import time

from . import core
from . import simnet as S
from .gen import skel

_FRAME = contextvars.ContextVar("skeltrace_frame", default=None)

NODE_LOCK_CALLS = {"get_global_lock": "A", "release_global_lock": "R"}
REG_LOCK_CALLS = {k: ("QA" if v == "qlock" else "QR") for k, v in skel.REG_LOCK.items()}
QUBIT_LOCK_CALLS = {"lock": "QA", "unlock": "QR"}
OBSERVED_FIELDS = ("virtQubits", "simQubits", "registers")
# exception classes that the skeleton language can place: raised by a `raise` statement of the code under test or
# arriving from a call
MODELLED_ERRORS = {"quantumError", "noQubitError", "virtNetError", "SimUnsupportedError", "ValueError", "RemoteError",
                   "PBConnectionLost", "DeadReferenceError", "ConnectionError", "ConnectionLost", "ConnectionDone"}


def _short(name):
    return name[len("remote_"):] if name.startswith("remote_") else name


class Act:
    """one activation"""
    __slots__ = ("lean", "cls", "obj", "env", "events", "end", "why_open", "all_seen", "cur_seen", "handle_c", "tag")

    def __init__(self, lean, cls, obj):
        self.lean, self.cls, self.obj = lean, cls, obj
        self.env = {}
        self.events = []
        self.end = None
        self.why_open = None
        self.all_seen, self.cur_seen = set(), set()
        self.handle_c = None
        self.tag = None

    def line(self):
        return " ".join([self.lean, self.end or "open"] + self.events)


class Frame:
    __slots__ = ("act", "cls", "obj", "name")

    def __init__(self, act, cls, obj, name):
        self.act, self.cls, self.obj, self.name = act, cls, obj, name


class Recorder:
    def __init__(self):
        self.enabled = False
        self.acts = []
        self.tag = None
        self.noop_releases = 0
        self.installed = False
        self.tracked = {}          # (class name, method name) -> lean name
        self.class_of = {}
        self.src_files = set()
        self._how_cache = {}
        self._file_cache = {}
        self.finalised = 0
        self._sig_cache = {}
        self.ns = None

    # -- lifecycle -------------------------------------------------------------------------------------------
    def start(self, tag=None):
        self.acts, self.tag, self.enabled = [], tag, True

    def stop(self):
        self.enabled = False
        acts, self.acts = self.acts, []
        for a in acts:
            if a.end is None:
                a.end, a.why_open = "open", a.why_open or "unfinished"
            a.obj, a.env, a.handle_c = None, None, None
        return acts

    # -- installation -------------------------------------------------------------------------------------------
    def install(self):
        if self.installed:
            return
        core.scratch_repo()
        ns = self.ns = S._boot()
        V, Q = ns.V, ns.Q
        classes = skel.parse_classes(core.scratch_repo())
        for cls, name in skel.tracked_methods(classes):
            self.tracked[(cls, name)] = skel.LEAN_PREFIX[cls] + name
        self.class_of = {"virtualNode": V.virtualNode, "virtualQubit": V.virtualQubit, "simulatedQubit": Q.simulatedQubit}
        self.src_files = {os.path.realpath(V.__file__), os.path.realpath(Q.__file__)}
        for cname, C in self.class_of.items():
            for name, fn in list(C.__dict__.items()):
                if not inspect.isfunction(fn) or name.startswith("__"):
                    continue
                if (cname, name) in self.tracked:
                    setattr(C, name, self._wrap_tracked(cname, name, fn))
                elif cname != "virtualQubit":
                    setattr(C, name, self._wrap_untracked(cname, name, fn))
        self._call_method_code = inspect.unwrap(V.call_method).__code__
        V.call_method = self._wrap_call_method(V.call_method)
        from twisted.internet.defer import DeferredLock
        o_acq, o_rel = DeferredLock.acquire, DeferredLock.release
        rec = self

        def acquire(lock):
            fr = _FRAME.get()
            if fr is not None and fr.act is not None and rec.enabled and rec.live():
                rec.on_lock(fr, lock, True)
            return o_acq(lock)

        def release(lock):
            fr = _FRAME.get()
            if fr is not None and fr.act is not None and rec.enabled and rec.live():
                rec.on_lock(fr, lock, False)
            return o_rel(lock)
        DeferredLock.acquire, DeferredLock.release = acquire, release
        for field in OBSERVED_FIELDS:
            setattr(V.virtualNode, field, _Field(self, field))
        self.installed = True

    # -- who called, and how (the translator's inlining rule, decided on the source text of the call) -------
    def how_called(self, depth=2):
        """-> 'self' (written `self.<m>(…)`), 'name' (written `<local name>.<m>(…)`), 'call_method', 'other' (any
        other expression, e.g. `x.root.<m>(…)`), or None when no frame of the code under test is near (entered from
        PB / the harness)"""
        f = sys._getframe(depth)
        for _ in range(6):
            if f is None:
                return None
            code = f.f_code
            if code is self._call_method_code:
                return "call_method"
            if os.path.realpath(code.co_filename) in self.src_files:
                break
            f = f.f_back
        else:
            return None
        key = (code, f.f_lasti)
        how = self._how_cache.get(key)
        if how is None:
            how = self._how_cache[key] = self._classify_call(code, f.f_lasti)
        return how

    @staticmethod
    def _classify_call(code, lasti):
        try:
            pos = list(code.co_positions())[lasti // 2]
            l0, l1, c0, c1 = pos
            if None in pos:
                return "other"
            lines = [linecache.getline(code.co_filename, n) for n in range(l0, l1 + 1)]
            if l0 == l1:
                text = lines[0].encode()[c0:c1].decode()
            else:
                text = lines[0].encode()[c0:].decode() + "".join(lines[1:-1]) + lines[-1].encode()[:c1].decode()
        except Exception:
            return "other"
        text = text.strip()
        for pre in ("yield ", "await "):
            if text.startswith(pre):
                text = text[len(pre):].lstrip()
        head = text.split("(", 1)[0]
        parts = head.split(".")
        if len(parts) == 2 and parts[0] == "self":
            return "self"
        if len(parts) == 2 and parts[0].isidentifier():
            return "name"
        return "other"

    def live(self, depth=2):
        """False when the innermost generator of the code under test on the stack is not being run by twisted's
        `_inlineCallbacks` (`gen.send`, or `Failure.throwExceptionIntoGenerator`): it is an abandoned operation whose generator the garbage collector is closing (its
        `finally` blocks then run in the middle of whatever else is executing, in THAT context) -- nothing it does
        belongs to the current frame"""
        f = sys._getframe(depth)
        for _ in range(14):
            if f is None:
                return True
            co = f.f_code
            if co.co_flags & 0x20:
                fn = co.co_filename
                mine = self._file_cache.get(fn)
                if mine is None:
                    mine = self._file_cache[fn] = os.path.realpath(fn) in self.src_files
                if mine:
                    b = f.f_back
                    return b is not None and b.f_code.co_name in ("_inlineCallbacks", "throwExceptionIntoGenerator")
            f = f.f_back
        return True

    def belongs(self, obj):
        """False when `obj` is a node / handle / simulated qubit of a network that is no longer the live one: a
        generator of an abandoned schedule being closed by the garbage collector.  `live()` cannot see that when the
        collection happens to be triggered from inside twisted's `_inlineCallbacks` of the CURRENT operation (the
        closing generator's caller frame then looks like a genuine resumption)."""
        net = S._LIVE
        if net is None:
            return True
        try:
            node = obj
            if hasattr(obj, "virtNode"):
                node = obj.virtNode
            elif hasattr(obj, "node") and hasattr(obj, "register"):
                node = getattr(obj.node, "root", obj.node)
            name = getattr(node, "name", None)
            if name is None or not hasattr(node, "virtQubits"):
                return True
            return net.nodes.get(name) is node
        except Exception:
            return True

    # -- wrappers ------------------------------------------------------------------------------------------------
    def _bind(self, key, fn, obj, a, k):
        sig = self._sig_cache.get(key)
        if sig is None:
            sig = self._sig_cache[key] = inspect.signature(inspect.unwrap(fn))
        try:
            return dict(sig.bind(obj, *a, **k).arguments)
        except TypeError:
            return {}

    def _wrap_tracked(self, cname, name, fn):
        rec = self
        lean = self.tracked[(cname, name)]
        key = (cname, name)

        def wrapper(obj, *a, **k):
            if not rec.enabled:
                return fn(obj, *a, **k)
            if not rec.live() or not rec.belongs(obj):
                rec.finalised += 1
                tok = _FRAME.set(None)
                try:
                    return fn(obj, *a, **k)
                finally:
                    _FRAME.reset(tok)
            parent = _FRAME.get()
            how = rec.how_called() if parent is not None else None
            inline = False
            if parent is not None and how is not None:
                if how == "self" and parent.obj is obj:
                    inline = True
                elif how == "name" and cname == "virtualQubit" and parent.cls == "virtualNode":
                    inline = True
            if inline:
                if parent.act is None:
                    return fn(obj, *a, **k)                         # inside an untranslated method: nothing is recorded
                frame = Frame(parent.act, cname, obj, name)
                rec._absorb_env(frame, rec._bind(key, fn, obj, a, k))
                mark = len(parent.act.events)
                tok = _FRAME.set(frame)
                try:
                    res = fn(obj, *a, **k)
                finally:
                    _FRAME.reset(tok)
                if name == "_release_global_lock" and not any(e.startswith("R:") for e in parent.act.events[mark:]):
                    # `if self._lock.locked: release` found the lock free (somebody else released it): the
                    # skeleton keeps the release unconditionally
                    rec.noop_releases += 1
                    parent.act.events.append("R:" + ",".join(rec.node_roles(frame, rec.node_name(obj))))
                return res
            act = Act(lean, cname, obj)
            act.tag = rec.tag
            frame = Frame(act, cname, obj, name)
            rec._absorb_env(frame, rec._bind(key, fn, obj, a, k))
            if parent is not None and parent.act is not None and how != "call_method":
                rec.on_call(parent, obj, name, a)                   # `<x>.root.<m>(…)` / `q.lock()`: a call event of the caller
            rec.acts.append(act)
            mark = 0
            tok = _FRAME.set(frame)
            try:
                res = fn(obj, *a, **k)
            except BaseException as e:
                rec._finish(act, e)
                raise
            finally:
                _FRAME.reset(tok)
            if name == "_release_global_lock" and not any(e.startswith("R:") for e in act.events[mark:]):
                rec.noop_releases += 1
                act.events.append("R:SELF")
            from twisted.internet.defer import Deferred
            if isinstance(res, Deferred):
                res.addBoth(rec._fin_cb, act)
            else:
                act.end = "ret"
            return res
        wrapper.__name__ = name
        wrapper.__wrapped__ = fn
        wrapper._skeltrace = True
        return wrapper

    def _wrap_untracked(self, cname, name, fn):
        rec = self

        def wrapper(obj, *a, **k):
            parent = _FRAME.get()
            if parent is None or not rec.enabled:
                return fn(obj, *a, **k)
            if not rec.live() or not rec.belongs(obj):
                tok = _FRAME.set(None)
                try:
                    return fn(obj, *a, **k)
                finally:
                    _FRAME.reset(tok)
            how = rec.how_called()
            if how == "self" and parent.obj is obj:
                return fn(obj, *a, **k)                             # inlined by the translator as well
            if parent.act is not None and how not in ("call_method", None):
                rec.on_call(parent, obj, name, a)
            tok = _FRAME.set(Frame(None, cname, obj, name))         # its own doings are not the caller's
            try:
                return fn(obj, *a, **k)
            finally:
                _FRAME.reset(tok)
        wrapper.__name__ = name
        wrapper.__wrapped__ = fn
        wrapper._skeltrace = True
        return wrapper

    def _wrap_call_method(self, orig):
        rec = self

        def call_method(obj, method_name, *a, **k):
            fr = _FRAME.get()
            if fr is not None and fr.act is not None and rec.enabled and rec.live():
                net = S._LIVE
                tgt = net.resolve(obj) if net is not None else obj
                if tgt is not None:
                    rec.on_call(fr, tgt, "remote_" + method_name, a)
            return orig(obj, method_name, *a, **k)
        call_method.__wrapped__ = orig
        return call_method

    def _absorb_env(self, frame, bound):
        act = frame.act
        V = self.ns.V
        for name, val in bound.items():
            if name == "self":
                continue
            if name == "qubit" and frame.cls == "virtualNode" and isinstance(val, V.virtualQubit) and act.handle_c is None:
                act.handle_c = val
            act.env.setdefault(name, val)
        if frame.cls == "virtualQubit" and act.cls == "virtualNode" and act.handle_c is None:
            act.handle_c = frame.obj

    def _finish(self, act, exc):
        name = type(exc).__name__
        if name in MODELLED_ERRORS or any(c.__name__ in MODELLED_ERRORS for c in type(exc).__mro__):
            act.end = "exc"
        else:
            act.end, act.why_open = "open", name

    def _fin_cb(self, result, act):
        from twisted.python.failure import Failure
        if isinstance(result, Failure):
            self._finish(act, result.value)
        else:
            act.end = "ret"
        return result

    # -- roles ---------------------------------------------------------------------------------------------------
    @staticmethod
    def node_name(x):
        """name of a node given a virtualNode, a Host-like object or a name"""
        if isinstance(x, str):
            return x
        my = getattr(x, "myID", None)
        if my is not None:
            return getattr(my, "name", None)
        return getattr(x, "name", None)

    def handles(self, act):
        """(c, t): the virtualQubit objects behind the handle letters of this activation"""
        if act.cls == "virtualQubit":
            t = act.env.get("target")
            return act.obj, (t if isinstance(t, self.ns.V.virtualQubit) else None)
        return act.handle_c, None

    def self_node(self, act):
        if act.cls == "virtualNode":
            return self.node_name(act.obj)
        if act.cls == "virtualQubit":
            return self.node_name(getattr(act.obj, "virtNode", None))
        return self.node_name(getattr(act.obj, "node", None))

    def node_roles(self, frame, X):
        act = frame.act
        out = []
        me = self.self_node(act)
        if X == me:
            out.append("SELF")
        c, t = self.handles(act)
        sc = self.node_name(getattr(c, "simNode", None)) if c is not None else None
        st = self.node_name(getattr(t, "simNode", None)) if t is not None else None
        if sc == X:
            out.append("SIMc")
        if st == X:
            out.append("SIMt")
        if act.env.get("targetName") == X:
            out.append("RECV")
        if X in (act.env.get("simNodeName"), act.env.get("oldSimNodeName")):
            out.append("OLD")
        if X != me:
            out.append("PEER")
        if X in act.cur_seen or frame.name == "_lock_simulating_node":
            out.append("CUR")
        if act.cls == "virtualQubit" and (X in (me, sc, st) or X in act.all_seen):
            out.append("ALL")
        return out

    def qubit_refs(self, frame, sq):
        """roles of a simulated-qubit object"""
        act = frame.act
        net = S._LIVE
        out = []
        if act.cls == "simulatedQubit":
            return ["THIS"] if sq is act.obj else []
        c, t = self.handles(act)
        for letter, h in (("c", c), ("t", t)):
            if h is not None and net is not None and net.resolve(getattr(h, "simQubit", None)) is sq:
                out.append("Q" + letter)
        if act.cls == "virtualNode":
            if any(act.env.get(n) is sq for n in ("simQubit", "delQubit", "qubit")):
                out.append("ARG")
            out += ["REGARG", "REGDEL", "NEW"]
        return out

    def reg_refs(self, frame, node, arg):
        """`[_]lock_reg_qubits(<simulated qubit object | simNum>)` on `node`: the register of which handle?"""
        act = frame.act
        net = S._LIVE
        X = self.node_name(node)
        out = []
        c, t = self.handles(act)
        for letter, h in (("c", c), ("t", t)):
            if h is None or net is None:
                continue
            hq = net.resolve(getattr(h, "simQubit", None))
            if hq is None:
                continue
            if arg is hq or (isinstance(arg, int) and not isinstance(arg, bool) and getattr(hq, "simNum", None) == arg
                             and self.node_name(getattr(hq, "node", None)) == X):
                out.append("REG" + letter)
        return out

    # -- events --------------------------------------------------------------------------------------------------
    def on_call(self, frame, tgt, name, args):
        """the activation of `frame` calls method `name` of the object `tgt` (resolved)"""
        act = frame.act
        V, Q = self.ns.V, self.ns.Q
        short = _short(name)
        if isinstance(tgt, V.virtualNode):
            X = self.node_name(tgt)
            if short in NODE_LOCK_CALLS:
                kind = NODE_LOCK_CALLS[short]
                if kind == "A":
                    if frame.name == "_lock_simulating_node":
                        act.cur_seen.add(X)
                    if frame.name == "_lock_nodes":
                        act.all_seen.add(X)
                act.events.append(kind + ":" + ",".join(self.node_roles(frame, X)))
            elif name in REG_LOCK_CALLS or short in REG_LOCK_CALLS:
                kind = REG_LOCK_CALLS.get(name) or REG_LOCK_CALLS[short]
                act.events.append(kind + ":" + ",".join(self.reg_refs(frame, tgt, args[0] if args else None)))
            else:
                act.events.append("C:%s:%s" % (",".join(self.node_roles(frame, X)), short))
        elif isinstance(tgt, Q.simulatedQubit):
            if short in QUBIT_LOCK_CALLS:
                act.events.append(QUBIT_LOCK_CALLS[short] + ":" + ",".join(self.qubit_refs(frame, tgt)))
            # other calls on simulated-qubit objects are `onQubit` calls: not compared

    def on_lock(self, frame, lock, acquire):
        act = frame.act
        own = getattr(frame.obj, "_lock", None) is lock
        if frame.cls == "virtualNode":
            roles = self.node_roles(frame, self.node_name(frame.obj)) if own else []
            act.events.append(("A:" if acquire else "R:") + ",".join(roles))
        elif frame.cls == "simulatedQubit":
            act.events.append(("QA:" if acquire else "QR:") + ("THIS" if own and frame.obj is act.obj else ""))
        else:
            act.events.append("A:" if acquire else "R:")             # a handle method touching a DeferredLock directly

    def on_mut(self, owner, field):
        fr = _FRAME.get()
        if fr is None or fr.act is None or not self.enabled or not self.live(3):
            return
        fr.act.events.append("M:%s:%s" % (",".join(r for r in self.node_roles(fr, self.node_name(owner))
                                                   if r in ("SELF",)), field))


REC = Recorder()


# ---------------------------------------------------------------------------------------------------------
# observed containers
# ---------------------------------------------------------------------------------------------------------
_LIST_MUTATORS = ("append", "remove", "pop", "insert", "extend", "clear", "sort", "reverse", "__setitem__", "__delitem__",
                  "__iadd__", "__imul__")
_DICT_MUTATORS = ("pop", "popitem", "clear", "update", "setdefault", "__setitem__", "__delitem__")
_OBS_CLASSES = {}


def _observed_class(base):
    cls = _OBS_CLASSES.get(base)
    if cls is not None:
        return cls
    names = _LIST_MUTATORS if issubclass(base, list) else _DICT_MUTATORS
    ns = {}
    for m in names:
        def make(m):
            orig = getattr(base, m)

            def f(self, *a, **k):
                REC.on_mut(self.__dict__.get("_sk_owner"), self.__dict__.get("_sk_field"))
                return orig(self, *a, **k)
            f.__name__ = m
            return f
        ns[m] = make(m)
    cls = type("Observed_" + base.__name__, (base,), ns)
    _OBS_CLASSES[base] = cls
    return cls


class _Field:
    """data descriptor on virtualNode: whatever list / dict is assigned to the attribute reports its mutations"""

    def __init__(self, rec, field):
        self.rec, self.field = rec, field
        self.slot = "_sk_" + field

    def __get__(self, obj, objtype=None):
        if obj is None:
            return self
        d = obj.__dict__
        try:
            return d[self.slot]
        except KeyError:
            pass
        try:
            return d[self.field]                  # a node built before the descriptor was installed
        except KeyError:
            raise AttributeError(self.field)

    def __set__(self, obj, value):
        if isinstance(value, (list, dict)) and not getattr(type(value), "_sk_observed", False):
            base = type(value)
            cls = _observed_class(base)
            cls._sk_observed = True
            if base in (list, dict):
                value = cls(value)
            else:
                value.__class__ = cls                                  # a harness subclass (schedcase._VList): keep identity
            value.__dict__["_sk_owner"] = obj
            value.__dict__["_sk_field"] = self.field
        obj.__dict__.pop(self.field, None)
        obj.__dict__[self.slot] = value


# ---------------------------------------------------------------------------------------------------------
# the tie
# ---------------------------------------------------------------------------------------------------------
def judge(acts, lean_ok=True):
    """-> (number of activations, distinct lines, rejections [(line, answer, tag, count)], open reasons Counter)"""
    import collections
    lines = collections.OrderedDict()
    why = collections.Counter()
    for a in acts:
        ln = a.line()
        if ln not in lines:
            lines[ln] = [a.tag, 0]
        lines[ln][1] += 1
        if a.end == "open":
            why[a.why_open or "?"] += 1
    rej = []
    if lean_ok and lines:
        keys = list(lines)
        out = core.lean_run("skel", keys)
        for ln, ans in zip(keys, out):
            if ans != "accept":
                rej.append((ln, ans, lines[ln][0], lines[ln][1]))
    return len(acts), len(lines), rej, why


def sequential_acts(ctx, nrandom):
    """the canned programs of vnetcase (every merge case in both directions, forwarding, refusals, stale handles) and
    `nrandom` generated ones, on the real code, recorded"""
    from . import vnetcase as VC
    from . import schedcase as SC
    REC.install()
    SC._CUR = None            # schedcase's lock monitor must not look at a retired network while vnetcase runs
    progs = [(name, p) for name, p in VC.corpus()] + [(name, p) for name, p in VC.reuse_corpus()]
    acts, nops, kinds = [], 0, {}
    import collections
    cov = collections.Counter()
    for name, p in progs:
        REC.start(tag={"program": name, "ops": p["ops"], "nodes": p["nodes"], "max_qubits": p["max_qubits"],
                       "max_regs": p["max_regs"]})
        try:
            ex = VC.run_program(p)
            ex.net.settle()
        finally:
            acts += REC.stop()
        nops += len(ex.ops)
    for i in range(nrandom):
        seed = ctx.rng.randrange(1 << 30)
        REC.start(tag={"generated": ["general", seed]})
        try:
            ex = VC.gen_program("general" if i % 3 else "fault", seed, cov)
            ex.net.settle()
        finally:
            got = REC.stop()
        for a in got:
            a.tag = {"generated": ["general" if i % 3 else "fault", seed], "ops": [list(o) for o in ex.ops],
                     "nodes": ex.k, "max_qubits": ex.mq, "max_regs": ex.mr}
        acts += got
        nops += len(ex.ops)
    return acts, nops, len(progs) + nrandom


def directed_acts():
    """entry methods that neither program generator reaches: the new gate `apply_S` (local and remote simulator),
    the two NetQASM send wrappers (local / third-node simulator, unknown target), `new_qubit_inreg`,
    `new_register` / `delete_register` called as operations"""
    import random
    REC.install()
    acts = []
    REC.start(tag={"directed": "apply_S, netqasm_send_qubit, netqasm_send_epr_half, new_qubit_inreg, registers"})
    try:
        net = S.SimNet(["Alice", "Bob", "Charlie"], max_qubits=3, rng=random.Random(0))
        net.set_backoff(lambda a, b: 2.5)
        cl = {n: net.client(n) for n in net.names}

        def go(d):
            return net.run(d)

        def ref(node, k=-1):
            return go(cl[node].callRemote("get_virtual_ref", net.nodes[node].virtQubits[k].num))
        go(cl["Alice"].callRemote("new_qubit"))
        go(ref("Alice").callRemote("apply_S"))                                           # local simulator
        go(cl["Alice"].callRemote("send_qubit", ref("Alice"), "Bob"))
        go(ref("Bob").callRemote("apply_S"))                                             # remote simulator
        go(cl["Bob"].callRemote("netqasm_send_qubit", net.nodes["Bob"].virtQubits[-1].num, "Charlie", 0, 0))   # third node
        go(cl["Charlie"].callRemote("new_qubit"))
        go(cl["Charlie"].callRemote("netqasm_send_qubit", net.nodes["Charlie"].virtQubits[-1].num, "Alice", 0, 0))  # local
        go(cl["Charlie"].callRemote("netqasm_send_qubit", net.nodes["Charlie"].virtQubits[-1].num, "Nowhere", 0, 0))
        go(cl["Charlie"].callRemote("netqasm_send_epr_half", net.nodes["Charlie"].virtQubits[-1].num, "Bob", 0, 0, [0] * 8))
        go(cl["Alice"].callRemote("new_qubit"))
        go(cl["Alice"].callRemote("netqasm_send_epr_half", net.nodes["Alice"].virtQubits[-1].num, "Nowhere", 0, 0, [0] * 8))
        go(cl["Alice"].callRemote("netqasm_send_epr_half", None, "Bob", 0, 0, [0] * 8))
        nd = net.nodes["Bob"]
        reg = nd.remote_new_register()
        for _ in range(4):                                                               # the last ones are refused: full
            d = nd.remote_new_qubit_inreg(reg)
            d.addErrback(lambda f: None)
            net.settle()
        empty = nd.remote_new_register()
        nd.remote_delete_register(empty)
        net.settle()
    finally:
        acts += REC.stop()
    return acts


def concurrent_acts(ctx, prop, nsched, budget=6.0):
    """a sample of concurrent schedules of schedcase: -> (activations of schedules the C04 oracle and the monitors found
    clean, activations of the others, number of schedules, number of clean ones)"""
    from . import schedcase as SC
    import random
    REC.install()
    rng = random.Random(ctx.rng.randrange(1 << 30))
    clean, other = [], []
    n = nclean = 0
    cases = []
    for name, (prefix, size) in SC.placements().items():
        if size == 0:
            cases.append({"name": name, "nodes": SC.NODES, "max_qubits": 5, "prefix": prefix})
    rng.shuffle(cases)
    t0 = time.time()
    budget = float(os.environ.get("VERIF_SKELTRACE_BUDGET", budget))
    per_case = max(4, nsched // max(1, len(cases)))
    for case in cases:
        if n >= nsched or time.time() - t0 > budget:
            break
        ps = SC.placement_state(case)
        case = dict(case, coin=SC.coins_for(ps["labels"], rng))
        ops = SC.all_ops(ps, case["nodes"])
        for _ in range(per_case):
            k = rng.choice((1, 2, 2, 2, 3))
            chosen = []
            while len(chosen) < k:
                x = rng.choice(ops)
                if sum(1 for c in chosen if SC.node_of(c[0]) == SC.node_of(x[0])) >= 2:
                    continue
                chosen.append(x)
            c1 = dict(case, conc=SC.with_tags(chosen), backoff=SC.BACKOFF_DISTINCT)
            kind = rng.choice(("fifo", "fifo-rev", "rand", "rand-t", "pct"))
            spec = {"fifo": {"kind": "fifo"}, "fifo-rev": {"kind": "fifo", "rev": True},
                    "rand": {"kind": "rand", "seed": rng.randrange(1 << 30), "tp": 0.0},
                    "rand-t": {"kind": "rand", "seed": rng.randrange(1 << 30), "tp": 0.15},
                    "pct": {"kind": "pct", "seed": rng.randrange(1 << 30), "depth": 2, "len": 40}}[kind]
            REC.start(tag={"case": c1, "spec": spec})
            try:
                rec = SC.run_schedule(c1, spec)
            finally:
                got = REC.stop()
            n += 1
            # `unguarded` (a list mutated without its node's lock: every destructive measurement of a remotely
            # simulated qubit, F12) does not disturb the shape of anybody's trace: such schedules count as clean
            ok = not SC.judge_c04(rec) and not rec["foreign"] and not rec["obs"]["wf"]
            if ok:
                nclean += 1
                clean += got
            else:
                other += got
            if n >= nsched or time.time() - t0 > budget:
                break
    return clean, other, n, nclean


def tie(ctx, res, prop):
    """the additional tie of C03 / C04: every recorded activation must be accepted by the skeleton of its method"""
    if getattr(ctx, "replay", None):
        return
    t0 = time.time()
    lean_ok = getattr(ctx, "lean_ok", True)
    seq, nops, nprogs = sequential_acts(ctx, ctx.scale(12, 80))
    seq += directed_acts()
    clean, other, nsched, nclean = concurrent_acts(ctx, prop, ctx.scale(160, 1500), budget=ctx.scale(6.0, 60.0))
    t1 = time.time()
    per_method = {}
    for a in seq + clean + other:
        per_method[a.lean] = per_method.get(a.lean, 0) + 1
    n1, d1, rej1, why1 = judge(seq + clean, lean_ok)
    n2, d2, rej2, why2 = judge(other, lean_ok)
    res.traces += n1
    res.count("skeleton trace acceptance|activations of sequential programs", len(seq))
    res.count("skeleton trace acceptance|activations of clean concurrent schedules", len(clean))
    res.count("skeleton trace acceptance|activations of concurrent schedules with a (known) anomaly, notes only", len(other))
    for ln, ans, tag, cnt in rej1[:8]:
        res.tie_break("skeleton does not accept the real trace", {"activation": ln, "recorded in": tag, "times": cnt},
                      ans, ln)
    if len(rej1) > 8:
        res.notes.append("skeleton trace acceptance: %d more rejected activation lines" % (len(rej1) - 8))
    for ln, ans, tag, cnt in rej2[:4]:
        res.notes.append("trace not accepted in a schedule that also shows an anomaly (lock time-out path, foreign "
                         "release, unguarded mutation, hang ...; not a tie break): %s -> %s" % (ln, ans))
    missing = sorted(m for m in set(REC.tracked.values()) - set(per_method) if m.startswith(("remote_", "sq_")))
    msg = ("skeleton trace acceptance: %d sequential programs (%d ops) + %d concurrent schedules (%d clean): %d activations "
           "of %d translated methods compared (%d distinct traces), %d rejected; %d activations of anomalous schedules "
           "(%d distinct, %d not accepted: notes); compared as a prefix: %s; release-if-locked found the lock free %d times; "
           "entry methods never activated: %s; %.1f s run + %.1f s Lean" % (
               nprogs, nops, nsched, nclean, n1, len(per_method), d1, len(rej1), n2, d2, len(rej2),
               dict(why1 + why2) or "none", REC.noop_releases, ",".join(missing) or "none", t1 - t0, time.time() - t1))
    res.notes.append(msg)
    print(msg)

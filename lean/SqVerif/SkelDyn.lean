import SqVerif.Skel
/-!
# Pointer skeletons: who reads / re-points a handle's simulator pointer, under which lock — layer L3, serves C03

Core Lean only.  `DStmt` is the statement language into which `harness/gen/skeldyn.py` translates, on every run,
every method of `simulaqron/virtual_node/virtual.py` that reads or writes a handle's simulator pointer
(`virtualQubit.simNode` / `.simQubit`) — `Gen/SkeletonDyn.lean`.  Only pointer-relevant events are kept:

* `readPtr h k`        `x = h.simNode` (or `h.simNode` evaluated as the receiver / argument of a call): the node the
                       pointer names is captured into slot `k`.  From a pointer that is not validated this is a
                       dirty read whose value only decides which lock is tried next;
* `acq ls to`          the node locks `ls` are requested as ONE set (`set([local, control_sim, target_sim])`, or a
                       single lock); `to = true`: the lock timer fired first, only some had been granted;
* `rel ls`, `cancel`   release of a set acquired as one set / `d_lock.cancel()`;
* `reval h l ok`       the comparison `h.simNode == <node of l>` was evaluated; `ok = true` on the branch on which
                       the two are equal (the RE-VALIDATION when `l` is held), `false` otherwise;
* `use h`              any other dereference of `h.simNode` / `h.simQubit` (engine call, remote call, …);
* `repoint h new`      assignment to `h.simNode` / `h.simQubit`: the handle now names node `new`;
* `bind h`             the loop variable `h` is re-bound (`for q in self.virtQubits`): `h` is another handle now;
* `requires l`         `assert self._lock.locked`;
* `iter l`             iteration over the handle list (`virtQubits`) of node `l` across suspension points;

lock operands are *references* (`LRef`): `self` (the node the method runs on = the `virtNode` of its handles),
`cap k` (the node captured into slot `k` by the last `readPtr h k`), `recv`, `peer`, `arg s` (a node given by name
in parameter `s`).  Whatever the translator cannot classify is `unknown`, which has
every path and on which every checker fails.

* `DSem`   the paths of a statement (exceptions possible after every call; `ite` either branch; `loop` while the
           body ends with `cont` — the tail self-call of the optimistic retry);
* `douts`  the abstract interpreter (same construction as `Skel.outs`, whose list/loop helpers are reused);
* `dStep`  ONE monitor automaton for the dynamic-guard discipline, with two violation flags (and `lStep`, the same
           automaton with a third one):
  - `violR` (reader): a `use h` without a preceding successful `reval h l` under a held lock `l` with no release
    since; a release of something not held as one set; an acquire after a release that follows an effect
    (two-phase modulo aborted attempts); a re-capture `readPtr h k` while `cap k` is held; `cancel`;
  - `violW` (writer): a `repoint h new` while `h` is not validated (old lock not known held) or `new` is not held;
  - `violL`: an iteration over the handle list of a node whose lock is not held (F12).
* `readerDisciplined`, `writerDisciplined`, `listIterLocked` and their `…From` versions (contract: locks held and
  handles validated by the caller).
-/
namespace SqVerif.SkelDyn
open SqVerif.Skel (Handle Exit Cfg Out addNew union thenOn)

/-- a reference to a node (lock) in a pointer skeleton -/
inductive LRef where
  | self                    -- the node the method runs on (for a handle method: `self.virtNode`)
  | cap (k : Nat)           -- the node captured into slot `k` by the last `readPtr h k`
  | recv                    -- the send target
  | peer                    -- each other node of the network
  | arg (s : String)        -- the node whose name is passed in parameter `s`
  deriving DecidableEq, Repr

inductive DEv where
  | readPtr (h : Handle) (k : Nat)
  | acq (ls : List LRef) (timedOut : Bool)
  | rel (ls : List LRef)
  | cancel
  | reval (h : Handle) (l : LRef) (ok : Bool)
  | use (h : Handle)
  | repoint (h : Handle) (new : LRef)
  | bind (h : Handle)
  | requires (l : LRef)
  | iter (l : LRef)
  deriving DecidableEq, Repr

inductive DCond where
  | any | timeout
  deriving DecidableEq, Repr

inductive DStmt where
  | skip
  | ev (e : DEv)
  | raise
  | ret
  | brk
  | cont
  | seq (a b : DStmt)
  | ite (c : DCond) (a b : DStmt)
  | loop (body : DStmt)
  | scope (body : DStmt)
  | tryFinally (body fin : DStmt)
  | tryExcept (body handler : DStmt)
  | tryCatch (body handler : DStmt)
  | unknown (why : String)
  deriving Repr

/-- `dblock [a, b, c] = seq a (seq b c)` -/
def dblock : List DStmt → DStmt
  | [] => .skip
  | [a] => a
  | a :: rest => .seq a (dblock rest)

/-- an event produced by a call: the call may raise afterwards -/
def call (e : DEv) : DStmt := .seq (.ev e) (.ite .any .raise .skip)

/-- a pointer-irrelevant call (no event), which may raise -/
def mayRaise : DStmt := .ite .any .raise .skip

/-! ### Paths -/

abbrev DRel := List DEv → Exit → Prop

inductive DIter (B : DRel) : DRel where
  | done {tr e} : B tr e → e ≠ .cont → DIter B tr e
  | again {tr1 tr2 e} : B tr1 .cont → DIter B tr2 e → DIter B (tr1 ++ tr2) e

/-- `DSem s tr e`: statement `s` has a path with event trace `tr` that exits by `e` -/
def DSem : DStmt → DRel
  | .skip => fun tr e => tr = [] ∧ e = .norm
  | .ev x => fun tr e => tr = [x] ∧ e = .norm
  | .raise => fun tr e => tr = [] ∧ e = .exc
  | .ret => fun tr e => tr = [] ∧ e = .ret
  | .brk => fun tr e => tr = [] ∧ e = .brk
  | .cont => fun tr e => tr = [] ∧ e = .cont
  | .seq a b => fun tr e =>
      (DSem a tr e ∧ e ≠ .norm) ∨ (∃ tr1 tr2, DSem a tr1 .norm ∧ DSem b tr2 e ∧ tr = tr1 ++ tr2)
  | .ite _ a b => fun tr e => DSem a tr e ∨ DSem b tr e
  | .loop b => fun tr e => ∃ e0, DIter (DSem b) tr e0 ∧ e = e0.unloop
  | .scope b => fun tr e => ∃ e0, DSem b tr e0 ∧ e = e0.unscope
  | .tryFinally b f => fun tr e =>
      ∃ tr1 e1 tr2 e2, DSem b tr1 e1 ∧ DSem f tr2 e2 ∧ tr = tr1 ++ tr2 ∧ e = (if e2 = .norm then e1 else e2)
  | .tryExcept b h => fun tr e =>
      DSem b tr e ∨ (∃ tr1 tr2, DSem b tr1 .exc ∧ DSem h tr2 e ∧ tr = tr1 ++ tr2)
  | .tryCatch b h => fun tr e =>
      (DSem b tr e ∧ e ≠ .exc) ∨ (∃ tr1 tr2, DSem b tr1 .exc ∧ DSem h tr2 e ∧ tr = tr1 ++ tr2)
  | .unknown _ => fun _ _ => True

/-- the paths of a method -/
def dpaths (s : DStmt) (tr : List DEv) (e : Exit) : Prop := DSem s tr e

/-! ### The abstract interpreter (the flags component of `Skel.Cfg` is carried along unchanged) -/

section Outs
variable {A : Type} [DecidableEq A]

/-- explore the loop heads reachable through `cont`, analysing the body once per head: work list `todo`,
    table `tbl` of (head, outcomes of the body from that head) -/
def explore (f : Cfg A → Option (List (Out A))) : Nat → List (Cfg A) → List (Cfg A × List (Out A)) →
    Option (List (Cfg A × List (Out A)))
  | 0, todo, tbl => if todo.isEmpty then some tbl else none
  | _+1, [], tbl => some tbl
  | n+1, r :: todo, tbl =>
    if tbl.any (fun e => e.1 == r) then explore f n todo tbl
    else
      match f r with
      | none => none
      | some O => explore f n (Skel.contsOf O ++ todo) ((r, O) :: tbl)

/-- every `cont` outcome recorded in the table leads to a head of the table -/
def closedTbl (tbl : List (Cfg A × List (Out A))) : Bool :=
  tbl.all (fun e => (Skel.contsOf e.2).all (fun y => tbl.any (fun e' => e'.1 == y)))

def exploreFuel : Nat := 64

def dloopOuts (f : Cfg A → Option (List (Out A))) (x : Cfg A) : Option (List (Out A)) :=
  match explore f exploreFuel [x] [] with
  | some tbl =>
    if tbl.any (fun e => e.1 == x) && closedTbl tbl then some (union [] (tbl.flatMap (fun e => Skel.exitsOf e.2)))
    else none
  | none => none

def douts (M : A → DEv → A) : DStmt → Cfg A → Option (List (Out A))
  | .skip, x => some [(.norm, x)]
  | .ev e, x => some [(.norm, (M x.1 e, x.2))]
  | .raise, x => some [(.exc, x)]
  | .ret, x => some [(.ret, x)]
  | .brk, x => some [(.brk, x)]
  | .cont, x => some [(.cont, x)]
  | .seq a b, x =>
    match douts M a x with
    | none => none
    | some O => thenOn (fun e => e == .norm) (fun _ y => douts M b y) O
  | .ite _ a b, x =>
    match douts M a x, douts M b x with
    | some O1, some O2 => some (union O1 O2)
    | _, _ => none
  | .loop b, x => dloopOuts (douts M b) x
  | .scope b, x =>
    match douts M b x with
    | none => none
    | some O => some (union [] (O.map (fun o => (o.1.unscope, o.2))))
  | .tryFinally b f, x =>
    match douts M b x with
    | none => none
    | some O => thenOn (fun _ => true)
        (fun e1 y => match douts M f y with
          | none => none
          | some K => some (K.map (fun o => ((if o.1 = .norm then e1 else o.1), o.2)))) O
  | .tryExcept b h, x =>
    match douts M b x with
    | none => none
    | some O => thenOn (fun e => e == .exc)
        (fun _ y => match douts M h y with
          | none => none
          | some K => some ((Exit.exc, y) :: K)) O
  | .tryCatch b h, x =>
    match douts M b x with
    | none => none
    | some O => thenOn (fun e => e == .exc) (fun _ y => douts M h y) O
  | .unknown _, _ => none

/-- every path of `s` ends in a monitor state satisfying `p` (false when `s` is not analysable) -/
def dAllOuts (M : A → DEv → A) (a0 : A) (p : A → Bool) (s : DStmt) : Bool :=
  match douts M s (a0, []) with
  | some O => O.all (fun o => p o.2.1)
  | none => false

end Outs

/-! ### Syntactic helpers -/

def DStmt.hasUnknown : DStmt → Bool
  | .unknown _ => true
  | .seq a b | .ite _ a b | .tryFinally a b | .tryExcept a b | .tryCatch a b => a.hasUnknown || b.hasUnknown
  | .loop b | .scope b => b.hasUnknown
  | _ => false

/-- prune the time-out branch of every lock race (the schedule predicate `NoLockTimeout`) -/
def dNoTimeout : DStmt → DStmt
  | .ite .timeout _ b => dNoTimeout b
  | .ite c a b => .ite c (dNoTimeout a) (dNoTimeout b)
  | .seq a b => .seq (dNoTimeout a) (dNoTimeout b)
  | .loop b => .loop (dNoTimeout b)
  | .scope b => .scope (dNoTimeout b)
  | .tryFinally a b => .tryFinally (dNoTimeout a) (dNoTimeout b)
  | .tryExcept a b => .tryExcept (dNoTimeout a) (dNoTimeout b)
  | .tryCatch a b => .tryCatch (dNoTimeout a) (dNoTimeout b)
  | s => s

/-- the events that occur in a statement -/
def DStmt.events : DStmt → List DEv
  | .ev e => [e]
  | .seq a b | .ite _ a b | .tryFinally a b | .tryExcept a b | .tryCatch a b => a.events ++ b.events
  | .loop b | .scope b => b.events
  | _ => []

abbrev DTable := List (String × DStmt)

def DTable.find (tbl : DTable) (name : String) : Option DStmt :=
  match tbl.find? (fun p => p.1 == name) with
  | some p => some p.2
  | none => none

/-! ### The monitor of the dynamic-guard discipline -/

/-- a set of node locks acquired as one set: its members may be the same node; different sets never share a
    node (a lock is not re-acquired by its holder) -/
abbrev Grp := List LRef

/-- per-operation account.
    `held`: the sets of node locks acquired, one entry per `acq`;
    `valid`: handles whose pointer is known to name a node whose lock is in the given held set (found equal to
    such a node by a comparison, or re-pointed to one), nothing having been released since;
    `slots`: captures taken from a VALID pointer: slot `k` holds a node whose lock is in the given held set
    (a capture from a pointer that is not valid is a dirty read: `cap k` is then just a name for a lock);
    `eff`: an effect (a validated read, a use, a re-pointing) has happened; `shrinking`: a release after an effect -/
structure DSt where
  held : List Grp
  valid : List (Handle × Grp)
  slots : List (Nat × Grp)
  eff : Bool
  shrinking : Bool
  violR : Bool
  violW : Bool
  deriving DecidableEq, Repr

def DSt.holds (st : DSt) (x : LRef) : Bool := st.held.any (fun g => decide (x ∈ g))

def DSt.lookup (st : DSt) (h : Handle) : Option Grp :=
  match st.valid.find? (fun p => p.1 == h) with
  | some p => some p.2
  | none => none

def DSt.slot (st : DSt) (k : Nat) : Option Grp :=
  match st.slots.find? (fun p => p.1 == k) with
  | some p => some p.2
  | none => none

/-- the held set to which the lock of `x` belongs: a capture from a valid pointer belongs to the set the pointer
    was valid for; every other reference is looked up among the acquired sets -/
def DSt.groupOf (st : DSt) (x : LRef) : Option Grp :=
  match x with
  | .cap k =>
    match st.slot k with
    | some g => some g
    | none => st.held.find? (fun g => decide (LRef.cap k ∈ g))
  | x => st.held.find? (fun g => decide (x ∈ g))

def LRef.isSnap (st : DSt) : LRef → Bool
  | .cap k => (st.slot k).isSome
  | _ => false

def sameSet (a b : List LRef) : Bool := a.all (fun x => decide (x ∈ b)) && b.all (fun x => decide (x ∈ a))

/-- the one held set all of `ls` belong to -/
def groupOfAll (st : DSt) : List LRef → Option Grp
  | [] => none
  | [l] => st.groupOf l
  | l :: r =>
    match st.groupOf l, groupOfAll st r with
    | some g, some g' => if g = g' then some g else none
    | _, _ => none

/-- `h` is now known to name a node of the held set `g`.  Another handle may be the same handle (the loop
    variable over `virtQubits` ranges over all handles of the node): it stays valid only if it was valid for the
    same set -/
def DSt.setValid (st : DSt) (h : Handle) (g : Grp) : List (Handle × Grp) :=
  (h, g) :: st.valid.filter (fun p => p.1 != h && p.2 == g)

def dStep (st : DSt) : DEv → DSt
  | .readPtr h k =>
    -- re-capturing into a slot whose earlier content is still held under that name would change what the name means
    if st.holds (.cap k) then { st with violR := true }
    else
      match st.lookup h with
      | some g => { st with slots := (k, g) :: st.slots.filter (fun p => p.1 != k) }
      | none => { st with slots := st.slots.filter (fun p => p.1 != k) }
  | .acq ls false =>
    if st.shrinking || ls.any (LRef.isSnap st) || ls.any st.holds || ls.isEmpty then { st with violR := true }
    else { st with held := st.held ++ [ls] }
  | .acq _ true => st
  | .cancel => { st with violR := true }
  | .rel ls =>
    match groupOfAll st ls with
    | some g =>
      if decide (g ∈ st.held) && (sameSet ls g || g.length == 1) then
        { st with held := st.held.erase g, valid := [], slots := [], shrinking := st.shrinking || st.eff }
      else { st with violR := true }
    | none => { st with violR := true }
  | .reval h l true =>
    match st.groupOf l with
    | some g => if decide (g ∈ st.held) then { st with valid := st.setValid h g, eff := true } else st
    | none => st
  | .reval _ _ false => st
  | .use h =>
    match st.lookup h with
    | some _ => { st with eff := true }
    | none => { st with violR := true }
  | .repoint h new =>
    match st.lookup h, st.groupOf new with
    | some _, some g =>
      if decide (g ∈ st.held) then { st with valid := st.setValid h g, eff := true }
      else { st with violW := true }
    | _, _ => { st with violW := true }
  | .bind h => { st with valid := st.valid.filter (fun p => p.1 != h) }
  | .requires l =>
    match st.groupOf l with
    | some g => if decide (g ∈ st.held) then st else { st with violR := true }
    | none => { st with violR := true }
  | .iter _ => st

/-- the list-iteration monitor: `dStep`, and a flag raised by an iteration over the handle list of a node whose
    lock is not held -/
structure LSt where
  st : DSt
  violL : Bool
  deriving DecidableEq, Repr

def lStep (a : LSt) (e : DEv) : LSt :=
  match e with
  | .iter l =>
    match a.st.groupOf l with
    | some g => if decide (g ∈ a.st.held) then a else { a with violL := true }
    | none => { a with violL := true }
  | e => { a with st := dStep a.st e }

/-- `pre`: node locks the caller holds by contract (each its own set); `pv`: handles the caller has validated -/
def dInit (pre : List LRef) (pv : List (Handle × LRef)) : DSt :=
  ⟨pre.map (fun l => [l]), pv.map (fun p => (p.1, [p.2])), [], false, false, false, false⟩

/-- **reader discipline**: on every path (normal, return, exceptional), every `use h` is preceded by a successful
    re-validation of `h` against a node whose lock is held, with no release in between; locks are released as
    they were acquired; no acquire follows a release that follows an effect; failed attempts release before the
    pointer is captured again -/
def readerDisciplinedFrom (pre : List LRef) (pv : List (Handle × LRef)) (s : DStmt) : Bool :=
  dAllOuts dStep (dInit pre pv) (fun st => !st.violR) s

/-- **writer discipline**: every `repoint h new` happens while `h` is validated (the lock of the node it names —
    the OLD guard — is held) and the lock of `new` — the NEW guard — is held -/
def writerDisciplinedFrom (pre : List LRef) (pv : List (Handle × LRef)) (s : DStmt) : Bool :=
  dAllOuts dStep (dInit pre pv) (fun st => !st.violW) s

/-- every iteration over a node's handle list happens under that node's lock -/
def listIterLockedFrom (pre : List LRef) (pv : List (Handle × LRef)) (s : DStmt) : Bool :=
  dAllOuts lStep ⟨dInit pre pv, false⟩ (fun a => !a.violL) s

def readerDisciplined (s : DStmt) : Bool := readerDisciplinedFrom [] [] s
def writerDisciplined (s : DStmt) : Bool := writerDisciplinedFrom [] [] s
def listIterLocked (s : DStmt) : Bool := listIterLockedFrom [] [] s

/-- reader and writer discipline, in one pass -/
def disciplinedFrom (pre : List LRef) (pv : List (Handle × LRef)) (s : DStmt) : Bool :=
  dAllOuts dStep (dInit pre pv) (fun st => !st.violR && !st.violW) s

def disciplined (s : DStmt) : Bool := disciplinedFrom [] [] s

/-- does the statement re-point a handle at all? -/
def DStmt.repoints (s : DStmt) : Bool := s.events.any (fun e => match e with | .repoint _ _ => true | _ => false)

end SqVerif.SkelDyn
